package props

import (
	"fmt"
	"go/token"
	"go/types"
	"strings"

	"golang.org/x/tools/go/ssa"

	"oxiaverif/internal/chk"
	"oxiaverif/internal/ir"
)

func init() { register("C19", checkC19) }

const setPkg = "github.com/emirpasic/gods/v2/sets/linkedhashset"

func checkC19(c *chk.Ctx) {
	h := newH(c)
	c.Decided = []string{
		"R19i every label of a rule narrows the eligible set (the running set is not grown in place for later labels of the first rule)",
		"R19h successive swaps of one round see each other: the selected set of a swap is computed from state the previous proposal updated",
		"R19g the policies of the selection contexts are only copied from the namespace configuration",
		"R19f the selection context never changes the candidate set it was handed in place (the balancer shares one set across all swaps of a round and reads it to tell deleted servers from live ones)",
		"R19a the ensemble selector only succeeds when the number of distinct selected ids equals the replication factor, and returns exactly the ids it added to the selected set",
		"R19b the candidate set only shrinks: it is reassigned to Candidates - selected or to the anti-affinity filter's result; the load selector returns only members of the candidate set, the final selector an element of it",
		"R19c a swap proposes one replacement: the selected set is the ensemble minus the node being replaced, a target equal to that node is refused, and the new ensemble drops exactly the old id and appends the new one once",
		"R19e the anti-affinity filter composes its rules: the set carried from one rule to the next is combined with (and only replaced by values derived from) the running result, never rebuilt from the unfiltered candidates",
		"R19d the per-server selector chain starts with the anti-affinity selector and only returns ids produced by the chain (no path around it)",
	}
	c.NotDec = []string{
		"satisfaction of anti-affinity for every cluster / labelling (value-level)",
		"load ordering; behaviour of the label grouping cache across the ensemble loop (observation O5)",
	}
	ruleR19a(h)
	ruleR19b(h)
	ruleR19c(h)
	ruleR19d(h)
	ruleR19e(h)
	ruleR19f(h)
	rulePoliciesOnlyFromConfig(h, "R19g")
	ruleSwapSelectedFromCurrentView(h, "R19h")
	ruleFilterSetDoesNotGrow(h, "R19i")
}

func isSetMethod(c *ssa.CallCommon, name string) bool {
	f := c.StaticCallee()
	if f == nil || f.Signature.Recv() == nil {
		return false
	}
	n := f.Name()
	if i := strings.Index(n, "["); i >= 0 {
		n = n[:i]
	}
	o := f
	if f.Origin() != nil {
		o = f.Origin()
	}
	return n == name && o.Pkg != nil && o.Pkg.Pkg.Path() == setPkg
}

func ruleR19a(h *H) {
	const rule = "R19a"
	h.Rule(rule, "K1", "ensemble Select: the success return is only reached under selected.Size() == Replicas; every id written into the result is the id added to the selected set", 1)
	for _, fn := range h.P.Funcs {
		if fn.Parent() != nil || ir.RelPkg(ir.PkgPathOf(fn)) != "coordinator/selectors/ensemble" || fn.Name() != "Select" || fn.Signature.Recv() == nil {
			continue
		}
		h.Fn(ir.FuncName(fn))
		edges := ir.EdgesWhere(fn, func(c ir.Cmp) bool {
			if c.Op != token.EQL {
				return false
			}
			call, ok := ir.Canon(c.L).(*ssa.Call)
			if !ok || !isSetMethod(call.Common(), "Size") {
				return false
			}
			// the size is compared with the requested replication factor itself, not with a value
			// merely derived from it (min(Replicas, candidates) would let a short ensemble pass)
			r, ok := ir.FieldLoadOf(stripConv(ir.Canon(c.R)))
			return ok && r.Field == "Replicas"
		})
		i := 0
		ir.Instrs(fn, func(in ssa.Instruction) {
			ret, ok := in.(*ssa.Return)
			if !ok || in.Block() == fn.Recover {
				return
			}
			vals := ir.ReturnValues(ret)
			if !isNilConst(vals[len(vals)-1]) || isNilConst(vals[0]) {
				return
			}
			i++
			okp, path := ir.MustPassEdge(fn, nil, in, edges, nil)
			h.Verdict(okp && len(edges) > 0, rule, fmt.Sprintf("ensemble success return #%d in %s", i, ir.FuncName(fn)), h.pos(in), "only under selected.Size() == Replicas", "an ensemble can be returned although fewer than replication-factor distinct servers were selected", witness(path))
		})
		// ids stored into the result slice are the ids added to the set
		var added []ssa.Value
		ir.Instrs(fn, func(in ssa.Instruction) {
			if c := ir.CallOf(in); c != nil && isSetMethod(c, "Add") {
				for _, v := range sliceArg(c.Args[len(c.Args)-1]) {
					added = append(added, ir.Canon(v))
				}
			}
		})
		n := 0
		ir.Instrs(fn, func(in ssa.Instruction) {
			st, ok := in.(*ssa.Store)
			if !ok {
				return
			}
			if _, isIA := st.Addr.(*ssa.IndexAddr); !isIA || st.Val.Type().String() != "string" {
				return
			}
			ia := st.Addr.(*ssa.IndexAddr)
			if _, isSlice := ia.X.Type().Underlying().(*types.Slice); !isSlice {
				return
			}
			n++
			good := false
			for _, a := range added {
				if a == ir.Canon(st.Val) {
					good = true
				}
			}
			h.Verdict(good, rule, fmt.Sprintf("ensemble member #%d in %s", n, ir.FuncName(fn)), h.pos(in), "the id that was added to the selected set", "an id is put into the ensemble without being recorded as selected (it could be selected again: duplicate member)")
		})
		// the same with the result built by append(result, id)
		ir.Instrs(fn, func(in ssa.Instruction) {
			c, ok := in.(*ssa.Call)
			if !ok {
				return
			}
			b, isB := c.Call.Value.(*ssa.Builtin)
			if !isB || b.Name() != "append" || c.Type().String() != "[]string" {
				return
			}
			el := appendedElem(c)
			if el == nil {
				return
			}
			n++
			good := false
			for _, a := range added {
				if a == ir.Canon(el) {
					good = true
				}
			}
			h.Verdict(good, rule, fmt.Sprintf("ensemble member #%d in %s", n, ir.FuncName(fn)), h.pos(in), "the id that was added to the selected set", "an id is put into the ensemble without being recorded as selected (it could be selected again: duplicate member)")
		})
	}
}

func ruleR19b(h *H) {
	const rule = "R19b"
	h.Rule(rule, "K3", "single.Context.Candidates is only reassigned to Candidates.Difference(selected) or to a set built by the anti-affinity filter; the load selector returns an id only under Candidates.Contains(id); the final selector returns an element of Candidates.Values()", 4)
	for _, w := range h.P.FieldWrites("coordinator/selectors/single", "Context", "Candidates") {
		pkg := ir.RelPkg(ir.PkgPathOf(w.Fn))
		name := "Candidates write in " + ir.FuncName(w.Fn)
		h.Fn(ir.FuncName(w.Fn))
		if w.Val == nil {
			h.Unknown(rule, name, h.pos(w.Instr), "written through an escaped address")
			continue
		}
		v := ir.Canon(w.Val)
		if call, ok := v.(*ssa.Call); ok && isSetMethod(call.Common(), "Difference") {
			recvOK := ir.LoadsField(call.Call.Args[0], "coordinator/selectors/single", "Context", "Candidates")
			argOK := ir.LoadsField(call.Call.Args[1], "coordinator/selectors/single", "Context", "selected")
			h.Verdict(recvOK && argOK, rule, name, h.pos(w.Instr), "Candidates.Difference(selected)", "the candidate set is recomputed from something other than Candidates minus the selected servers")
			continue
		}
		if pkg != "coordinator/selectors/single" {
			// construction of a fresh context from the caller's candidate set
			h.OK(rule, name, h.pos(w.Instr), "initialisation of a new selection context")
			continue
		}
		// inside the selector package: a set built from the grouped candidates (subset by construction: New + Add of iterated candidate values)
		built := false
		if call, ok := v.(*ssa.Call); ok && (isSetMethod(call.Common(), "Intersection")) {
			built = true
		}
		if ir.DependsOn(w.Val, func(x ssa.Value) bool {
			c, ok := x.(*ssa.Call)
			if !ok {
				return false
			}
			f := c.Call.StaticCallee()
			if f == nil {
				return false
			}
			o := f
			if f.Origin() != nil {
				o = f.Origin()
			}
			return strings.HasPrefix(f.Name(), "New") && o.Pkg != nil && o.Pkg.Pkg.Path() == setPkg
		}) {
			built = true
		}
		h.Verdict(built, rule, name, h.pos(w.Instr), "a filtered subset built by the anti-affinity selector", "the candidate set is replaced by "+ir.Describe(w.Val))
	}
	// selectors returning ids
	for _, fn := range h.P.Funcs {
		if fn.Parent() != nil || ir.RelPkg(ir.PkgPathOf(fn)) != "coordinator/selectors/single" || fn.Name() != "Select" || fn.Signature.Recv() == nil {
			continue
		}
		tn := namedName(fn.Signature.Recv().Type())
		if strings.Contains(strings.ToLower(tn), "affinit") || tn == "server" {
			continue
		}
		h.Fn(ir.FuncName(fn))
		i := 0
		ir.Instrs(fn, func(in ssa.Instruction) {
			ret, ok := in.(*ssa.Return)
			if !ok || in.Block() == fn.Recover {
				return
			}
			vals := ir.ReturnValues(ret)
			if !isNilConst(vals[1]) {
				return
			}
			if k, isK := vals[0].(*ssa.Const); isK && k.Value != nil && constString(k) == "" {
				return
			}
			i++
			name := fmt.Sprintf("%s.Select result #%d", tn, i)
			id := vals[0]
			// (a) guarded by Candidates.Contains(id)
			good := false
			for _, g := range ir.Guards(in) {
				call, isCall := g.Cond.(*ssa.Call)
				if isCall && g.Taken && isSetMethod(call.Common(), "Contains") && ir.LoadsField(call.Call.Args[0], "coordinator/selectors/single", "Context", "Candidates") {
					for _, a := range sliceArg(call.Call.Args[len(call.Call.Args)-1]) {
						if ir.Canon(a) == ir.Canon(id) {
							good = true
						}
					}
				}
			}
			// (b) an element of Candidates.Values()
			if !good {
				if u, isU := ir.Canon(id).(*ssa.UnOp); isU && u.Op == token.MUL {
					if ia, isIA := u.X.(*ssa.IndexAddr); isIA {
						if vc, isCall := ir.Canon(ia.X).(*ssa.Call); isCall && isSetMethod(vc.Common(), "Values") && ir.LoadsField(vc.Call.Args[0], "coordinator/selectors/single", "Context", "Candidates") {
							good = true
						}
					}
				}
			}
			h.Verdict(good, rule, name, h.pos(in), "a member of the current candidate set", "the selector can return a server that is not in the candidate set (already selected, or excluded by the anti-affinity filter)")
		})
	}
}

func ruleR19c(h *H) {
	const rule = "R19c"
	h.Rule(rule, "K1", "swap: selected = ensemble minus the node being replaced; a target equal to that node is refused before the action is emitted; the ensemble replacement drops the old id and appends the new server exactly once", 3)
	// (1) balancer: the function emitting a SwapNodeAction
	n := 0
	for _, fn := range h.P.Funcs {
		if ir.RelPkg(ir.PkgPathOf(fn)) != "coordinator/balancer" {
			continue
		}
		var action *ssa.Alloc
		ir.Instrs(fn, func(in ssa.Instruction) {
			if al, ok := in.(*ssa.Alloc); ok && ir.TypeIs(al.Type(), "coordinator/balancer", "SwapNodeAction") {
				action = al
			}
		})
		if action == nil {
			continue
		}
		n++
		h.Fn(ir.FuncName(fn))
		// target != from established before the action
		var send ssa.Instruction
		ir.Instrs(fn, func(in ssa.Instruction) {
			if s, ok := in.(*ssa.Send); ok && send == nil {
				send = s
			}
		})
		if send == nil {
			send = action
		}
		var selCalls []ssa.Value
		collectSel := func(f *ssa.Function) {
			selCalls = nil
			ir.Instrs(f, func(in ssa.Instruction) {
				if c, ok := in.(*ssa.Call); ok && c.Call.IsInvoke() && c.Call.Method.Name() == "Select" {
					selCalls = append(selCalls, c)
				}
			})
		}
		collectSel(fn)
		// the emission may sit in an extracted helper ("propose the swap"): the decision is its caller's
		for lvl := 0; lvl < 2 && len(selCalls) == 0; lvl++ {
			site := ir.SingleCallSite(fn)
			if site == nil {
				break
			}
			fn, send = site.Parent(), site
			collectSel(fn)
			h.Fn(ir.FuncName(fn))
		}
		isTarget := func(v ssa.Value) bool {
			cv := ir.Canon(v)
			if ex, ok := cv.(*ssa.Extract); ok {
				for _, s := range selCalls {
					if ex.Tuple == s {
						return true
					}
				}
			}
			// the target variable is a cell assigned from the selection
			if al, isCell := keyCell(v); isCell {
				for _, st := range ir.AllStores(al) {
					if ex, ok := st.Val.(*ssa.Extract); ok {
						for _, s := range selCalls {
							if ex.Tuple == s {
								return true
							}
						}
					}
				}
			}
			return false
		}
		edges := ir.EdgesWhere(fn, func(c ir.Cmp) bool { return c.Op == token.NEQ && isTarget(c.L) })
		okp, path := ir.MustPassEdge(fn, nil, send, edges, nil)
		h.Verdict(okp && len(edges) > 0, rule, "swap target differs from the replaced node in "+ir.FuncName(fn), h.pos(send), "the action is only emitted when target != from", "a swap can be proposed whose target is the node being replaced", witness(path))
		// selected excludes the from node: the Add into the selected set is guarded by id != fromId
		adds := 0
		for _, hf := range helperFuncs(fn) {
			ir.Instrs(hf, func(in ssa.Instruction) {
				c := ir.CallOf(in)
				if c == nil || !isSetMethod(c, "Add") {
					return
				}
				adds++
				good := false
				for _, g := range ir.CmpGuards(in) {
					if g.Op == token.NEQ {
						good = true
					}
				}
				if !good && len(c.Args) > 0 {
					// build-then-remove: every member is added and the replaced node is taken
					// out of the same set again on every path to the emission
					isRemove := func(x ssa.Instruction) bool {
						c2 := ir.CallOf(x)
						return c2 != nil && isSetMethod(c2, "Remove") && len(c2.Args) > 0 && ir.Canon(c2.Args[0]) == ir.Canon(c.Args[0])
					}
					if hf == fn {
						if pass, _ := ir.MustPass(fn, in, send, isRemove); pass {
							good = true
						}
					}
				}
				h.Verdict(good, rule, fmt.Sprintf("selected set excludes the replaced node #%d in %s", adds, ir.FuncName(fn)), h.pos(in), "ensemble members are added unless they are the node being replaced", "every ensemble member (including the node to replace) is marked as selected, or none is: the replacement could be a current member")
			})
		}
	}
	if n == 0 {
		h.Anchor(rule, "the balancer function emitting SwapNodeAction")
	}
	// (2) replaceInList
	for _, fn := range h.P.Funcs {
		if fn.Parent() != nil || ir.RelPkg(ir.PkgPathOf(fn)) != "coordinator/controllers" || fn.Signature.Recv() != nil || fn.Signature.Params().Len() != 3 {
			continue
		}
		if _, ok := fn.Signature.Params().At(0).Type().Underlying().(*types.Slice); !ok || !ir.TypeIs(fn.Signature.Params().At(1).Type(), "coordinator/model", "Server") || fn.Signature.Results().Len() != 1 {
			continue
		}
		h.Fn(ir.FuncName(fn))
		// appends: one inside the loop guarded by item != old; one after the loop with the new server
		loopApp, tailApp := 0, 0
		guardOK := true
		ir.Instrs(fn, func(in ssa.Instruction) {
			c, ok := in.(*ssa.Call)
			if !ok {
				return
			}
			b, isB := c.Call.Value.(*ssa.Builtin)
			if !isB || b.Name() != "append" {
				return
			}
			if inLoopBlock(in.Block()) {
				loopApp++
				has := false
				for _, g := range ir.CmpGuards(in) {
					if g.Op == token.NEQ {
						has = true
					}
				}
				if !has {
					guardOK = false
				}
			} else {
				tailApp++
				el := appendedElem(c)
				if el == nil || !ir.DependsOn(el, func(x ssa.Value) bool { return x == ssa.Value(fn.Params[2]) }) {
					guardOK = false
				}
			}
		})
		if loopApp == 0 && tailApp == 1 && guardOK {
			// the library idiom: append(slices.DeleteFunc(slices.Clone(list), item == old), new)
			ir.Instrs(fn, func(in ssa.Instruction) {
				c, ok := in.(*ssa.Call)
				if !ok {
					return
				}
				if b, isB := c.Call.Value.(*ssa.Builtin); !isB || b.Name() != "append" {
					return
				}
				libCall := func(v ssa.Value, name string) *ssa.Call {
					cc, ok := ir.Canon(v).(*ssa.Call)
					if !ok {
						return nil
					}
					f := cc.Call.StaticCallee()
					if f == nil {
						return nil
					}
					o := f
					if f.Origin() != nil {
						o = f.Origin()
					}
					if o.Pkg != nil && o.Pkg.Pkg.Path() == "slices" && o.Name() == name {
						return cc
					}
					return nil
				}
				del := libCall(c.Call.Args[0], "DeleteFunc")
				if del == nil {
					return
				}
				src := del.Call.Args[0]
				if cl := libCall(src, "Clone"); cl != nil {
					src = cl.Call.Args[0]
				}
				pred := closureArg(del.Call.Args[1])
				if ir.Canon(src) != ssa.Value(fn.Params[0]) || pred == nil {
					return
				}
				okPred := false
				ir.Instrs(pred, func(x ssa.Instruction) {
					if ret, isRet := x.(*ssa.Return); isRet && len(ret.Results) == 1 {
						holds := func(y ssa.Value, want ssa.Value) bool {
							if ir.Canon(y) == want {
								return true
							}
							// the address of a cell (spilled parameter / captured variable) that holds it
							cell := y
							if fv, isFV := y.(*ssa.FreeVar); isFV {
								for _, mc := range ir.ClosureSites(pred) {
									for i, f := range pred.FreeVars {
										if f == fv && i < len(mc.Bindings) {
											cell = mc.Bindings[i]
										}
									}
								}
							}
							if al, isAl := cell.(*ssa.Alloc); isAl {
								st := ir.AllStores(al)
								return len(st) == 1 && ir.Canon(st[0].Val) == want
							}
							return false
						}
						if bo, isBo := ir.Canon(ret.Results[0]).(*ssa.BinOp); isBo && bo.Op == token.EQL && len(pred.Params) == 1 &&
							ir.DependsOn(bo, func(y ssa.Value) bool { return holds(y, fn.Params[1]) }) &&
							ir.DependsOn(bo, func(y ssa.Value) bool { return holds(y, pred.Params[0]) }) {
							okPred = true
						}
					}
				})
				if okPred {
					loopApp = 1
				}
			})
		}
		h.Verdict(loopApp == 1 && tailApp == 1 && guardOK, rule, "ensemble replacement in "+ir.FuncName(fn), h.P.Pos(fn.Pos()), "keeps every member except the old one, appends the new server once", "the ensemble replacement does not (only) drop the old server and append the new one once: the new ensemble may have a different size or a duplicate member")
	}
}

func ruleR19d(h *H) {
	const rule = "R19d"
	h.Rule(rule, "K6", "the chain selector returns only ids produced by an element of its chain, and the chain's first element is the anti-affinity selector", 2)
	for _, fn := range h.P.Funcs {
		if fn.Parent() != nil || ir.RelPkg(ir.PkgPathOf(fn)) != "coordinator/selectors/single" || fn.Name() != "Select" || fn.Signature.Recv() == nil || namedName(fn.Signature.Recv().Type()) != "server" {
			continue
		}
		h.Fn(ir.FuncName(fn))
		var chainCalls []ssa.Value
		ir.Instrs(fn, func(in ssa.Instruction) {
			if c, ok := in.(*ssa.Call); ok && c.Call.IsInvoke() && c.Call.Method.Name() == "Select" {
				chainCalls = append(chainCalls, c)
			}
		})
		i := 0
		ir.Instrs(fn, func(in ssa.Instruction) {
			ret, ok := in.(*ssa.Return)
			if !ok || in.Block() == fn.Recover {
				return
			}
			vals := ir.ReturnValues(ret)
			if !isNilConst(vals[1]) {
				return
			}
			if k, isK := vals[0].(*ssa.Const); isK && k.Value != nil && constString(k) == "" {
				return
			}
			i++
			fromChain := false
			// the returned id is (a cell assigned from) the result of a chain element
			check := func(v ssa.Value) bool {
				if ex, ok := v.(*ssa.Extract); ok {
					for _, c := range chainCalls {
						if ex.Tuple == c {
							return true
						}
					}
				}
				return false
			}
			if check(ir.Canon(vals[0])) {
				fromChain = true
			}
			if al, isCell := keyCell(vals[0]); isCell {
				all := true
				stores := ir.AllStores(al)
				for _, st := range stores {
					if k, isK := st.Val.(*ssa.Const); isK && k.Value != nil && constString(k) == "" {
						continue
					}
					if !check(st.Val) {
						all = false
					}
				}
				fromChain = all && len(stores) > 0
			}
			if phi, isPhi := vals[0].(*ssa.Phi); isPhi {
				all := true
				for _, e := range phi.Edges {
					if k, isK := e.(*ssa.Const); isK && k.Value != nil && constString(k) == "" {
						continue
					}
					if !check(ir.Canon(e)) {
						all = false
					}
				}
				fromChain = all
			}
			h.Verdict(fromChain, rule, fmt.Sprintf("chain result #%d in %s", i, ir.FuncName(fn)), h.pos(in), "the id comes from an element of the selector chain", "the chain selector returns an id that did not come out of the chain (a shortcut around the anti-affinity selector)")
		})
	}
	// the chain literal: first element is the anti-affinity selector type
	found := false
	for _, w := range h.P.FieldWrites("coordinator/selectors/single", "server", "selectors") {
		if w.Val == nil {
			continue
		}
		elems := sliceArg(ir.Canon(w.Val))
		if len(elems) == 0 {
			continue
		}
		found = true
		h.Fn(ir.FuncName(w.Fn))
		first := namedName(elems[0].Type())
		isAA := false
		// the anti-affinity selector is the one that can return ErrUnsatisfiedAntiAffinity
		if sel := h.P.Func("coordinator/selectors/single", first, "Select"); sel != nil {
			ir.Instrs(sel, func(in ssa.Instruction) {
				if u, ok := in.(*ssa.UnOp); ok && u.Op == token.MUL {
					if g, ok := u.X.(*ssa.Global); ok && g.Name() == "ErrUnsatisfiedAntiAffinity" {
						isAA = true
					}
				}
			})
		}
		h.Verdict(isAA, rule, "selector chain order in "+ir.FuncName(w.Fn), h.pos(w.Instr), "the anti-affinity selector ("+first+") is consulted first", "the chain does not start with the anti-affinity selector: a later selector can pick a server that violates a strict rule")
	}
	if !found {
		h.Anchor(rule, "the selector chain literal")
	}
}

// ruleR19e: in the anti-affinity filter the candidate set that survives is carried around
// the loop over the rules. Every value that replaces the carried set must be derived from
// the carried set itself (Intersection with it) or be a freshly created set that is then
// filled; and at least one replacement must be derived from it. A replacement computed
// from anything else (e.g. the context's unfiltered candidates) silently drops the rules
// evaluated before.
func ruleR19e(h *H) {
	const rule = "R19e"
	h.Rule(rule, "K9", "the loop-carried result set of the anti-affinity filter is only replaced by fresh sets or by values that depend on the carried set; some replacement depends on it", 1)
	n := 0
	for _, w := range h.P.FieldWrites("coordinator/selectors/single", "Context", "Candidates") {
		if ir.RelPkg(ir.PkgPathOf(w.Fn)) != "coordinator/selectors/single" || w.Val == nil {
			continue
		}
		v := ir.Canon(w.Val)
		if call, ok := v.(*ssa.Call); ok && isSetMethod(call.Common(), "Difference") {
			continue
		}
		root, isPhi := v.(*ssa.Phi)
		if !isPhi {
			continue
		}
		n++
		h.Fn(ir.FuncName(w.Fn))
		web := map[*ssa.Phi]bool{}
		var entries []ssa.Value
		seenE := map[ssa.Value]bool{}
		var walk func(p *ssa.Phi)
		walk = func(p *ssa.Phi) {
			if web[p] {
				return
			}
			web[p] = true
			for _, e := range p.Edges {
				c := ir.Canon(e)
				if q, ok := c.(*ssa.Phi); ok {
					walk(q)
				} else if !seenE[c] {
					seenE[c] = true
					entries = append(entries, c)
				}
			}
		}
		walk(root)
		inWeb := func(x ssa.Value) bool {
			p, ok := x.(*ssa.Phi)
			return ok && web[p]
		}
		var isFresh func(x ssa.Value) bool
		isFresh = func(x ssa.Value) bool {
			c, ok := x.(*ssa.Call)
			if !ok {
				return false
			}
			f := c.Call.StaticCallee()
			if f == nil {
				return false
			}
			o := f
			if f.Origin() != nil {
				o = f.Origin()
			}
			if strings.HasPrefix(f.Name(), "New") && o.Pkg != nil && o.Pkg.Pkg.Path() == setPkg {
				return true
			}
			// an extracted helper that builds and returns a fresh set
			if ir.InRepo(f) && f.Blocks != nil && f != w.Fn {
				n, all := 0, true
				ir.Instrs(f, func(in ssa.Instruction) {
					if ret, isRet := in.(*ssa.Return); isRet && len(ret.Results) == 1 {
						n++
						if !isFresh(ir.Canon(ret.Results[0])) {
							all = false
						}
					}
				})
				return n > 0 && all
			}
			return false
		}
		name := "anti-affinity result set in " + ir.FuncName(w.Fn)
		combined := 0
		bad := ""
		for _, e := range entries {
			switch {
			case isFresh(e):
			case ir.DependsOn(e, inWeb):
				combined++
			default:
				if in, ok := e.(ssa.Instruction); ok {
					bad = "at " + h.pos(in) + " the carried set is replaced by " + ir.Describe(e) + ", which is not derived from the result of the rules evaluated so far: those rules are dropped"
				} else {
					bad = "the carried set is replaced by " + ir.Describe(e) + ", which is not derived from the result of the rules evaluated so far"
				}
			}
		}
		if bad == "" && combined == 0 {
			bad = "the result of a rule is never combined with the result of the previous rules: only the last rule is enforced"
		}
		h.Verdict(bad == "", rule, name, h.pos(w.Instr), fmt.Sprintf("%d replacement(s) derived from the running result, the others are fresh sets", combined), bad)
	}
	if n == 0 {
		h.Anchor(rule, "the loop-carried result set of the anti-affinity filter")
	}
}

// ruleR19f: the candidate set in a selection context is the caller's set. The balancer
// builds it once per round, hands the same set to every swap and also uses it to decide
// which servers were removed from the cluster. Narrowing it has to produce a new set
// (Difference / Intersection); Remove / Add / Clear on the field's value change the
// caller's view: live members of an ensemble look deleted and get evacuated, and one shard
// is swapped several times to the same target.
func ruleR19f(h *H) {
	const rule = "R19f"
	h.Rule(rule, "K3", "no mutating set operation (Add, Remove, Clear) is applied to the value of the Candidates field of the selection context", 1)
	mutators := map[string]bool{"Add": true, "Remove": true, "Clear": true}
	n, uses := 0, 0
	for _, fn := range h.P.Funcs {
		if !strings.HasPrefix(ir.RelPkg(ir.PkgPathOf(fn)), "coordinator/") || fn.Blocks == nil {
			continue
		}
		fn := fn
		ir.Instrs(fn, func(in ssa.Instruction) {
			c := ir.CallOf(in)
			if c == nil || len(c.Args) == 0 && !c.IsInvoke() {
				return
			}
			recv := c.Value
			name := ""
			if c.IsInvoke() {
				name = c.Method.Name()
			} else if f := c.StaticCallee(); f != nil && len(c.Args) > 0 {
				recv, name = c.Args[0], f.Name()
			} else {
				return
			}
			r, ok := ir.FieldLoadOf(ir.Canon(recv))
			if !ok || r.Struct == nil || r.Field != "Candidates" || r.Struct.Obj().Pkg() == nil || !strings.HasPrefix(ir.RelPkg(r.Struct.Obj().Pkg().Path()), "coordinator/selectors") {
				return
			}
			uses++
			if i := strings.IndexByte(name, '['); i > 0 {
				name = name[:i] // instantiated generic method
			}
			if !mutators[name] {
				return
			}
			n++
			h.Fn(ir.FuncName(fn))
			h.Bad(rule, fmt.Sprintf("candidate set mutated in %s", ir.FuncName(fn)), h.pos(in), "the set handed to the selection context is changed in place ("+name+"): the balancer's shared candidate set loses live servers, which are then treated as deleted and evacuated, and the same shard is swapped again to a target it was already given")
		})
	}
	if uses == 0 {
		h.Anchor(rule, "uses of the Candidates field of the selection context")
		return
	}
	if n == 0 {
		h.OK(rule, "candidate set of the selection context", "", fmt.Sprintf("%d method calls on the field's value, none mutating", uses))
	}
}
