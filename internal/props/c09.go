package props

import (
	"fmt"
	"go/token"
	"go/types"
	"strings"

	"golang.org/x/tools/go/ssa"

	"oxiaverif/internal/chk"
	"oxiaverif/internal/ir"
)

func init() { register("C09", checkC09) }

var (
	segTruncate = ir.Callee{Pkg: "server/wal", Recv: "ReadWriteSegment", Name: "Truncate"}
	segFlush    = ir.Callee{Pkg: "server/wal", Recv: "ReadWriteSegment", Name: "Flush"}
	copProvider = ir.Callee{Pkg: "server/wal", Recv: "CommitOffsetProvider", Name: "CommitOffset"}
	trimSegs    = ir.Callee{Pkg: "server/wal", Recv: "ReadOnlySegmentsGroup", Name: "TrimSegments"}
)

func checkC09(c *chk.Ctx) {
	h := newH(c)
	c.Decided = []string{
		"R09p the sync loop never waits for a mutex that appenders hold while enqueueing their sync request (lock/channel order)",
		"R09o the sync loop publishes the synced offset under the WAL mutex and only when no truncation happened during the flush",
		"R09n recovery declares the log empty only when it has a single segment",
		"R09m a read-only segment that is taken out of the group's index of segments is also taken out of its cache of open segments (a stale cache entry would be served for offsets that later belong to another segment)",
		"R09l TruncateLog decides what to cut from the appended end of the log: none of its branch conditions reads the synced offset (entries appended but not yet synced have to go too)",
		"R09a an entry is appended to a segment only after the contiguity check of its offset (shared with C08)",
		"R09b every WAL method that appends to / truncates a segment updates the last-offset bookkeeping on every path that can report success",
		"R09c trimming is only driven by the trimmer and bounded by the commit offset",
		"R09e a writable segment is flushed before it is unmapped; an offset is marked synced only after a successful flush",
		"R09f in-segment truncation clears the whole discarded tail",
		"R09k sync rounds: requests received before the appended offset is read; flush skipped only against the synced offset read in that round (shared with C01/C03/C04/C08)",
		"R09j the list of segment base offsets is sorted numerically before recovery uses it positionally (shared with C10)",
		"R09i the segments group takes the caller's reference on a cached read-only segment before anything that can evict (close) cached segments runs, so a segment is never handed out closed",
		"R09h segment trimming only removes segments whose base offset is provably below the trim offset (difference bound), so the segment holding the trim offset survives",
	}
	c.NotDec = []string{
		"equivalence with a list model for every operation sequence and segment size",
		"reverse-reader arithmetic, retention timing",
	}
	h.Rule("R09a", "K1", "segment append only after the offset-contiguity check (shared with R08b)", 2)
	ruleR08bInto(h, "R09a")
	ruleR09b(h)
	ruleR09c(h)
	ruleR09e(h)
	ruleR01f(h, "R09g")
	ruleTruncateClearsTail(h, "R09f")
	ruleR09h(h)
	ruleR09i(h)
	ruleSegmentListSorted(h, "R09j")
	ruleSyncCompletionsCovered(h, "R09k")
	ruleR09l(h)
	ruleR09m(h)
	ruleRecoveredFirstOffset(h, "R09n")
	ruleSyncedOffsetPublishedUnderLock(h, "R09o")
	ruleSyncLoopAvoidsProducersMutex(h, "R09p")
}

// mayBeNil: the (resolved) error operand of a return is not provably non-nil.
func returnErrMayBeNil(ret *ssa.Return) bool {
	vals := ir.ReturnValues(ret)
	if len(vals) == 0 {
		return true
	}
	v := vals[len(vals)-1]
	if !ir.IsError(v.Type()) {
		return true
	}
	if c, ok := v.(*ssa.Const); ok {
		return c.IsNil()
	}
	// result of an error constructor is never nil
	if call, ok := v.(*ssa.Call); ok {
		if f := call.Call.StaticCallee(); f != nil {
			switch f.Name() {
			case "Wrap", "Wrapf", "New", "Errorf", "Append", "Combine":
				if f.Name() == "Wrap" || f.Name() == "Wrapf" {
					// errors.Wrap(nil) is nil: look at the wrapped value
					if len(call.Call.Args) > 0 {
						return valueMayBeNilAt(call.Call.Args[0], ret)
					}
				}
				if f.Name() == "New" || f.Name() == "Errorf" {
					return false
				}
			}
		}
	}
	return valueMayBeNilAt(v, ret)
}

func valueMayBeNilAt(v ssa.Value, at ssa.Instruction) bool {
	if g, ok := ir.Canon(v).(*ssa.UnOp); ok {
		if _, isGlobal := g.X.(*ssa.Global); isGlobal {
			return false // sentinel error variable
		}
	}
	for _, t := range ir.NilTests(v) {
		if t.NonNil == at.Block() || t.NonNil.Dominates(at.Block()) {
			return false
		}
	}
	// constructors and wrappers: errors.New / fmt.Errorf are never nil, errors.Wrap(err, …) is
	// nil exactly when err is
	if call, ok := ir.Canon(v).(*ssa.Call); ok {
		if f := call.Call.StaticCallee(); f != nil && f.Pkg != nil {
			switch pk := f.Pkg.Pkg.Path(); {
			case (pk == "errors" || pk == "github.com/pkg/errors") && (f.Name() == "New" || f.Name() == "Errorf"), pk == "fmt" && f.Name() == "Errorf":
				return false
			case pk == "github.com/pkg/errors" && (f.Name() == "Wrap" || f.Name() == "Wrapf" || f.Name() == "WithStack" || f.Name() == "WithMessage" || f.Name() == "WithMessagef") && len(call.Call.Args) > 0:
				return valueMayBeNilAt(call.Call.Args[0], at)
			}
		}
	}
	// multierr.Append(err, x) where err is known non-nil
	if call, ok := v.(*ssa.Call); ok {
		if f := call.Call.StaticCallee(); f != nil && (f.Name() == "Append" || f.Name() == "Combine") {
			for _, a := range call.Call.Args {
				if !valueMayBeNilAt(a, at) {
					return false
				}
			}
		}
	}
	return true
}

func ruleR09b(h *H) {
	const rule = "R09b"
	h.Rule(rule, "K1", "in the WAL implementation, every path from a segment Append/Truncate to a return that may report success stores lastAppendedOffset (and, for truncation, lastSyncedOffset)", 3)
	wt := h.implType(rule, "server/wal", "Wal")
	if wt == nil {
		return
	}
	tn := wt.Obj().Name()
	isStoreOf := func(field string) func(ssa.Instruction) bool {
		return func(in ssa.Instruction) bool {
			c, ok := in.(*ssa.Call)
			if !ok {
				return false
			}
			if _, isStore := isAtomicCallOnField(c, "Store", "server/wal", tn, field); isStore {
				return true
			}
			// a call to another method of the wal that certainly stores it (e.g. Clear)
			if f := c.Call.StaticCallee(); f != nil && f.Signature.Recv() != nil && ir.TypeIs(f.Signature.Recv().Type(), "server/wal", tn) {
				stores := false
				ir.Instrs(f, func(x ssa.Instruction) {
					if cc, ok := x.(*ssa.Call); ok {
						if _, isStore := isAtomicCallOnField(cc, "Store", "server/wal", tn, field); isStore {
							stores = true
						}
					}
				})
				return stores
			}
			return false
		}
	}
	n := 0
	for _, fn := range h.P.Funcs {
		if fn.Parent() != nil || fn.Signature.Recv() == nil || !ir.TypeIs(fn.Signature.Recv().Type(), "server/wal", tn) {
			continue
		}
		type mut struct {
			call   ssa.CallInstruction
			fields []string
			what   string
		}
		var muts []mut
		for _, c := range h.P.CallsIn(fn, segAppend) {
			muts = append(muts, mut{c, []string{"lastAppendedOffset"}, "Append"})
		}
		for _, c := range h.P.CallsIn(fn, segTruncate) {
			muts = append(muts, mut{c, []string{"lastAppendedOffset", "lastSyncedOffset"}, "Truncate"})
		}
		if len(muts) == 0 {
			continue
		}
		h.Fn(ir.FuncName(fn))
		for i, m := range muts {
			n++
			name := fmt.Sprintf("%s: segment %s #%d", ir.FuncName(fn), m.what, i+1)
			// after a successful mutation every exit that may report success stores the
			// offsets; when the mutating function is an extracted single-call-site helper,
			// the obligation continues in its caller behind the call
			var after func(f *ssa.Function, call ssa.CallInstruction, depth int) (string, []int)
			after = func(f *ssa.Function, call ssa.CallInstruction, depth int) (string, []int) {
				bad := ""
				var w []int
				ir.Instrs(f, func(in ssa.Instruction) {
					ret, ok := in.(*ssa.Return)
					if !ok || bad != "" || !returnErrMayBeNil(ret) {
						return
					}
					for _, fld := range m.fields {
						// paths on which the mutation itself failed do not count: block the error edges
						blocked := map[ir.Edge]bool{}
						if ev := ir.ErrResult(call); ev != nil {
							for _, t := range ir.NilTests(ev) {
								blocked[ir.Edge{From: t.If.Block(), To: t.NonNil}] = true
							}
						}
						if r, path := ir.Reach(ir.Search{From: call, Barrier: isStoreOf(fld), Blocked: blocked}, ir.Is(in)); r {
							if site := ir.SingleCallSite(f); site != nil && depth < 3 {
								if b2, _ := after(site.Parent(), site, depth+1); b2 == "" {
									continue
								}
							}
							// a later (retry) mutation on the path is checked on its own
							bad = fmt.Sprintf("after the segment %s succeeded the method can return (possibly nil error) at %s without storing %s: LastOffset() and the next-offset check no longer match the log", m.what, h.pos(in), fld)
							w = path
						}
					}
				})
				return bad, w
			}
			bad, w := after(fn, m.call, 0)
			h.Verdict(bad == "", rule, name, h.pos(m.call), "every successful exit stores the offsets", bad, witness(w))
		}
	}
	if n == 0 {
		h.Anchor(rule, "segment Append/Truncate calls in methods of the WAL implementation")
	}
}

func ruleR09c(h *H) {
	const rule = "R09c"
	h.Rule(rule, "K1+K3", "the only caller of the WAL's trim is the trimmer, with an argument that every path bounds by CommitOffsetProvider.CommitOffset(); TrimSegments is only called by the WAL's trim", 2)
	wt := h.implType(rule, "server/wal", "Wal")
	if wt == nil {
		return
	}
	tn := wt.Obj().Name()
	// the wal method calling TrimSegments
	var trims []*ssa.Function
	for _, s := range h.P.AllCalls(ir.InPkg("server/wal"), trimSegs) {
		o := ir.Outermost(s.Fn)
		isWal := o.Signature.Recv() != nil && ir.TypeIs(o.Signature.Recv().Type(), "server/wal", tn)
		h.Verdict(isWal, rule, "TrimSegments called from "+ir.FuncName(o), h.pos(s.Call), "the WAL's own trim method", "segments are trimmed from outside the WAL's trim method")
		if isWal {
			trims = append(trims, o)
		}
	}
	if len(trims) == 0 {
		h.Anchor(rule, "the WAL method calling ReadOnlySegmentsGroup.TrimSegments")
		return
	}
	for _, trim := range trims {
		h.Fn(ir.FuncName(trim))
		edges := h.P.CallersOf(trim)
		if len(edges) == 0 {
			h.Note("%s has no caller", ir.FuncName(trim))
		}
		for _, e := range edges {
			if e.Site == nil {
				continue
			}
			caller := e.Caller.Func
			h.Fn(ir.FuncName(caller))
			name := "trim called from " + ir.FuncName(caller)
			arg := e.Site.Common().Args[len(e.Site.Common().Args)-1]
			ok, why := boundedByCommitOffset(h, arg, e.Site)
			h.Verdict(ok, rule, name, h.pos(e.Site), why, "the trim point "+ir.Describe(arg)+" is not bounded by the commit offset: "+why)
		}
	}
}

// boundedByCommitOffset: v is the CommitOffset() result, or a phi each of whose edges
// is that result or is taken on an edge establishing value <= CommitOffset().
func boundedByCommitOffset(h *H, v ssa.Value, at ssa.Instruction) (bool, string) {
	isCO := func(x ssa.Value) bool { return isCallResultOf(h, x, copProvider) }
	if isCO(v) {
		return true, "the commit offset itself"
	}
	// guard at the call: v <= commitOffset
	for _, g := range ir.CmpGuards(at) {
		for _, c := range []ir.Cmp{g, g.Flip()} {
			if (c.Op == token.LEQ || c.Op == token.LSS) && ir.Canon(c.L) == ir.Canon(v) && isCO(c.R) {
				return true, "guarded by value <= CommitOffset()"
			}
		}
	}
	phi, ok := v.(*ssa.Phi)
	if !ok {
		// min(x, commitOffset) builtin
		if call, isCall := v.(*ssa.Call); isCall {
			if b, isB := call.Call.Value.(*ssa.Builtin); isB && b.Name() == "min" {
				for _, a := range call.Call.Args {
					if isCO(a) {
						return true, "min(..., CommitOffset())"
					}
				}
			}
		}
		return false, "neither the commit offset, nor a clamp against it"
	}
	cmps := ir.EdgeCmps(phi.Parent())
	for i, e := range phi.Edges {
		if isCO(e) {
			continue
		}
		pred := phi.Block().Preds[i]
		okEdge := false
		check := func(c ir.Cmp) bool {
			for _, cc := range []ir.Cmp{c, c.Flip()} {
				if (cc.Op == token.LEQ || cc.Op == token.LSS) && ir.Canon(cc.L) == ir.Canon(e) && isCO(cc.R) {
					return true
				}
			}
			return false
		}
		if c, has := cmps[ir.Edge{From: pred, To: phi.Block()}]; has && check(c) {
			okEdge = true
		}
		for _, g := range ir.BlockGuards(pred) {
			if c, isCmp := g.AsCmp(); isCmp && check(c) {
				okEdge = true
			}
		}
		if !okEdge {
			return false, "the value " + ir.Describe(e) + " reaches the trim without being compared with the commit offset"
		}
	}
	return true, "clamped: min(search result, CommitOffset())"
}

func ruleR09e(h *H) {
	const rule = "R09e"
	h.Rule(rule, "K1", "every unmap of a writable mapped segment file is preceded by a flush of that mapping", 1)
	n := 0
	for _, fn := range h.P.Funcs {
		if ir.RelPkg(ir.PkgPathOf(fn)) != "server/wal" || fn.Signature.Recv() == nil {
			continue
		}
		if !h.P.FuncMatches(fn, ir.Callee{Pkg: "server/wal", Recv: "ReadWriteSegment", Name: "Close"}) {
			continue
		}
		h.Fn(ir.FuncName(fn))
		ir.Instrs(fn, func(in ssa.Instruction) {
			c, ok := in.(*ssa.Call)
			if !ok {
				return
			}
			f := c.Call.StaticCallee()
			if f == nil || f.Name() != "Unmap" {
				return
			}
			n++
			flushed := false
			ir.Instrs(fn, func(x ssa.Instruction) {
				cc, ok := x.(*ssa.Call)
				if !ok {
					return
				}
				ff := cc.Call.StaticCallee()
				if ff != nil && ff.Name() == "Flush" && ir.Dominates(x, in) && len(cc.Call.Args) > 0 && len(c.Call.Args) > 0 && sameFieldObject(cc.Call.Args[0], c.Call.Args[0]) {
					flushed = true
				}
			})
			h.Verdict(flushed, rule, "unmap in "+ir.FuncName(fn), h.pos(in), "preceded by Flush of the same mapping",
				"the writable segment is unmapped without msync: entries appended before a rollover/close are reported as synced by a later Sync of another segment without ever being flushed")
		})
	}
	if n == 0 {
		h.Anchor(rule, "Unmap call in the Close method of the read-write segment")
	}
}

// sameFieldObject: both values denote the same struct field of the same object (as a
// loaded value or as its address).
func sameFieldObject(a, b ssa.Value) bool {
	ref := func(v ssa.Value) (ir.FieldRef, bool) {
		if r, ok := ir.FieldLoadOf(ir.Canon(v)); ok {
			return r, true
		}
		return ir.FieldAddrOf(v)
	}
	ra, oka := ref(a)
	rb, okb := ref(b)
	return oka && okb && ra.Struct == rb.Struct && ra.Field == rb.Field && ir.SameExpr(ra.Base, rb.Base)
}

func derefArg(v ssa.Value) ssa.Value {
	// receivers of value-receiver methods on a field are passed as loads or addresses
	if u, ok := v.(*ssa.UnOp); ok && u.Op == token.MUL {
		return u
	}
	return v
}

// ruleR09h: difference-bound check of ReadOnlySegmentsGroup.TrimSegments. With ub(v) the
// best upper bound of v relative to the trim offset (ub(offset)=0, ub(x±c)=ub(x)±c,
// ub(Floor(x).Key)=ub(x), phi = max), the bound under which segments are removed must
// have ub <= -1: then every removed segment starts below the segment that contains the
// trim offset, which is therefore kept.
func ruleR09h(h *H) {
	const rule = "R09h"
	h.Rule(rule, "K8", "in TrimSegments every segment removal is guarded by `segment base <= B` (or < B) with B at least one below the trim offset (B <= offset-1 by difference bounds through Floor lookups and ±constants)", 1)
	for _, fn := range h.P.ImplMethods("server/wal", "ReadOnlySegmentsGroup", "TrimSegments") {
		h.Fn(ir.FuncName(fn))
		// a method that only takes the lock and delegates (`trimSegmentsLocked`) is judged in its body
		if len(fn.Blocks) <= 2 {
			for _, g := range helperFuncs(fn)[1:] {
				if g.Signature.Params().Len() == fn.Signature.Params().Len() && len(g.Blocks) > len(fn.Blocks) {
					fn = g
					h.Fn(ir.FuncName(fn))
					break
				}
			}
		}
		var off *ssa.Parameter
		for _, p := range fn.Params {
			if p.Type().String() == "int64" {
				off = p
			}
		}
		if off == nil {
			h.Anchor(rule, "offset parameter of "+ir.FuncName(fn))
			continue
		}
		var ub func(v ssa.Value, depth int) (int64, bool)
		ub = func(v ssa.Value, depth int) (int64, bool) {
			if depth > 12 {
				return 0, false
			}
			v = ir.Canon(v)
			switch x := v.(type) {
			case *ssa.Parameter:
				if x == off {
					return 0, true
				}
			case *ssa.BinOp:
				if k, ok := x.Y.(*ssa.Const); ok && k.Value != nil {
					b, ok2 := ub(x.X, depth+1)
					if !ok2 {
						return 0, false
					}
					switch x.Op {
					case token.ADD:
						return b + k.Int64(), true
					case token.SUB:
						return b - k.Int64(), true
					}
				}
			case *ssa.Call:
				if b, ok := x.Call.Value.(*ssa.Builtin); ok && (b.Name() == "max" || b.Name() == "min") {
					best, have := int64(0), false
					for _, a := range x.Call.Args {
						v, ok := ub(a, depth+1)
						if !ok {
							if b.Name() == "max" {
								return 0, false
							}
							continue
						}
						if !have || (b.Name() == "max" && v > best) || (b.Name() == "min" && v < best) {
							best, have = v, true
						}
					}
					return best, have
				}
			case *ssa.Phi:
				best := int64(-1 << 40)
				for _, e := range x.Edges {
					b, ok := ub(e, depth+1)
					if !ok {
						return 0, false
					}
					if b > best {
						best = b
					}
				}
				return best, true
			case *ssa.UnOp:
				// load of node.Key where node is the result of a Floor lookup: Key <= lookup argument
				if r, ok := ir.FieldLoadOf(x); ok && r.Field == "Key" {
					base := ir.Canon(r.Base)
					if ex, ok := base.(*ssa.Extract); ok {
						if call, ok := ex.Tuple.(*ssa.Call); ok {
							if f := call.Call.StaticCallee(); f != nil && strings.HasPrefix(f.Name(), "Floor") {
								return ub(call.Call.Args[len(call.Call.Args)-1], depth+1)
							}
						}
					}
				}
				// a local cell with several stores: the maximum
				if u := x; u.Op == token.MUL {
					if al, ok := u.X.(*ssa.Alloc); ok {
						best := int64(-1 << 40)
						for _, st := range ir.AllStores(al) {
							b, ok := ub(st.Val, depth+1)
							if !ok {
								return 0, false
							}
							if b > best {
								best = b
							}
						}
						return best, true
					}
				}
			}
			return 0, false
		}
		n := 0
		ir.Instrs(fn, func(in ssa.Instruction) {
			c := ir.CallOf(in)
			if c == nil {
				return
			}
			f := c.StaticCallee()
			if f == nil || !strings.HasPrefix(f.Name(), "Remove") || len(c.Args) < 2 {
				return
			}
			// only removals from the tree of all segments (keyed by base offset)
			key := c.Args[len(c.Args)-1]
			if key.Type().String() != "int64" {
				return
			}
			o := f
			if f.Origin() != nil {
				o = f.Origin()
			}
			if o.Pkg == nil || !strings.Contains(o.Pkg.Pkg.Path(), "redblacktree") {
				return
			}
			n++
			good := false
			detail := "the removal is not guarded by an upper bound on the segment's base offset"
			for _, g := range ir.CmpGuards(in) {
				for _, cmp := range []ir.Cmp{g, g.Flip()} {
					if ir.Canon(cmp.L) != ir.Canon(key) || (cmp.Op != token.LEQ && cmp.Op != token.LSS) {
						continue
					}
					b, ok := ub(cmp.R, 0)
					if !ok {
						detail = "cannot bound " + ir.Describe(cmp.R) + " relative to the trim offset"
						continue
					}
					if cmp.Op == token.LSS {
						b--
					}
					if b <= -1 {
						good = true
						detail = fmt.Sprintf("removed segments start at most at offset%+d", b)
					} else {
						detail = fmt.Sprintf("segments starting as high as offset%+d can be removed: the segment that holds the trim offset itself (which must stay the first entry) can be deleted", b)
					}
				}
			}
			h.Verdict(good, rule, fmt.Sprintf("segment removal #%d in %s", n, ir.FuncName(fn)), h.pos(in), detail, detail)
		})
		if n == 0 {
			h.Anchor(rule, "removal of segments in "+ir.FuncName(fn))
		}
	}
}

// ruleR09i: ownership of read-only segments. The group keeps one reference per cached
// segment and hands an additional one to each reader. The reader's reference must be
// taken (Acquire) before any step that can drop the cache's reference (eviction closes
// the RefCount): otherwise the segment that is returned may already be closed and
// unmapped, and reads through it fail although the offset is in the log.
func ruleR09i(h *H) {
	const rule = "R09i"
	h.Rule(rule, "K1", "in the ReadOnlySegmentsGroup implementation every returned RefCount is the result of Acquire() (or a fresh reference, or the cache's own reference handed over together with the removal of its cache entry), and no call that can close cached RefCounts can execute before that Acquire", 2)
	isRefCount := func(t types.Type) bool {
		n, ok := types.Unalias(t).(*types.Named)
		return ok && n.Obj().Name() == "RefCount" && n.Obj().Pkg() != nil && strings.HasSuffix(n.Obj().Pkg().Path(), "common/object")
	}
	closesRef := func(c *ssa.CallCommon) bool {
		return c.IsInvoke() && c.Method.Name() == "Close" && isRefCount(c.Value.Type())
	}
	n := 0
	for _, t := range h.P.Impls("server/wal", "ReadOnlySegmentsGroup") {
		for _, fn := range h.P.Funcs {
			if fn.Parent() != nil || fn.Signature.Recv() == nil || !ir.TypeIs(fn.Signature.Recv().Type(), "server/wal", t.Obj().Name()) {
				continue
			}
			res := fn.Signature.Results()
			if res.Len() == 0 || !isRefCount(res.At(0).Type()) {
				continue
			}
			h.Fn(ir.FuncName(fn))
			var evictions []ssa.Instruction
			ir.Instrs(fn, func(in ssa.Instruction) {
				if ci, ok := in.(ssa.CallInstruction); ok && !closesRef(ci.Common()) && h.P.CallStaticallyReaches(ci, closesRef) {
					evictions = append(evictions, in)
				}
			})
			i := 0
			ir.Instrs(fn, func(in ssa.Instruction) {
				ret, ok := in.(*ssa.Return)
				if !ok || in.Block() == fn.Recover {
					return
				}
				v := ir.Canon(ir.ReturnValues(ret)[0])
				if isNilConst(v) {
					return
				}
				i++
				n++
				name := fmt.Sprintf("reference handed out #%d by %s", i, ir.FuncName(fn))
				// handed through from another method of the group that is judged itself (a
				// locking wrapper around a *Locked body)
				var from *ssa.Call
				if c0, isC := v.(*ssa.Call); isC {
					from = c0
				} else if ex, isEx := v.(*ssa.Extract); isEx {
					from, _ = ex.Tuple.(*ssa.Call)
				}
				if from != nil && !from.Call.IsInvoke() {
					if g := from.Call.StaticCallee(); g != nil && g != fn && g.Signature.Recv() != nil && ir.SameNamed(g.Signature.Recv().Type(), fn.Signature.Recv().Type()) && g.Signature.Results().Len() > 0 && isRefCount(g.Signature.Results().At(0).Type()) {
						h.OK(rule, name, h.pos(in), "handed through from "+ir.FuncName(g)+", which is judged itself")
						return
					}
				}
				acq, isCall := v.(*ssa.Call)
				if isCall && !acq.Call.IsInvoke() {
					// a freshly created reference that is not shared with the cache belongs to the caller
					if f := acq.Call.StaticCallee(); f != nil && strings.HasPrefix(f.Name(), "NewRefCount") {
						shared := false
						if acq.Referrers() != nil {
							for _, r := range *acq.Referrers() {
								if ci, ok := r.(ssa.CallInstruction); ok && ci != ssa.CallInstruction(acq) {
									shared = true
								}
								if st, ok := r.(*ssa.Store); ok {
									if _, local := st.Addr.(*ssa.Alloc); !local {
										shared = true
									}
								}
							}
						}
						if !shared {
							h.OK(rule, name, h.pos(in), "a fresh reference that is not kept by the group")
							return
						}
					}
				}
				// ownership transfer: the cache's own reference leaves the cache together with
				// its entry (looked up in a tree/map of the group and removed from that same
				// container, with the same key, before the return)
				if ex, isEx := v.(*ssa.Extract); isEx && ex.Index == 0 {
					if get, isGet := ex.Tuple.(*ssa.Call); isGet && len(get.Call.Args) >= 2 {
						removed := false
						ir.Instrs(fn, func(x ssa.Instruction) {
							c, isC := x.(*ssa.Call)
							if !isC || len(c.Call.Args) < 2 || !ir.Dominates(x, in) {
								return
							}
							f := c.Call.StaticCallee()
							if f == nil || !strings.HasPrefix(f.Name(), "Remove") {
								return
							}
							if ir.SameExpr(c.Call.Args[0], get.Call.Args[0]) && ir.SameExpr(c.Call.Args[1], get.Call.Args[1]) {
								removed = true
							}
						})
						if removed {
							h.OK(rule, name, h.pos(in), "the cache's reference is handed over: its entry is removed from the cache before the return")
							return
						}
					}
				}
				if !isCall || !acq.Call.IsInvoke() || acq.Call.Method.Name() != "Acquire" || !isRefCount(acq.Call.Value.Type()) {
					h.Bad(rule, name, h.pos(in), "the returned reference is "+ir.Describe(v)+", not the result of RefCount.Acquire(): the caller's Close would drop the cache's own reference")
					return
				}
				bad := ""
				for _, e := range evictions {
					if r, _ := ir.Reach(ir.Search{From: e}, ir.Is(acq)); r {
						bad = "the caller's reference is acquired at " + h.pos(acq) + " only after " + describeCallee(e.(ssa.CallInstruction).Common()) + " (" + h.pos(e) + "), which can close cached segments: when the segment just opened is the eviction victim it is returned closed and unmapped"
					}
				}
				h.Verdict(bad == "", rule, name, h.pos(in), "Acquire() precedes every step that can evict cached segments", bad)
			})
		}
	}
	if n == 0 {
		h.Anchor(rule, "methods of the ReadOnlySegmentsGroup implementation returning object.RefCount")
	}
}

// ruleR09l: truncation removes everything after the safe offset, including entries that
// were appended but are not synced yet. The synced offset (Wal.LastOffset(), the field
// behind it) lags the appended one, so a decision of TruncateLog taken on it ("nothing to
// truncate") leaves an unsynced tail in place: the next append at safe+1 is refused and the
// tail reappears with the next sync.
func ruleR09l(h *H) {
	const rule = "R09l"
	h.Rule(rule, "K4", "no branch condition of the Wal.TruncateLog implementation depends on the synced offset (the lastSyncedOffset field or Wal.LastOffset())", 1)
	wt := h.implType(rule, "server/wal", "Wal")
	if wt == nil {
		return
	}
	tn := wt.Obj().Name()
	n := 0
	for _, root := range h.P.ImplMethods("server/wal", "Wal", "TruncateLog") {
		for _, fn := range helperFuncs(root) {
			fn := fn
			h.Fn(ir.FuncName(fn))
			isSynced := func(v ssa.Value) bool {
				c, ok := v.(*ssa.Call)
				if !ok {
					return false
				}
				if _, isLoad := isAtomicCallOnField(c, "Load", "server/wal", tn, "lastSyncedOffset"); isLoad {
					return true
				}
				return h.P.Matches(c.Common(), walLastOffset)
			}
			ir.Instrs(fn, func(in ssa.Instruction) {
				iff, ok := in.(*ssa.If)
				if !ok {
					return
				}
				n++
				dep := ir.DependsOn(iff.Cond, isSynced)
				h.Verdict(!dep, rule, fmt.Sprintf("branch #%d of %s", n, ir.FuncName(root)), h.pos(in), "decided without the synced offset", "TruncateLog decides on the synced offset: an appended but unsynced tail survives the truncation (the next append at the safe offset + 1 is refused, and the tail reappears with the next sync)")
			})
		}
	}
	if n == 0 {
		h.Anchor(rule, "branches of the Wal.TruncateLog implementation")
	}
}

// ruleR09m: the group keeps an index of the segments on disk and a cache of opened ones.
// Reads consult the cache first. A segment that leaves the index (trimmed, polled for a
// truncation) must leave the cache on the same path, or a closed / deleted segment keeps
// being served for offsets that are later written again into another segment.
func ruleR09m(h *H) {
	const rule = "R09m"
	h.Rule(rule, "K1", "in the ReadOnlySegmentsGroup implementation every removal of a key from the index of segments is followed on every path by the removal of the same key from the cache of open segments, or by the not-found outcome of looking it up there", 2)
	n := 0
	for _, t := range h.P.Impls("server/wal", "ReadOnlySegmentsGroup") {
		st, ok := t.Underlying().(*types.Struct)
		if !ok {
			continue
		}
		index, cache := "", ""
		for i := 0; i < st.NumFields(); i++ {
			pt, isP := st.Field(i).Type().(*types.Pointer)
			if !isP {
				continue
			}
			nt, isN := types.Unalias(pt.Elem()).(*types.Named)
			if !isN || nt.TypeArgs() == nil || nt.TypeArgs().Len() != 2 {
				continue
			}
			switch v := nt.TypeArgs().At(1); {
			case v.String() == "bool":
				index = st.Field(i).Name()
			case strings.Contains(v.String(), "RefCount"):
				cache = st.Field(i).Name()
			}
		}
		if index == "" || cache == "" {
			h.Anchor(rule, "index and cache containers of "+t.Obj().Name())
			continue
		}
		tn := t.Obj().Name()
		on := func(v ssa.Value, field string) bool { return ir.LoadsField(v, "server/wal", tn, field) }
		callNamed := func(in ssa.Instruction, name string) *ssa.Call {
			c, ok := in.(*ssa.Call)
			if !ok || len(c.Call.Args) < 2 {
				return nil
			}
			f := c.Call.StaticCallee()
			if f == nil || !strings.HasPrefix(f.Name(), name) {
				return nil
			}
			return c
		}
		for _, fn := range h.P.Funcs {
			if fn.Parent() != nil || fn.Signature.Recv() == nil || !ir.TypeIs(fn.Signature.Recv().Type(), "server/wal", tn) {
				continue
			}
			fn := fn
			ir.Instrs(fn, func(in ssa.Instruction) {
				rm := callNamed(in, "Remove")
				if rm == nil || !on(rm.Call.Args[0], index) {
					return
				}
				n++
				h.Fn(ir.FuncName(fn))
				key := rm.Call.Args[1]
				blocked := map[ir.Edge]bool{}
				ir.Instrs(fn, func(x ssa.Instruction) {
					get := callNamed(x, "Get")
					if get == nil || !on(get.Call.Args[0], cache) || !ir.SameExpr(get.Call.Args[1], key) || get.Referrers() == nil {
						return
					}
					for _, r := range *get.Referrers() {
						ex, isEx := r.(*ssa.Extract)
						if !isEx || ex.Index != 1 || ex.Referrers() == nil {
							continue
						}
						for _, u := range *ex.Referrers() {
							if iff, isIf := u.(*ssa.If); isIf && len(iff.Block().Succs) == 2 {
								blocked[ir.Edge{From: iff.Block(), To: iff.Block().Succs[1]}] = true
							}
						}
					}
				})
				isCacheRemove := func(x ssa.Instruction) bool {
					c := callNamed(x, "Remove")
					return c != nil && on(c.Call.Args[0], cache) && ir.SameExpr(c.Call.Args[1], key)
				}
				bad := ""
				var w []int
				ir.Instrs(fn, func(x ssa.Instruction) {
					_, isRet := x.(*ssa.Return)
					if bad != "" || (!isRet && x != in) {
						return
					}
					if r, path := ir.Reach(ir.Search{From: in, Barrier: isCacheRemove, Blocked: blocked}, ir.Is(x)); r {
						bad = "a segment is removed from the index of segments and can stay in the cache of open segments " + witness(path) + ": reads look in the cache first, so a closed or deleted segment is served for offsets that are later written into another segment"
						w = path
					}
				})
				h.Verdict(bad == "", rule, fmt.Sprintf("segment leaving the index #%d in %s", n, ir.FuncName(fn)), h.pos(in), "it leaves the cache on the same path", bad, witness(w))
			})
		}
	}
	if n == 0 {
		h.Anchor(rule, "removals from the index of segments in the ReadOnlySegmentsGroup implementation")
	}
}
