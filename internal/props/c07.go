package props

import (
	"fmt"
	"go/token"
	"go/types"
	"strings"

	"golang.org/x/tools/go/ssa"

	"oxiaverif/internal/chk"
	"oxiaverif/internal/ir"
)

func init() { register("C07", checkC07) }

var (
	kvNewBatch     = ir.Callee{Pkg: "server/kv", Recv: "KV", Name: "NewWriteBatch"}
	batchPut       = ir.Callee{Pkg: "server/kv", Recv: "WriteBatch", Name: "Put"}
	batchDelete    = ir.Callee{Pkg: "server/kv", Recv: "WriteBatch", Name: "Delete"}
	batchDelRange  = ir.Callee{Pkg: "server/kv", Recv: "WriteBatch", Name: "DeleteRange"}
	readerReadNext = ir.Callee{Pkg: "server/wal", Recv: "Reader", Name: "ReadNext"}
	readerHasNext  = ir.Callee{Pkg: "server/wal", Recv: "Reader", Name: "HasNext"}
)

func checkC07(c *chk.Ctx) {
	h := newH(c)
	c.Decided = []string{
		"R07l a follower that discarded its database for a snapshot leaves the installer only with its log cleared",
		"R07k once an entry is committed the leader's continuation applies it on every path (no shortcut on a cancelled request context)",
		"R07a one indexed write batch per request: every mutation, the commit offset and the version counter go into the batch created by ProcessWrite, which is committed exactly once before success is reported",
		"R07b replay starts right after the commit offset stored in the DB (leader) / applied by the follower",
		"R07c the apply loops apply every entry they read, in reader order, and stop at the first failure; the forward reader advances by exactly one per successful read",
		"R07d apply sites pass the offset of the entry they apply (shared with C06)",
		"R07e queued commit continuations (which apply entries on the leader) are invoked under the tracker mutex, one at a time in queue order",
	}
	c.NotDec = []string{
		"crash points between file-system operations of Pebble and of the WAL (needs a crash-simulating file system)",
		"that the queue itself is in offset order (relies on the WAL completing appends in order)",
	}
	ruleR07a(h, "R07a")
	ruleR07b(h)
	ruleR07c(h)
	ruleSnapshotDiscardClearsLog(h, "R07l")
	ruleR06c(h, "R07d")
	ruleQueuedContinuationsUnderLock(h, "R07e")
	ruleReusedDecodeTargetReset(h, "R07f")
	ruleR06dInto(h, "R07g", false)
	h.Rule("R07h", "K3", "the follower's applied commit offset is only assigned from DB.ReadCommitOffset or from the offset of an entry it has just applied (shared with R06e)", 2)
	ruleAppliedOffsetProvenance(h, "R07h")
	ruleCommittedContinuationsSucceed(h, "R07i")
	ruleCommittedEntryAlwaysApplied(h, "R07k")
	ruleCommitCheckUnderLock(h, "R07j")
}

func ruleR07a(h *H, rule string) {
	h.Rule(rule, "K1+K3", "ProcessWrite creates exactly one (indexed) batch, passes it to everything that mutates, adds the commit offset and the version counter to it, commits it exactly once and reports success only after the commit; nothing reachable from it creates another batch", 7)
	for _, fn := range applyRoots(h, rule) {
		h.Fn(ir.FuncName(fn))
		name := ir.FuncName(fn)
		news := h.P.CallsIn(fn, kvNewBatch)
		commits := h.P.CallsIn(fn, batchCommit)
		h.Verdict(len(news) == 1, rule, name+": one batch", h.P.Pos(fn.Pos()), "exactly one KV.NewWriteBatch", fmt.Sprintf("%d batches are created while applying one request: effects are not atomic", len(news)))
		h.Verdict(len(commits) == 1, rule, name+": one commit", h.P.Pos(fn.Pos()), "exactly one WriteBatch.Commit", fmt.Sprintf("%d Commit calls in ProcessWrite", len(commits)))
		if len(news) != 1 || len(commits) != 1 {
			continue
		}
		batch := news[0].Value()
		commit := commits[0]
		h.Verdict(ir.Canon(commit.Common().Value) == batch, rule, name+": commit of the created batch", h.pos(commit), "Commit is called on the batch created here", "Commit is called on a different batch than the one handed to the apply functions")
		// every static call in ProcessWrite that reaches a batch mutation receives this batch
		n := 0
		ir.Instrs(fn, func(in ssa.Instruction) {
			ci, ok := in.(ssa.CallInstruction)
			if !ok || ci == news[0] || ci == commit {
				return
			}
			f := ci.Common().StaticCallee()
			if f == nil || !ir.InRepo(f) {
				return
			}
			reaches, _ := h.P.StaticReaches(f, h.P.MatchPred(batchPut, batchDelete, batchDelRange))
			if !reaches {
				// also through the update callbacks (interface calls): any call taking a WriteBatch parameter
				takes := false
				for i := 0; i < f.Signature.Params().Len(); i++ {
					if ir.TypeIs(f.Signature.Params().At(i).Type(), "server/kv", "WriteBatch") {
						takes = true
					}
				}
				if !takes {
					return
				}
			}
			n++
			gets := false
			for _, a := range ci.Common().Args {
				if ir.Canon(a) == batch {
					gets = true
				}
			}
			h.Verdict(gets, rule, fmt.Sprintf("%s: mutation step #%d (%s) uses the request's batch", name, n, f.Name()), h.pos(ci), "receives the batch created by ProcessWrite", "a mutating step does not receive the request's batch (it writes through something else)")
			if gets {
				// a step may be conditional (notifications disabled), but when it runs and fails
				// the batch must not be committed
				okStep, why := true, ""
				var path []int
				if ir.HasErrResult(ci) {
					if ev := ir.ErrResult(ci); ev == nil {
						okStep, why = false, "its error is discarded"
					} else if okOnly, pth := ir.OkOnly(fn, ev, ci, commit); !okOnly {
						okStep, why, path = false, "the Commit is reachable after the step failed", pth
					}
				}
				if r, _ := ir.Reach(ir.Search{From: commit}, ir.Is(ci)); r {
					okStep, why = false, "the step can run after the Commit"
				}
				// an extracted helper: the mutating steps inside it must make the helper fail
				if okStep && ir.SingleCallSite(f) == ci && f.Blocks != nil {
					if w2 := innerStepsFail(h, f, batch, 0); w2 != "" {
						okStep, why = false, w2
					}
				}
				h.Verdict(okStep, rule, fmt.Sprintf("%s: mutation step #%d (%s) before commit", name, n, f.Name()), h.pos(ci), "precedes the Commit, which is not reached when the step fails", "the batch can be committed although this step failed, or the step runs after the commit: "+why, witness(path))
			}
		})
		// commit offset and version counter are persisted in the batch
		var offParam *ssa.Parameter
		for _, p := range fn.Params {
			if p.Name() == "commitOffset" || (offParam == nil && p.Type().String() == "int64") {
				offParam = p
			}
		}
		persistsOffset, persistsCounter := false, false
		dbt := namedName(fn.Signature.Recv().Type())
		// scan ProcessWrite and, recursively, extracted helpers that receive the batch: a
		// step counts when its success is required for the commit (in a helper: for every
		// return of the helper that may report success)
		var scan func(f *ssa.Function, depth int)
		scan = func(f *ssa.Function, depth int) {
			requiredFor := func(ci ssa.CallInstruction) bool {
				if f == fn {
					sd, _, _ := ir.SuccessDominated(ci, commit)
					return sd
				}
				ok := true
				if res := f.Signature.Results(); res.Len() == 0 || !ir.IsError(res.At(res.Len()-1).Type()) {
					return false // the helper cannot report a failed step to ProcessWrite
				}
				ir.Instrs(f, func(in ssa.Instruction) {
					if ret, isRet := in.(*ssa.Return); isRet && len(ret.Results) > 0 && mayReturnNilError(ret) && ir.Canon(ir.ReturnValues(ret)[len(ret.Results)-1]) != ci.(ssa.Value) {
						if sd, _, _ := ir.SuccessDominated(ci, ret); !sd {
							ok = false
						}
					}
				})
				return ok
			}
			ir.Instrs(f, func(in ssa.Instruction) {
				ci, ok := in.(ssa.CallInstruction)
				if !ok || !h.P.CallStaticallyReaches(ci, h.P.MatchPred(batchPut)) {
					return
				}
				g := ci.Common().StaticCallee()
				if g == nil {
					return
				}
				hasBatch := false
				for _, a := range ci.Common().Args {
					if ir.CanonX(a) == batch {
						hasBatch = true
					}
				}
				if !hasBatch || !requiredFor(ci) {
					return
				}
				for _, a := range ci.Common().Args {
					ca := ir.CanonX(a)
					if offParam != nil && ca == ssa.Value(offParam) && g.Signature.Params().Len() <= 5 && !takesRequest(ci) {
						persistsOffset = true
					}
					if _, isLoad := isAtomicCallOnField(ir.Canon(a), "Load", "server/kv", dbt, "versionIdTracker"); isLoad {
						persistsCounter = true
					}
				}
				if depth < 3 && ir.SingleCallSite(g) == ci && g.Blocks != nil {
					scan(g, depth+1)
				}
			})
		}
		scan(fn, 0)
		h.Verdict(persistsOffset, rule, name+": commit offset in the batch", h.pos(commit), "the commit offset is put into the batch before the commit", "the commit offset is not written into the same batch as the effects (a crash between the two leaves them inconsistent: entries are applied twice or skipped on replay)")
		h.Verdict(persistsCounter, rule, name+": version counter in the batch", h.pos(commit), "the version counter is put into the batch before the commit", "the last version id is not written into the same batch as the effects")
		// success only after commit
		i := 0
		ir.Instrs(fn, func(in ssa.Instruction) {
			ret, ok := in.(*ssa.Return)
			if !ok || len(ret.Results) != 2 {
				return
			}
			if c, isC := ir.ReturnValues(ret)[1].(*ssa.Const); !isC || !c.IsNil() {
				return
			}
			i++
			sd, why, path := ir.SuccessDominated(commit, in)
			h.Verdict(sd, rule, fmt.Sprintf("%s: success return #%d after commit", name, i), h.pos(in), "success-dominated by Commit", "ProcessWrite reports success without a successful Commit: "+why, witness(path))
		})
	}
	// nothing reachable from apply opens another batch
	cl, fns := applyClosure(h, rule)
	roots := map[*ssa.Function]bool{}
	for _, r := range applyRoots(h, rule) {
		roots[r] = true
	}
	extra := 0
	for _, f := range fns {
		if roots[f] {
			continue
		}
		for _, c := range h.P.CallsIn(f, kvNewBatch) {
			extra++
			h.Bad(rule, "second batch in "+ir.FuncName(f), h.pos(c), "a function reachable from ProcessWrite creates its own write batch: "+ir.PathTo(cl, f))
		}
	}
	if extra == 0 {
		h.OK(rule, "no other batch in the apply closure", "", fmt.Sprintf("%d reachable functions inspected", len(fns)))
	}
	// engine level: inside the apply closure the storage engine's batch is only committed by the
	// WriteBatch.Commit implementation and only created by the KV.NewWriteBatch implementation
	commitImpl := map[*ssa.Function]bool{}
	for _, f := range h.P.ImplMethods("server/kv", "WriteBatch", "Commit") {
		commitImpl[f] = true
	}
	newImpl := map[*ssa.Function]bool{}
	for _, f := range h.P.ImplMethods("server/kv", "KV", "NewWriteBatch") {
		newImpl[f] = true
	}
	engine := 0
	for _, f := range fns {
		ir.Instrs(f, func(in ssa.Instruction) {
			c := ir.CallOf(in)
			if c == nil {
				return
			}
			sf := c.StaticCallee()
			if sf == nil || sf.Signature.Recv() == nil {
				return
			}
			pk := ""
			if o := sf.Object(); o != nil && o.Pkg() != nil {
				pk = o.Pkg().Path()
			}
			if !strings.HasPrefix(pk, "github.com/cockroachdb/pebble") {
				return
			}
			recvName := namedName(sf.Signature.Recv().Type())
			switch {
			case recvName == "Batch" && (sf.Name() == "Commit" || sf.Name() == "Apply") && !commitImpl[f]:
				engine++
				h.Bad(rule, "engine commit in "+ir.FuncName(f), h.pos(in), "the storage engine's batch is committed inside "+ir.FuncName(f)+", which runs while a request is being applied: the request's effects reach the DB in more than one atomic step (a crash in between leaves part of the entry applied with the old commit offset)")
			case recvName == "DB" && (sf.Name() == "NewBatch" || sf.Name() == "NewIndexedBatch") && !newImpl[f]:
				engine++
				h.Bad(rule, "engine batch created in "+ir.FuncName(f), h.pos(in), "a storage-engine batch is created inside "+ir.FuncName(f)+" while a request is being applied: its effects are not part of the request's atomic batch")
			case recvName == "DB" && (sf.Name() == "Set" || sf.Name() == "Delete" || sf.Name() == "DeleteRange" || sf.Name() == "Apply" || sf.Name() == "Merge" || sf.Name() == "SingleDelete"):
				engine++
				h.Bad(rule, "direct engine write in "+ir.FuncName(f), h.pos(in), "the storage engine is written directly ("+sf.Name()+") while a request is being applied, outside the request's atomic batch")
			}
		})
	}
	if engine == 0 {
		h.OK(rule, "engine batch lifecycle in the apply closure", "", "the engine batch is only created by KV.NewWriteBatch and only committed by WriteBatch.Commit")
	}
	// the batch is an indexed batch (reads inside the request see its own writes)
	for _, f := range h.P.ImplMethods("server/kv", "KV", "NewWriteBatch") {
		h.Fn(ir.FuncName(f))
		indexed := false
		ir.Instrs(f, func(in ssa.Instruction) {
			if c := ir.CallOf(in); c != nil {
				if sc := c.StaticCallee(); sc != nil && sc.Name() == "NewIndexedBatch" {
					indexed = true
				}
			}
		})
		h.Verdict(indexed, rule, "indexed batch in "+ir.FuncName(f), h.P.Pos(f.Pos()), "pebble NewIndexedBatch", "the write batch is not an indexed batch: operations of one request would not see each other's effects")
	}
}

func takesRequest(ci ssa.CallInstruction) bool {
	for _, a := range ci.Common().Args {
		if p, isP := ir.Canon(a).(*ssa.Parameter); isP && ir.TypeIs(p.Type(), "proto", "WriteRequest") {
			return true
		}
	}
	return false
}

func ruleR07b(h *H) {
	const rule = "R07b"
	h.Rule(rule, "K6", "replay readers: the leader opens the WAL reader at the commit offset just read from the DB; the follower at its applied commit offset", 2)
	lt := h.implType(rule, "server", "LeaderController")
	ft := h.implType(rule, "server", "FollowerController")
	if lt == nil || ft == nil {
		return
	}
	for _, s := range h.P.AllCalls(ir.InPkg("server"), walNewReader) {
		o := ir.Outermost(s.Fn)
		if o.Signature.Recv() == nil {
			continue
		}
		arg := argOf(s.Call.Common(), 0)
		switch {
		case ir.TypeIs(o.Signature.Recv().Type(), "server", lt.Obj().Name()):
			h.Fn(ir.FuncName(s.Fn))
			ok := false
			if ex, isEx := ir.Canon(arg).(*ssa.Extract); isEx {
				if c, isC := ex.Tuple.(*ssa.Call); isC && h.P.Matches(c.Common(), dbReadCommit) && c.Parent() == s.Fn {
					if sd, _, _ := ir.SuccessDominated(c, s.Call); sd {
						ok = true
					}
				}
			}
			h.Verdict(ok, rule, "leader replay reader in "+ir.FuncName(s.Fn), h.pos(s.Call), "Wal.NewReader(result of DB.ReadCommitOffset)", "the replay reader starts at "+ir.Describe(arg)+" instead of the commit offset read from the DB in the same function")
		case ir.TypeIs(o.Signature.Recv().Type(), "server", ft.Obj().Name()):
			h.Fn(ir.FuncName(s.Fn))
			ok := isAtomicLoadOfField(arg, "server", ft.Obj().Name(), "commitOffset")
			h.Verdict(ok, rule, "follower replay reader in "+ir.FuncName(s.Fn), h.pos(s.Call), "Wal.NewReader(applied commit offset)", "the follower's apply reader starts at "+ir.Describe(arg)+" instead of its applied commit offset")
		}
	}
}

func ruleR07c(h *H) {
	h.Rule("R07c", "K1", "apply loops: between reading an entry and asking the reader for the next one, the entry is applied (or the loop is left); a failed apply leaves the loop; the forward reader's position advances by one only after a successful read", 4)
	ruleR07cInto(h, "R07c")
}

func ruleR07cInto(h *H, rule string) {
	n := 0
	for _, fn := range h.P.Funcs {
		if ir.RelPkg(ir.PkgPathOf(fn)) != "server" {
			continue
		}
		reads := h.P.CallsIn(fn, readerReadNext)
		if len(reads) == 0 {
			continue
		}
		var applies []ssa.CallInstruction
		ir.Instrs(fn, func(in ssa.Instruction) {
			if ci, ok := in.(ssa.CallInstruction); ok && h.P.CallStaticallyReaches(ci, h.P.MatchPred(dbProcessWrite)) {
				applies = append(applies, ci)
			}
		})
		if len(applies) == 0 {
			continue
		}
		n++
		h.Fn(ir.FuncName(fn))
		applySet := ir.AnyOf(toInstrs(applies)...)
		// an inner loop over the requests of one entry (header between the read and the
		// apply): passing its header counts as applying all (possibly zero) requests
		innerHeader := map[*ssa.BasicBlock]bool{}
		for _, r := range reads {
			for _, a := range applies {
				for _, b := range fn.Blocks {
					if b == r.Block() || !r.Block().Dominates(b) || !(b == a.Block() || b.Dominates(a.Block())) {
						continue
					}
					for _, p := range b.Preds {
						if b.Dominates(p) {
							innerHeader[b] = true
						}
					}
				}
			}
		}
		isApply := func(in ssa.Instruction) bool { return applySet(in) || innerHeader[in.Block()] }
		hasNext := h.P.CallsIn(fn, readerHasNext)
		for _, r := range reads {
			// (a) no path read -> next HasNext/ReadNext without applying
			bad := false
			for _, t := range append(toInstrs(hasNext), toInstrs(reads)...) {
				if reach, path := ir.Reach(ir.Search{From: r, Barrier: isApply}, ir.Is(t)); reach {
					bad = true
					h.Bad(rule, "apply loop of "+ir.FuncName(fn)+": every read entry is applied", h.pos(r), "an entry can be read and skipped: the loop goes on to the next entry without applying this one", witness(path))
					break
				}
			}
			if !bad {
				h.OK(rule, "apply loop of "+ir.FuncName(fn)+": every read entry is applied", h.pos(r), "no path from ReadNext to the next iteration avoids the apply call")
			}
			// the read error is handled: a failed read never reaches the apply
			if ev := ir.ErrResult(r); ev != nil {
				okr := true
				for _, a := range applies {
					if ok, _ := ir.OkOnly(fn, ev, r, a); !ok {
						okr = false
					}
				}
				h.Verdict(okr, rule, "apply loop of "+ir.FuncName(fn)+": failed read not applied", h.pos(r), "apply only after a successful read", "the apply call is reachable after a failed ReadNext")
			}
		}
		// (b) failed apply leaves the loop
		for i, a := range applies {
			ev := ir.ErrResult(a)
			name := fmt.Sprintf("apply loop of %s: failed apply #%d stops the loop", ir.FuncName(fn), i+1)
			if ev == nil {
				h.Bad(rule, name, h.pos(a), "the result of the apply call is ignored: the loop continues after a failed entry (entries after it are applied on top of a missing one)")
				continue
			}
			bad := false
			for _, t := range ir.NilTests(ev) {
				for _, nx := range append(toInstrs(hasNext), toInstrs(reads)...) {
					if reach, path := ir.Reach(ir.Search{FromBlock: t.NonNil, Barrier: ir.Is(a)}, ir.Is(nx)); reach {
						bad = true
						h.Bad(rule, name, h.pos(a), "after a failed apply the loop reads the next entry", witness(path))
					}
				}
			}
			if len(ir.NilTests(ev)) == 0 {
				bad = true
				h.Bad(rule, name, h.pos(a), "the error of the apply call is never tested")
			}
			if !bad {
				h.OK(rule, name, h.pos(a), "the error branch leaves the loop")
			}
		}
	}
	if n < 2 {
		h.Anchor(rule, fmt.Sprintf("apply loops (functions with Reader.ReadNext and a call reaching ProcessWrite): found %d, expected leader and follower", n))
	}
	// forward reader: nextOffset += 1 only after a successful read
	for _, fn := range h.P.ImplMethods("server/wal", "Reader", "ReadNext") {
		rt := namedName(fn.Signature.Recv().Type())
		h.Fn(ir.FuncName(fn))
		var posStores []ir.FieldWrite
		ir.Instrs(fn, func(in ssa.Instruction) {
			if st, ok := in.(*ssa.Store); ok {
				if ref, ok := ir.FieldAddrOf(st.Addr); ok && ref.Field == "nextOffset" {
					posStores = append(posStores, ir.FieldWrite{Fn: fn, Instr: st, Kind: "store", Val: st.Val})
				}
			}
		})
		for i, w := range posStores {
			name := fmt.Sprintf("%s.ReadNext: position update #%d", rt, i+1)
			bo, ok := ir.Canon(w.Val).(*ssa.BinOp)
			stepOK := ok && (bo.Op == token.ADD || bo.Op == token.SUB) && isOne(bo.Y) && loadsFieldNamed(bo.X, "nextOffset")
			if !stepOK {
				h.Bad(rule, name, h.pos(w.Instr), "the reader position is not moved by exactly one: "+ir.Describe(w.Val))
				continue
			}
			good := false
			why := "no read precedes the update"
			ir.Instrs(fn, func(in ssa.Instruction) {
				if c, isCall := in.(*ssa.Call); isCall && ir.HasErrResult(c) && c.Common().StaticCallee() != nil && c.Common().StaticCallee().Name() == "readAtIndex" {
					if sd, w2, _ := ir.SuccessDominated(c, w.Instr); sd {
						good = true
					} else {
						why = w2
					}
				}
			})
			h.Verdict(good, rule, name, h.pos(w.Instr), "moves by one after a successful read", "the position advances although the read failed: "+why)
		}
	}
}

func isOne(v ssa.Value) bool {
	c, ok := v.(*ssa.Const)
	return ok && c.Value != nil && c.Int64() == 1
}

func toInstrs(cs []ssa.CallInstruction) []ssa.Instruction {
	var out []ssa.Instruction
	for _, c := range cs {
		out = append(out, c)
	}
	return out
}

// ruleQueuedContinuationsUnderLock: the commit continuations queued in the ack tracker
// (they apply the entries on the leader) run while the tracker mutex is held, so they
// run one at a time, in queue order.
func ruleQueuedContinuationsUnderLock(h *H, rule string) {
	h.Rule(rule, "K2", "every invocation of a queued commit continuation (waiting request callback) of the quorum ack tracker that reports success happens with the tracker mutex held (callers' locks included)", 1)
	qt := h.implType(rule, "server", "QuorumAckTracker")
	if qt == nil {
		return
	}
	tn := qt.Obj().Name()
	lockName := ""
	if st, ok := qt.Underlying().(*types.Struct); ok {
		for i := 0; i < st.NumFields(); i++ {
			ft := st.Field(i).Type().String()
			if ft == "sync.Mutex" || ft == "sync.RWMutex" {
				lockName = tn + "." + st.Field(i).Name()
			}
		}
	}
	if lockName == "" {
		h.Anchor(rule, "mutex field of "+tn)
		return
	}
	n := 0
	for _, fn := range h.P.Funcs {
		if ir.RelPkg(ir.PkgPathOf(fn)) != "server" {
			continue
		}
		var held map[ssa.Instruction]map[string]bool
		ir.Instrs(fn, func(in ssa.Instruction) {
			c := ir.CallOf(in)
			if c == nil || !c.IsInvoke() || c.Method.Name() != "OnComplete" || !ir.TypeIs(c.Value.Type(), "common/concurrent", "Callback") {
				return
			}
			// the callback value comes out of a waiting-request record (field load), not a parameter
			r, ok := ir.FieldLoadOf(ir.Canon(c.Value))
			if !ok || r.Struct == nil || ir.RelPkg(r.Struct.Obj().Pkg().Path()) != "server" {
				return
			}
			// ... of the tracker's queue: the record type is the element of a slice field of the tracker
			queued := false
			if st, isSt := qt.Underlying().(*types.Struct); isSt {
				for i := 0; i < st.NumFields(); i++ {
					if sl, isSl := st.Field(i).Type().Underlying().(*types.Slice); isSl && types.Identical(types.Unalias(sl.Elem()), r.Struct) {
						queued = true
					}
				}
			}
			if !queued {
				return
			}
			n++
			h.Fn(ir.FuncName(fn))
			if held == nil {
				held = ir.HeldAtFrom(fn, h.P.EntryHeld(fn, 0))
			}
			ok2 := held[in][lockName]
			h.Verdict(ok2, rule, fmt.Sprintf("queued continuation invoked in %s", ir.FuncName(fn)), h.pos(in), "tracker mutex held: "+ir.HeldString(held[in]),
				"a queued commit continuation is completed without holding the tracker mutex ("+ir.HeldString(held[in])+"): two acks can run the continuations of consecutive offsets concurrently, so entries are applied to the DB out of order and the stored commit offset can end below an applied entry")
		})
	}
	if n == 0 {
		h.Anchor(rule, "invocation of a queued waiting-request callback in the ack tracker")
	}
}

func loadsFieldNamed(v ssa.Value, field string) bool {
	r, ok := ir.FieldLoadOf(ir.Canon(v))
	return ok && r.Field == field
}

// innerStepsFail: inside an extracted helper of ProcessWrite every step that writes into
// the request's batch and can fail must make the helper return an error (so that the
// caller, which is checked to stop before Commit when the helper fails, never commits a
// partially built batch). Returns "" when that holds.
func innerStepsFail(h *H, g *ssa.Function, batch ssa.Value, depth int) string {
	res := g.Signature.Results()
	reports := res.Len() > 0 && ir.IsError(res.At(res.Len()-1).Type())
	bad := ""
	ir.Instrs(g, func(in ssa.Instruction) {
		ci, ok := in.(ssa.CallInstruction)
		if !ok || bad != "" {
			return
		}
		callee := ci.Common().StaticCallee()
		if callee == nil || !ir.InRepo(callee) {
			return
		}
		gets := false
		for _, a := range ci.Common().Args {
			if ir.CanonX(a) == batch {
				gets = true
			}
		}
		if !gets || !ir.HasErrResult(ci) {
			return
		}
		if reaches, _ := h.P.StaticReaches(callee, h.P.MatchPred(batchPut, batchDelete, batchDelRange)); !reaches {
			return
		}
		ev := ir.ErrResult(ci)
		switch {
		case ev == nil:
			bad = "inside " + ir.FuncName(g) + " the error of " + ir.FuncName(callee) + " is discarded"
		case !reports:
			bad = ir.FuncName(g) + " cannot report the failure of " + ir.FuncName(callee) + " to ProcessWrite"
		default:
			ir.Instrs(g, func(x ssa.Instruction) {
				ret, isRet := x.(*ssa.Return)
				if !isRet || bad != "" || len(ret.Results) == 0 || !mayReturnNilError(ret) {
					return
				}
				if last := ir.Canon(ir.ReturnValues(ret)[len(ret.Results)-1]); last == ci.(ssa.Value) || last == ir.Canon(ev) {
					return // returns the step's own error
				}
				if r, _ := ir.Reach(ir.Search{From: ci}, ir.Is(ret)); !r {
					return // this return cannot follow the step
				}
				if okOnly, _ := ir.OkOnly(g, ev, ci, ret); !okOnly {
					bad = "inside " + ir.FuncName(g) + " a success return is reachable after " + ir.FuncName(callee) + " failed"
				}
			})
		}
		if bad == "" && depth < 2 && ir.SingleCallSite(callee) == ci {
			bad = innerStepsFail(h, callee, batch, depth+1)
		}
	})
	return bad
}
