package props

import (
	"fmt"
	"go/token"
	"go/types"
	"strings"

	"golang.org/x/tools/go/ssa"

	"oxiaverif/internal/ir"
)

// Rules added after the sixth round of seeded changes. Each one is attached to the
// property whose behaviour the seeded change broke; the rule text says which structural
// necessary condition is decided.

var rpcBecomeLeader = ir.Callee{Pkg: "coordinator/rpc", Recv: "Provider", Name: "BecomeLeader"}

// ruleOneBecomeLeaderPerTerm (R05k): a term has at most one leader only if the coordinator
// asks at most one node to lead it. A BecomeLeader whose answer was lost may well have
// been executed, so a second request — to another node — needs a new term first.
func ruleOneBecomeLeaderPerTerm(h *H, rule string) {
	h.Rule(rule, "K1", "in the election function, no path leads from one BecomeLeader request to another one (for a different node) without passing the increment of ShardMetadata.Term", 1)
	var inc *ir.FieldWrite
	ws := h.P.FieldWrites("coordinator/model", "ShardMetadata", "Term")
	for i, w := range ws {
		if w.Val == nil {
			continue
		}
		if bo, ok := ir.Canon(w.Val).(*ssa.BinOp); ok && bo.Op == token.ADD {
			inc = &ws[i]
			break
		}
	}
	if inc == nil {
		h.Anchor(rule, "the increment of ShardMetadata.Term")
		return
	}
	cur, at := inc.Fn, ssa.Instruction(inc.Instr)
	for level := 0; level < 5; level++ {
		var sends []ssa.CallInstruction
		ir.Instrs(cur, func(in ssa.Instruction) {
			if ci, ok := in.(ssa.CallInstruction); ok && in != at && h.P.CallStaticallyReaches(ci, h.P.MatchPred(rpcBecomeLeader)) {
				if _, isGo := in.(*ssa.Go); !isGo {
					sends = append(sends, ci)
				}
			}
		})
		if len(sends) > 0 {
			h.Fn(ir.FuncName(cur))
			bad := false
			for _, a := range sends {
				for _, b := range sends {
					if a != b && len(a.Common().Args) > 0 && len(b.Common().Args) > 0 {
						// the same node asked again is a retry, not a second leader
						la, lb := leaderArg(a), leaderArg(b)
						if la != nil && lb != nil && ir.SameExpr(la, lb) {
							continue
						}
					}
					if r, path := ir.Reach(ir.Search{From: a, Barrier: ir.Is(at)}, ir.Is(b)); r {
						bad = true
						h.Bad(rule, "BecomeLeader requests of one term in "+ir.FuncName(cur), h.pos(b), "after the BecomeLeader request at "+h.pos(a)+" this one can be sent in the same term (no increment of the term on the path): two nodes can be told to lead one term, since a failed request may have been executed", witness(path))
					}
				}
			}
			if !bad {
				h.OK(rule, "BecomeLeader requests of one term in "+ir.FuncName(cur), h.pos(sends[0]), fmt.Sprintf("%d request site(s), each separated from the next by the term increment", len(sends)))
			}
			return
		}
		if run := closureRunsAt(cur); run != nil {
			cur, at = run.Parent(), run
			continue
		}
		site := ir.SingleCallSite(cur)
		if site == nil {
			break
		}
		cur, at = site.Parent(), site
	}
	h.Unknown(rule, "BecomeLeader requests of one term", h.pos(inc.Instr), "the function incrementing the term (and its only callers) do not statically reach the BecomeLeader RPC")
}

func leaderArg(c ssa.CallInstruction) ssa.Value {
	for _, a := range c.Common().Args {
		if strings.HasSuffix(a.Type().String(), "model.Server") {
			return ir.Canon(a)
		}
	}
	return nil
}

// ruleNoZeroCopyDecodeApplied (R06j): the storage entries are pooled and keep the buffers
// of the values they decoded; a request decoded without copying aliases the log entry's
// buffer, so applying it lets the pooled entry overwrite operations not yet applied.
func ruleNoZeroCopyDecodeApplied(h *H, rule string) {
	h.Rule(rule, "K3", "no function that decodes a message with the zero-copy decoder (UnmarshalVTUnsafe) reaches DB.ProcessWrite; the offline tools are the only users", 1)
	n := 0
	for _, fn := range h.P.Funcs {
		if !ir.InRepo(fn) || fn.Blocks == nil {
			continue
		}
		ir.Instrs(fn, func(in ssa.Instruction) {
			c := ir.CallOf(in)
			if c == nil {
				return
			}
			f := c.StaticCallee()
			if f == nil || f.Name() != "UnmarshalVTUnsafe" {
				return
			}
			if strings.HasSuffix(ir.PkgPathOf(fn), "/proto") {
				return // generated code calling itself
			}
			n++
			root := regionRoot(fn)
			reaches, via := h.P.StaticReaches(root, h.P.MatchPred(dbProcessWrite))
			name := "zero-copy decode in " + ir.FuncName(fn)
			if reaches {
				h.Bad(rule, name, h.pos(in), "the decoded message aliases the input buffer and "+ir.FuncName(root)+" applies it to the database (via "+ir.FuncName(via)+"): the pooled storage entry reuses the value buffer of a put for the next record it decodes, overwriting the operations of the request that are still to be applied")
			} else {
				h.OK(rule, name, h.pos(in), "not on a path to DB.ProcessWrite")
			}
		})
	}
	if n == 0 {
		h.Note("no UnmarshalVTUnsafe call outside generated code")
	}
}

// ruleSnapshotDiscardClearsLog (R07l): once the follower has discarded its database to
// install a snapshot, every way out of the installer has cleared the log too; otherwise a
// failed transfer leaves an old log next to an empty database and the entries below the
// stale applied offset are never applied.
func ruleSnapshotDiscardClearsLog(h *H, rule string) {
	h.Rule(rule, "K1", "in the follower's snapshot installer no path runs from the entry through KVFactory.NewSnapshotLoader (which removes the database) to an exit without Wal.Clear", 1)
	loaderSpec := ir.Callee{Pkg: "server/kv", Recv: "Factory", Name: "NewSnapshotLoader"}
	n := 0
	for _, s := range h.P.AllCalls(ir.InPkg("server"), loaderSpec) {
		fn := s.Fn
		if fn.Blocks == nil {
			continue
		}
		n++
		h.Fn(ir.FuncName(fn))
		isClear := func(in ssa.Instruction) bool {
			c := ir.CallOf(in)
			return c != nil && h.P.Matches(c, walClear)
		}
		name := "database discarded in " + ir.FuncName(fn)
		before, p1 := ir.Reach(ir.Search{Fn: fn, Barrier: isClear}, ir.Is(s.Call))
		after, p2 := ir.Reach(ir.Search{From: s.Call, Barrier: isClear}, ir.IsExit)
		if before && after {
			h.Bad(rule, name, h.pos(s.Call), "the database is removed while the log is still there, and the function can be left without clearing the log: after a failed transfer the node reports its old head, is served from the log, and applies it from its stale offset onto an empty database", witness(append(p1, p2...)))
		} else {
			h.OK(rule, name, h.pos(s.Call), "the log is cleared on every path that discards the database")
		}
	}
	if n == 0 {
		h.Anchor(rule, "a call of KVFactory.NewSnapshotLoader in package server")
	}
}

// ruleAckTableWriters (R08l): an offset can be committed by follower acks only when it
// has an entry in the ack table, and the entry stands for the leader's own durable copy.
func ruleAckTableWriters(h *H, rule string) {
	h.Rule(rule, "K3", "entries of the tracker's ack table (offset → set of acking followers) are created only by the constructor and by the function that advances the head offset (the leader's own copy is durable); recording an ack never creates one", 2)
	qt := h.implType(rule, "server", "QuorumAckTracker")
	if qt == nil {
		return
	}
	tn := qt.Obj().Name()
	allowed := map[*ssa.Function]string{}
	for _, w := range h.P.FieldWrites("server", tn, "headOffset") {
		allowed[ir.Outermost(w.Fn)] = "stores the head offset"
	}
	if len(allowed) == 0 {
		h.Anchor(rule, "the writers of "+tn+".headOffset")
		return
	}
	var permitted func(fn *ssa.Function, depth int) (bool, string)
	permitted = func(fn *ssa.Function, depth int) (bool, string) {
		fn = ir.Outermost(fn)
		if why, ok := allowed[fn]; ok {
			return true, why
		}
		if depth > 3 {
			return false, ""
		}
		sites := ir.StaticCallSites(fn)
		if len(sites) == 0 {
			return false, ""
		}
		for _, s := range sites {
			if ok, _ := permitted(s.Parent(), depth+1); !ok {
				return false, ""
			}
		}
		return true, "helper only called from functions that store the head offset"
	}
	n := 0
	for _, fn := range h.P.Funcs {
		if ir.RelPkg(ir.PkgPathOf(fn)) != "server" || fn.Blocks == nil {
			continue
		}
		ir.Instrs(fn, func(in ssa.Instruction) {
			mu, ok := in.(*ssa.MapUpdate)
			if !ok {
				return
			}
			mt, ok := mu.Map.Type().Underlying().(*types.Map)
			if !ok || !isInt64Type(mt.Key()) || !strings.HasSuffix(mt.Elem().String(), "BitSet") {
				return
			}
			ref, ok := ir.FieldLoadOf(ir.Canon(mu.Map))
			if !ok || ref.Struct == nil || ref.Struct.Obj().Pkg() == nil || ir.RelPkg(ref.Struct.Obj().Pkg().Path()) != "server" {
				return
			}
			n++
			h.Fn(ir.FuncName(fn))
			ok2, why := permitted(fn, 0)
			h.Verdict(ok2, rule, "ack table entry created in "+ir.FuncName(ir.Outermost(fn)), h.pos(in), why,
				"an ack table entry is created outside the constructor / head advance: follower acks alone can then reach the quorum for an offset whose copy on the leader is not durable yet, and the commit offset passes the head offset")
		})
	}
	if n == 0 {
		h.Anchor(rule, "stores into the ack table (map from offset to bit set) of "+tn)
	}
}

// ruleRecoveredFirstOffset (R09n): after recovery the log is declared empty (first offset
// invalid) only when it consists of a single segment; with older segments present the
// first offset is the base of the oldest one, whatever the newest one holds.
func ruleRecoveredFirstOffset(h *H, rule string) {
	h.Rule(rule, "K5", "in the WAL recovery every store of InvalidOffset into the first offset is guarded by the comparison that the oldest and the newest listed segment are the same (or by the number of segments)", 1)
	wt := h.implType(rule, "server/wal", "Wal")
	if wt == nil {
		return
	}
	tn := wt.Obj().Name()
	n := 0
	for _, w := range h.P.FieldWrites("server/wal", tn, "firstOffset") {
		fn := w.Fn
		if w.Val == nil || !isInvalidOffset(w.Val) {
			continue
		}
		// the recovery function: it consumes a list of segment ids
		var list ssa.Value
		ir.Instrs(fn, func(in ssa.Instruction) {
			if c, ok := in.(*ssa.Call); ok {
				res := c.Call.Signature().Results()
				for i := 0; i < res.Len(); i++ {
					if sl, ok := res.At(i).Type().Underlying().(*types.Slice); ok && isInt64Type(sl.Elem()) {
						list = c
					}
				}
			}
		})
		if list == nil {
			continue
		}
		n++
		h.Fn(ir.FuncName(fn))
		isList := func(y ssa.Value) bool {
			return ir.DependsOn(y, func(z ssa.Value) bool { return z == list })
		}
		// what an extracted helper computed from the list (`bounds := segmentBounds(segments)`)
		fromCallWithList := func(v ssa.Value) bool {
			c := ir.Canon(v)
			if ex, ok := c.(*ssa.Extract); ok {
				c = ex.Tuple
			}
			call, ok := c.(*ssa.Call)
			if !ok {
				return false
			}
			if f := call.Call.StaticCallee(); f == nil || !ir.InRepo(f) {
				return false
			}
			for _, a := range call.Call.Args {
				if isList(a) {
					return true
				}
			}
			return false
		}
		var fromListD func(v ssa.Value, d int) bool
		fromListD = func(v ssa.Value, d int) bool {
			if d > 6 {
				return false
			}
			switch x := ir.Canon(v).(type) {
			case *ssa.UnOp:
				if ia, ok := x.X.(*ssa.IndexAddr); ok && x.Op == token.MUL {
					return isList(ia.X)
				}
				// a field of a local struct that was filled by a helper from the list
				if fa, ok := x.X.(*ssa.FieldAddr); ok && x.Op == token.MUL {
					if al, ok := fa.X.(*ssa.Alloc); ok {
						sts := ir.AllStores(al)
						for _, st := range sts {
							if !fromCallWithList(st.Val) {
								return false
							}
						}
						return len(sts) > 0
					}
				}
			case *ssa.Call:
				if b, ok := x.Call.Value.(*ssa.Builtin); ok && b.Name() == "len" {
					return isList(x.Call.Args[0])
				}
			case *ssa.Phi:
				any := false
				for _, e := range x.Edges {
					if _, isK := e.(*ssa.Const); isK {
						continue
					}
					if !fromListD(e, d+1) {
						return false
					}
					any = true
				}
				return any
			case *ssa.BinOp:
				_, lk := x.X.(*ssa.Const)
				_, rk := x.Y.(*ssa.Const)
				return (rk && fromListD(x.X, d+1)) || (lk && fromListD(x.Y, d+1))
			case *ssa.Convert:
				return fromListD(x.X, d+1)
			case *ssa.Field:
				return fromCallWithList(x.X)
			case *ssa.Extract:
				return fromCallWithList(x)
			}
			return false
		}
		fromList := func(v ssa.Value) bool {
			if b, ok := v.Type().Underlying().(*types.Basic); !ok || b.Info()&types.IsInteger == 0 {
				return false
			}
			return fromListD(v, 0)
		}
		ok := false
		for _, c := range ir.CmpGuards(w.Instr) {
			if c.L == c.R {
				continue
			}
			_, lk := c.L.(*ssa.Const)
			_, rk := c.R.(*ssa.Const)
			switch {
			case c.Op == token.EQL && fromList(c.L) && fromList(c.R):
				ok = true
			case (lk && fromList(c.R)) || (rk && fromList(c.L)):
				if c.Op != token.NEQ {
					ok = true // a bound on the number of segments / on a listed id
				}
			}
		}
		if !ok {
			// the comparison behind a predicate over values taken from the list (`span.single()`)
			for _, g := range ir.Guards(w.Instr) {
				cond := g.Cond
				for {
					u, isU := cond.(*ssa.UnOp)
					if !isU || u.Op != token.NOT {
						break
					}
					cond = u.X
				}
				call, isCall := cond.(*ssa.Call)
				if !isCall {
					continue
				}
				f := call.Call.StaticCallee()
				if f == nil || !ir.InRepo(f) || !isPureBoolHelper(f) {
					continue
				}
				isElem := func(x ssa.Value) bool {
					u, isU := x.(*ssa.UnOp)
					if !isU || u.Op != token.MUL {
						return false
					}
					ia, isIA := u.X.(*ssa.IndexAddr)
					return isIA && isList(ia.X)
				}
				for _, a := range call.Call.Args {
					if ir.DependsOn(a, isElem) {
						ok = true
					}
					// a local struct handed over by value: look at what was stored into its fields
					if u, isU := a.(*ssa.UnOp); isU && u.Op == token.MUL {
						if al, isAl := u.X.(*ssa.Alloc); isAl && al.Referrers() != nil {
							for _, r := range *al.Referrers() {
								fa, isFA := r.(*ssa.FieldAddr)
								if !isFA || fa.Referrers() == nil {
									continue
								}
								for _, rr := range *fa.Referrers() {
									if st, isSt := rr.(*ssa.Store); isSt && st.Addr == ssa.Value(fa) && ir.DependsOn(st.Val, isElem) {
										ok = true
									}
								}
							}
						}
					}
				}
			}
		}
		h.Verdict(ok, rule, "first offset declared invalid in "+ir.FuncName(fn), h.pos(w.Instr), "only when the oldest and the newest segment coincide",
			"recovery can declare the log empty while older segments hold entries (the newest segment being empty after a roll-over): FirstOffset() is -1 on a non-empty log and the next append moves it past every older entry, which readers are then refused")
	}
	if n == 0 {
		h.Anchor(rule, "a store of InvalidOffset to "+tn+".firstOffset in a function that lists the segments")
	}
}

// ruleProviderCommitOffsetReachesRecovery (R10k): recovery discards a damaged record only
// when it is given a commit offset to compare with; "nothing committed yet" (-1) is a
// commit offset, the absence of a provider is not.
func ruleProviderCommitOffsetReachesRecovery(h *H, rule string) {
	h.Rule(rule, "K5", "the commit offset handed to Codec.RecoverIndex by the function that opens a read-write segment is nil only on paths where the CommitOffsetProvider itself is nil", 1)
	recoverSpec := ir.Callee{Pkg: "server/wal/codec", Recv: "Codec", Name: "RecoverIndex"}
	n := 0
	for _, s := range h.P.AllCalls(ir.InPkg("server/wal"), recoverSpec) {
		fn := s.Fn
		args := s.Call.Common().Args
		if len(args) < 4 {
			continue
		}
		hasProvider := false
		for _, p := range fn.Params {
			if ir.TypeIs(p.Type(), "server/wal", "CommitOffsetProvider") {
				hasProvider = true
			}
		}
		if !hasProvider {
			continue
		}
		n++
		h.Fn(ir.FuncName(fn))
		arg := args[3]
		isProviderNil := func(c ir.Cmp) bool {
			for _, x := range []ir.Cmp{c, c.Flip()} {
				if x.Op == token.EQL && ir.TypeIs(x.L.Type(), "server/wal", "CommitOffsetProvider") {
					if k, ok := x.R.(*ssa.Const); ok && k.IsNil() {
						return true
					}
				}
			}
			return false
		}
		edgeCmps := ir.EdgeCmps(fn)
		guarded := func(from, to *ssa.BasicBlock) bool {
			if c, ok := edgeCmps[ir.Edge{From: from, To: to}]; ok && isProviderNil(c) {
				return true
			}
			for _, g := range ir.BlockGuards(from) {
				if c, ok := g.AsCmp(); ok && isProviderNil(c) {
					return true
				}
			}
			return false
		}
		bad := ""
		seen := map[ssa.Value]bool{}
		var walk func(v ssa.Value, to *ssa.BasicBlock, from *ssa.BasicBlock)
		walk = func(v ssa.Value, to, from *ssa.BasicBlock) {
			if seen[v] && from == nil {
				return
			}
			switch x := v.(type) {
			case *ssa.Phi:
				if seen[x] {
					return
				}
				seen[x] = true
				for i, e := range x.Edges {
					walk(e, x.Block(), x.Block().Preds[i])
				}
			case *ssa.Const:
				if x.IsNil() {
					if from == nil {
						// nil passed unconditionally: fine only under the guard at the call
						for _, c := range ir.CmpGuards(s.Call) {
							if isProviderNil(c) {
								return
							}
						}
						bad = "nil is passed as commit offset although a provider may be present"
						return
					}
					if !guarded(from, to) {
						bad = fmt.Sprintf("on the edge b%d→b%d the commit offset stays nil although the provider is not nil", from.Index, to.Index)
					}
				}
			}
		}
		walk(arg, nil, nil)
		h.Verdict(bad == "", rule, "commit offset for recovery in "+ir.FuncName(fn), h.pos(s.Call), "nil only without a provider",
			bad+": with a provider whose commit offset is -1 (nothing committed yet) recovery then treats every damaged record as committed data and refuses to open the log instead of discarding the torn tail")
	}
	if n == 0 {
		h.Anchor(rule, "a Codec.RecoverIndex call in a function of server/wal that takes a CommitOffsetProvider")
	}
}

// ruleNoLoopCarriedAlias (R14h): the recovered sessions must not share one metadata
// object. A variable declared outside a loop, overwritten in every iteration and whose
// address is stored into a collection in the loop makes all stored elements alias the
// value of the last iteration.
func ruleNoLoopCarriedAlias(h *H, rule string) {
	h.Rule(rule, "K3", "in the session manager no loop stores the address of a variable that lives outside the loop and is rewritten in each iteration (every recovered session keeps its own metadata)", 1)
	st := h.implType(rule, "server", "SessionManager")
	if st == nil {
		return
	}
	nfn, nstores := 0, 0
	for _, fn := range h.P.Funcs {
		if ir.RelPkg(ir.PkgPathOf(fn)) != "server" || fn.Blocks == nil {
			continue
		}
		out := ir.Outermost(fn)
		if out.Signature.Recv() == nil {
			continue
		}
		rn := namedOfType(out.Signature.Recv().Type())
		if rn == nil || (rn.Obj().Name() != st.Obj().Name() && rn.Obj().Name() != "session") {
			continue
		}
		nfn++
		ir.Instrs(fn, func(in ssa.Instruction) {
			var stored ssa.Value
			switch x := in.(type) {
			case *ssa.MapUpdate:
				stored = x.Value
			case *ssa.Store:
				switch x.Addr.(type) {
				case *ssa.IndexAddr, *ssa.FieldAddr:
					stored = x.Val
				}
			}
			if stored == nil {
				return
			}
			al, ok := stored.(*ssa.Alloc)
			if !ok {
				return
			}
			hd := ir.EnclosingLoopHeader(in.Block())
			if hd == nil {
				return
			}
			nstores++
			for hd != nil {
				blocks := ir.LoopBlocks(hd)
				if !blocks[al.Block()] && rewrittenIn(al, blocks) {
					h.Bad(rule, "address stored in a loop in "+ir.FuncName(fn), h.pos(in), "the address of "+al.Comment+" (declared outside the loop, rewritten in every iteration) is stored for each element: all recovered sessions share the metadata of the last one — its timeout and client identity")
					return
				}
				// next outer loop
				var outer *ssa.BasicBlock
				if d := hd.Idom(); d != nil {
					outer = ir.EnclosingLoopHeader(d)
				}
				if outer == hd {
					break
				}
				hd = outer
			}
		})
	}
	if nfn == 0 {
		h.Anchor(rule, "methods of the session manager")
		return
	}
	h.OK(rule, "loop-carried addresses in the session manager", "", fmt.Sprintf("%d functions, %d address stores inside loops inspected", nfn, nstores))
}

// isInvalidOffset: the package-level InvalidOffset (a variable in server/wal) or -1.
func isInvalidOffset(v ssa.Value) bool {
	c := ir.Canon(v)
	if u, ok := c.(*ssa.UnOp); ok && u.Op == token.MUL {
		if g, ok := u.X.(*ssa.Global); ok {
			return g.Name() == "InvalidOffset"
		}
	}
	if k, ok := c.(*ssa.Const); ok && k.Value != nil && isInt64Type(k.Type()) {
		return k.Int64() == -1
	}
	return false
}

func namedOfType(t types.Type) *types.Named {
	if p, ok := t.(*types.Pointer); ok {
		t = p.Elem()
	}
	n, _ := types.Unalias(t).(*types.Named)
	return n
}

// rewrittenIn: the cell is written (directly, through a field, or by a method/function
// that receives its address) by an instruction inside the given blocks.
func rewrittenIn(al *ssa.Alloc, blocks map[*ssa.BasicBlock]bool) bool {
	if al.Referrers() == nil {
		return false
	}
	var refs []ssa.Instruction
	refs = append(refs, *al.Referrers()...)
	for i := 0; i < len(refs); i++ {
		r := refs[i]
		switch x := r.(type) {
		case *ssa.Store:
			if blocks[x.Block()] && x.Val != ssa.Value(al) {
				return true
			}
		case *ssa.FieldAddr:
			if x.Referrers() != nil {
				refs = append(refs, *x.Referrers()...)
			}
		case ssa.CallInstruction:
			if blocks[x.Block()] {
				c := x.Common()
				if !c.IsInvoke() && len(c.Args) > 0 && c.Args[0] == ssa.Value(al) {
					if f := c.StaticCallee(); f != nil && f.Signature.Recv() != nil {
						if _, ptr := f.Signature.Recv().Type().(*types.Pointer); ptr {
							return true // pointer-receiver method on the variable
						}
					}
				}
			}
		}
	}
	return false
}

// ruleRecordKeyAgreement (R15h / R17j): the record key the put applies is seen the same
// by everything that consumes it — the write into the batch, the index/session callback
// (which reads the request's Key field), the notification and the sequence waiters. All
// paths of the put-apply function are enumerated; along each, the value of request.Key is
// tracked through the stores that rewrite it.
func ruleRecordKeyAgreement(h *H, rule string) {
	h.Rule(rule, "K6", "along every path of the function applying a put, the key given to WriteBatch.Put, the key the update callback finds in the request, the key recorded in the notification and the generated key announced to sequence waiters are the same value", 1)
	onPut := ir.Callee{Pkg: "server/kv", Recv: "UpdateOperationCallback", Name: "OnPut"}
	batchPut := ir.Callee{Pkg: "server/kv", Recv: "WriteBatch", Name: "Put"}
	n := 0
	for _, s := range h.P.AllCalls(ir.InPkg("server/kv"), onPut) {
		fn := s.Fn
		if fn.Blocks == nil || len(s.Call.Common().Args) < 2 {
			continue
		}
		req := ir.Canon(s.Call.Common().Args[1])
		if _, isParam := req.(*ssa.Parameter); !isParam {
			continue
		}
		n++
		h.Fn(ir.FuncName(fn))
		name := "record key in " + ir.FuncName(fn)
		isKeyAddr := func(v ssa.Value) bool {
			fa, ok := v.(*ssa.FieldAddr)
			if !ok {
				return false
			}
			r, ok := ir.FieldAddrOf(fa)
			return ok && r.Field == "Key" && ir.Canon(fa.X) == req
		}
		type use struct {
			what string
			in   ssa.Instruction
			val  ssa.Value // nil: the request's Key field at the time of the call
		}
		classify := func(in ssa.Instruction) []use {
			c := ir.CallOf(in)
			if c == nil {
				return nil
			}
			switch {
			case in == ssa.Instruction(s.Call):
				return []use{{"the update callback (request.Key)", in, nil}}
			case h.P.Matches(c, batchPut) && len(c.Args) >= 1:
				return []use{{"WriteBatch.Put", in, c.Args[0]}}
			}
			if f := c.StaticCallee(); f != nil && f.Signature.Recv() != nil && len(c.Args) >= 2 {
				switch {
				case f.Name() == "Modified" && strings.Contains(f.Signature.Recv().Type().String(), "notifications"):
					return []use{{"the notification", in, c.Args[1]}}
				}
			}
			if c.IsInvoke() && c.Method.Name() == "SequenceUpdated" && len(c.Args) == 2 {
				return []use{{"the sequence waiters", in, c.Args[1]}}
			}
			return nil
		}
		nPaths, limit := 0, 50000
		var bad string
		var badPath []int
		onPath := map[*ssa.BasicBlock]bool{}
		var path []*ssa.BasicBlock
		type seenUse struct {
			what string
			key  ssa.Value
			pos  ssa.Instruction
		}
		var dfs func(b *ssa.BasicBlock, mem ssa.Value, loads map[ssa.Value]ssa.Value, uses []seenUse)
		initKey := ssa.Value(req) // stands for "the key the request arrived with"
		resolve := func(v ssa.Value, loads map[ssa.Value]ssa.Value) ssa.Value {
			for i := 0; i < 8; i++ {
				if k, ok := loads[v]; ok {
					return k
				}
				if phi, ok := v.(*ssa.Phi); ok {
					nv := ir.PhiAlong(phi, path)
					if nv == nil || nv == v {
						return v
					}
					v = nv
					continue
				}
				if cv := ir.Canon(v); cv != v {
					v = cv
					continue
				}
				return v
			}
			return v
		}
		dfs = func(b *ssa.BasicBlock, mem ssa.Value, loads map[ssa.Value]ssa.Value, uses []seenUse) {
			if bad != "" || nPaths > limit {
				return
			}
			onPath[b] = true
			path = append(path, b)
			defer func() { onPath[b] = false; path = path[:len(path)-1] }()
			local := map[ssa.Value]ssa.Value{}
			for k, v := range loads {
				local[k] = v
			}
			for _, in := range b.Instrs {
				switch x := in.(type) {
				case *ssa.UnOp:
					if x.Op == token.MUL && isKeyAddr(x.X) {
						local[x] = mem
					}
				case *ssa.Store:
					if isKeyAddr(x.Addr) {
						mem = resolve(x.Val, local)
					}
				case *ssa.Call:
					if f := x.Call.StaticCallee(); f != nil && f.Name() == "GetKey" && len(x.Call.Args) == 1 && ir.Canon(x.Call.Args[0]) == req {
						local[x] = mem
					}
				}
				for _, u := range classify(in) {
					k := mem
					if u.val != nil {
						k = resolve(u.val, local)
					}
					for _, p := range uses {
						if p.key != k && !ir.SameExpr(p.key, k) && p.what != u.what {
							bad = fmt.Sprintf("%s gets %s while %s (at %s) got %s", u.what, describeKey(k, initKey), p.what, h.pos(p.pos), describeKey(p.key, initKey))
							for _, pb := range path {
								badPath = append(badPath, pb.Index)
							}
							return
						}
					}
					uses = append(uses, seenUse{u.what, k, in})
				}
			}
			if len(b.Succs) == 0 {
				nPaths++
				return
			}
			for _, sc := range b.Succs {
				if onPath[sc] {
					continue
				}
				dfs(sc, mem, local, uses)
			}
		}
		dfs(fn.Blocks[0], initKey, map[ssa.Value]ssa.Value{}, nil)
		switch {
		case bad != "":
			h.Bad(rule, name, h.pos(s.Call), bad+": for a put with a generated (sequential) key the consumers disagree about which record was written — the index entry / session shadow / notification names a key that does not exist, and the real one is never reported or cleaned up", witness(badPath))
		case nPaths > limit:
			h.Unknown(rule, name, h.pos(s.Call), "too many paths to enumerate")
		default:
			h.OK(rule, name, h.pos(s.Call), fmt.Sprintf("%d paths enumerated; all consumers see one key", nPaths))
		}
	}
	if n == 0 {
		h.Anchor(rule, "the function of server/kv that calls UpdateOperationCallback.OnPut with its request parameter")
	}
}

func describeKey(k, init ssa.Value) string {
	if k == init {
		return "the key the request arrived with"
	}
	return ir.Describe(k)
}

// ruleUndeliveredAssignmentCutsClient (R18m): a client that cannot take an assignment
// update is disconnected, so that it reloads the whole map; an update must never be
// skipped silently, or the client keeps routing with a stale map.
func ruleUndeliveredAssignmentCutsClient(h *H, rule string) {
	h.Rule(rule, "K1", "in the broadcast of new shard assignments, the branch of the non-blocking send in which the update was not handed to a client closes that client's channel before the next client is served", 1)
	n := 0
	for _, fn := range h.P.Funcs {
		if ir.RelPkg(ir.PkgPathOf(fn)) != "server" || fn.Blocks == nil {
			continue
		}
		ir.Instrs(fn, func(in ssa.Instruction) {
			sel, ok := in.(*ssa.Select)
			if !ok || sel.Blocking {
				return
			}
			for idx, st := range sel.States {
				if st.Dir != types.SendOnly {
					continue
				}
				ch, ok := st.Chan.Type().Underlying().(*types.Chan)
				if !ok || !ir.TypeIs(ch.Elem(), "proto", "ShardAssignments") {
					continue
				}
				n++
				h.Fn(ir.FuncName(fn))
				sent := ir.EdgesWhere(fn, func(c ir.Cmp) bool {
					ex, ok := c.L.(*ssa.Extract)
					if !ok || ex.Tuple != ssa.Value(sel) || ex.Index != 0 || c.Op != token.EQL {
						return false
					}
					k, ok := c.R.(*ssa.Const)
					return ok && k.Value != nil && k.Int64() == int64(idx)
				})
				isClose := func(x ssa.Instruction) bool {
					c := ir.CallOf(x)
					if c == nil {
						return false
					}
					b, ok := c.Value.(*ssa.Builtin)
					return ok && b.Name() == "close" && len(c.Args) == 1 && ir.SameExpr(ir.Canon(c.Args[0]), ir.Canon(st.Chan))
				}
				r, path := ir.Reach(ir.Search{From: sel, Blocked: sent, Barrier: isClose}, func(x ssa.Instruction) bool {
					return x == ssa.Instruction(sel) || ir.IsExit(x)
				})
				h.Verdict(!r, rule, "undelivered assignment update in "+ir.FuncName(fn), h.pos(sel), "the client's channel is closed when the update cannot be handed over",
					"an update that a client cannot take at once is skipped and the client stays registered: it keeps the older map (the newest updates are the ones dropped) and routes to shards and hash ranges that are no longer published", witness(path))
			}
		})
	}
	if n == 0 {
		h.Anchor(rule, "a non-blocking send of *proto.ShardAssignments in package server")
	}
}

// rulePoliciesOnlyFromConfig (R19g): the anti-affinity rules the selectors enforce are
// the namespace's; nothing rewrites them on the way.
func rulePoliciesOnlyFromConfig(h *H, rule string) {
	h.Rule(rule, "K3", "the Policies field of the selection contexts is only assigned from the Policies field of the namespace configuration or of another selection context", 3)
	n := 0
	for _, t := range [][2]string{{"coordinator/selectors/ensemble", "Context"}, {"coordinator/selectors/single", "Context"}} {
		for _, w := range h.P.FieldWrites(t[0], t[1], "Policies") {
			n++
			h.Fn(ir.FuncName(w.Fn))
			name := fmt.Sprintf("Policies of %s.%s set in %s", t[0][strings.LastIndex(t[0], "/")+1:], t[1], ir.FuncName(ir.Outermost(w.Fn)))
			ok := false
			if w.Val != nil {
				if r, isF := ir.FieldLoadOf(ir.Canon(w.Val)); isF && r.Field == "Policies" {
					ok = true
				}
			}
			h.Verdict(ok, rule, name, h.pos(w.Instr), "copied from a Policies field",
				"the policies given to the selectors are replaced by "+describeVal(w.Val)+": the Strict anti-affinity rules of the namespace are no longer enforced for this selection")
		}
	}
	if n == 0 {
		h.Anchor(rule, "writes of Context.Policies in the selectors")
	}
}

func describeVal(v ssa.Value) string {
	if v == nil {
		return "a value written through an escaped address"
	}
	return ir.Describe(v)
}

// ruleSentWritesFailNonRetriable (R20j): a write that was handed to a stream may have been
// executed. When the stream breaks, its pending futures are failed with an error the
// retry classification does not retry; the error of the stream itself (Unavailable, …)
// would make the batcher send the same operations again.
func ruleSentWritesFailNonRetriable(h *H, rule string) {
	const pkg = "oxia/internal"
	h.Rule(rule, "K10", "every Fail of a future taken from the write stream wrapper's pending list gets a fixed error value that is not a gRPC status (io.EOF), never an error returned by the stream", 1)
	wt, pf := writeStreamWrapperType(h)
	if wt == "" {
		h.Anchor(rule, "the write-stream wrapper type (stream client + pending futures)")
		return
	}
	n := 0
	for _, fn := range h.P.Funcs {
		if ir.RelPkg(ir.PkgPathOf(fn)) != pkg || fn.Blocks == nil {
			continue
		}
		ir.Instrs(fn, func(in ssa.Instruction) {
			c := ir.CallOf(in)
			if c == nil || !c.IsInvoke() || c.Method.Name() != "Fail" || len(c.Args) != 1 {
				return
			}
			// the receiver is an element of the wrapper's pending list
			fromPending := ir.DependsOn(c.Value, func(x ssa.Value) bool {
				r, ok := ir.FieldLoadOf(x)
				return ok && r.Is(pkg, wt, pf)
			})
			if !fromPending {
				return
			}
			n++
			h.Fn(ir.FuncName(fn))
			arg := ir.Canon(c.Args[0])
			fromCall := ir.DependsOn(c.Args[0], func(x ssa.Value) bool {
				switch y := x.(type) {
				case *ssa.Call:
					return y.Call.IsInvoke() || y.Call.StaticCallee() != nil
				}
				return false
			})
			_, isGlobalLoad := func() (*ssa.Global, bool) {
				if u, ok := arg.(*ssa.UnOp); ok && u.Op == token.MUL {
					g, ok := u.X.(*ssa.Global)
					if ok && g.Pkg != nil && !strings.HasSuffix(g.Pkg.Pkg.Path(), "common/constant") {
						return g, true
					}
				}
				return nil, false
			}()
			h.Verdict(isGlobalLoad && !fromCall, rule, "pending writes failed in "+ir.FuncName(fn), h.pos(in), "failed with a fixed error that is not a gRPC status (not retried)",
				"the futures of writes already sent on the stream are failed with "+ir.Describe(arg)+": a stream error carries a retriable status (Unavailable, not leader, …), so the batch is sent again on a new stream although the first attempt may have been committed — its operations execute twice")
		})
	}
	if n == 0 {
		h.Anchor(rule, "a Fail call on an element of "+wt+"."+pf)
	}
}

// ruleSequenceUpdatesDelivered (R16j): the subscriber eventually observes the latest
// generated key only if the client hands every key it receives to the application; the
// only response that may be skipped is the empty one (no key generated yet).
func ruleSequenceUpdatesDelivered(h *H, rule string) {
	h.Rule(rule, "K1", "in the client's receive loop of sequence updates, the next Recv is reached from a successful Recv only through the delivery of the received key on the channel or through the test that the key is empty", 1)
	recvSpec := ir.Callee{Pkg: "proto", Recv: "OxiaClient_GetSequenceUpdatesClient", Name: "Recv"}
	n := 0
	isKey := func(v ssa.Value) bool {
		return ir.DependsOn(v, func(x ssa.Value) bool {
			r, ok := ir.FieldLoadOf(x)
			return ok && r.Field == "HighestSequenceKey"
		})
	}
	for _, s := range h.P.AllCalls(ir.InPkg("oxia"), recvSpec) {
		fn := s.Fn
		n++
		h.Fn(ir.FuncName(fn))
		empty := ir.EdgesWhere(fn, func(c ir.Cmp) bool {
			if c.Op != token.EQL {
				return false
			}
			k, ok := c.R.(*ssa.Const)
			if !ok || k.Value == nil {
				return false
			}
			if k.Value.ExactString() == `""` && isKey(c.L) {
				return true
			}
			// len(key) == 0
			if call, ok := c.L.(*ssa.Call); ok {
				if b, ok := call.Call.Value.(*ssa.Builtin); ok && b.Name() == "len" && k.Value.ExactString() == "0" && isKey(call.Call.Args[0]) {
					return true
				}
			}
			return false
		})
		sendsParam := func(g *ssa.Function, p *ssa.Parameter) bool {
			found := false
			ir.Instrs(g, func(x ssa.Instruction) {
				switch y := x.(type) {
				case *ssa.Send:
					if ir.Canon(y.X) == ssa.Value(p) {
						found = true
					}
				case *ssa.Select:
					if y.Blocking {
						for _, st := range y.States {
							if st.Dir == types.SendOnly && ir.Canon(st.Send) == ssa.Value(p) {
								found = true
							}
						}
					}
				}
			})
			return found
		}
		deliver := func(in ssa.Instruction) bool {
			// the delivery extracted into a helper that sends its parameter on the channel
			if c := ir.CallOf(in); c != nil {
				if g := c.StaticCallee(); g != nil && ir.InRepo(g) && g.Blocks != nil && len(g.Params) == len(c.Args) {
					for i, a := range c.Args {
						if isKey(a) && sendsParam(g, g.Params[i]) {
							return true
						}
					}
				}
			}
			switch x := in.(type) {
			case *ssa.Send:
				return isKey(x.X)
			case *ssa.Select:
				if !x.Blocking {
					return false
				}
				for _, st := range x.States {
					if st.Dir == types.SendOnly && isKey(st.Send) {
						return true
					}
				}
			}
			return false
		}
		r, path := ir.Reach(ir.Search{From: s.Call, Blocked: empty, Barrier: deliver}, ir.Is(s.Call))
		h.Verdict(!r, rule, "received sequence keys delivered in "+ir.FuncName(fn), h.pos(s.Call), "every non-empty key is delivered before the next Recv",
			"a received, non-empty key can be dropped before the next Recv: keys generated after the records of a sequence were deleted (lower than one seen before) never reach the subscriber", witness(path))
	}
	if n == 0 {
		h.Anchor(rule, "the client's Recv on the GetSequenceUpdates stream")
	}
}

// ruleParallelSliceIndex (R13g): applying a logged request must not panic. A loop over
// one slice that indexes another slice with the same index is only safe when the
// lengths were related first; the apply callbacks compare request lists with stored
// lists whose lengths differ for legal requests.
func ruleParallelSliceIndex(h *H, rule string) {
	h.Rule(rule, "K8", "in the packages that apply log entries, an index bounded only by the length of one slice is not used on another slice unless a comparison of the two lengths (or a bound by the other length) precedes it", 1)
	lenOf := func(v ssa.Value) ssa.Value {
		if c, ok := ir.Canon(v).(*ssa.Call); ok {
			if b, ok := c.Call.Value.(*ssa.Builtin); ok && b.Name() == "len" && len(c.Call.Args) == 1 {
				return ir.Canon(c.Call.Args[0])
			}
		}
		return nil
	}
	nfn, nidx := 0, 0
	roots := h.P.ImplMethods("server/kv", "DB", "ProcessWrite")
	if len(roots) == 0 {
		h.Anchor(rule, "the implementation of kv.DB.ProcessWrite")
		return
	}
	reach := h.P.Closure(roots, ir.InRepo)
	for fn := range reach {
		rel := ir.RelPkg(ir.PkgPathOf(fn))
		if (rel != "server" && rel != "server/kv") || fn.Blocks == nil {
			continue
		}
		nfn++
		ir.Instrs(fn, func(in ssa.Instruction) {
			ia, ok := in.(*ssa.IndexAddr)
			if !ok {
				return
			}
			if _, isSlice := ia.X.Type().Underlying().(*types.Slice); !isSlice {
				return
			}
			if _, isConst := ia.Index.(*ssa.Const); isConst {
				return
			}
			x := ir.Canon(ia.X)
			var other ssa.Value
			own, related := false, false
			for _, c := range ir.CmpGuards(in) {
				for _, g := range []ir.Cmp{c, c.Flip()} {
					// idx < len(S)
					if g.Op == token.LSS && (g.L == ia.Index || ir.SameExpr(g.L, ia.Index)) {
						if s := lenOf(g.R); s != nil {
							if s == x || ir.SameExpr(s, x) {
								own = true
							} else {
								other = s
							}
						}
					}
					// len(X) related to another length
					if a, b := lenOf(g.L), lenOf(g.R); a != nil && b != nil && (g.Op == token.EQL || g.Op == token.GEQ || g.Op == token.LEQ) {
						if a == x || b == x || ir.SameExpr(a, x) || ir.SameExpr(b, x) {
							related = true
						}
					}
				}
			}
			if other == nil {
				return
			}
			if mk, ok := x.(*ssa.MakeSlice); ok {
				if l := lenOf(mk.Len); l != nil && (l == other || ir.SameExpr(l, other)) {
					related = true // make([]T, len(other))
				}
			}
			nidx++
			if own || related {
				return
			}
			h.Bad(rule, "parallel index in "+ir.FuncName(fn), h.pos(in), "the index is bounded by the length of "+ir.Describe(other)+" but is applied to "+ir.Describe(x)+" without a comparison of the lengths: when the second list is shorter the apply path panics — on the leader, on every follower and again at every replay of the entry")
		})
	}
	h.OK(rule, "parallel slice indexing below DB.ProcessWrite", "", fmt.Sprintf("%d functions reachable from ProcessWrite in server and server/kv, %d indexings bounded by another slice's length inspected", nfn, nidx))
}

// ruleSwapSelectedFromCurrentView (R19h): within one rebalancing round several swaps can be
// proposed for the same shard (two of its members were removed from the cluster). The set
// of "already selected" servers given to the selector must then come from state that the
// proposal itself keeps current; a snapshot of the ensemble taken before the round lets
// the second swap pick the target of the first one.
func ruleSwapSelectedFromCurrentView(h *H, rule string) {
	h.Rule(rule, "K3", "in the function proposing a swap, the members added to the selected set derive from the per-round load ratios that the proposal updates afterwards (Ratio.MoveShardToNode), or from an ensemble field that is rewritten after the proposal", 1)
	n := 0
	isRatio := func(t types.Type) bool { return ir.TypeIs(t, "coordinator/model", "Ratio") }
	for _, fn := range h.P.Funcs {
		if ir.RelPkg(ir.PkgPathOf(fn)) != "coordinator/balancer" || fn.Blocks == nil {
			continue
		}
		var send ssa.Instruction
		ir.Instrs(fn, func(in ssa.Instruction) {
			if s, ok := in.(*ssa.Send); ok && send == nil && ir.DependsOn(s.X, func(x ssa.Value) bool {
				al, ok := x.(*ssa.Alloc)
				return ok && ir.TypeIs(al.Type(), "coordinator/balancer", "SwapNodeAction")
			}) {
				send = s
			}
		})
		if send == nil {
			continue
		}
		n++
		h.Fn(ir.FuncName(fn))
		// the emission may sit in an extracted helper ("propose the swap"): the selected set is
		// built by its caller
		hasAdd := func(f *ssa.Function) bool {
			found := false
			for _, hf := range helperFuncs(f) {
				ir.Instrs(hf, func(in ssa.Instruction) {
					if c := ir.CallOf(in); c != nil && isSetMethod(c, "Add") {
						found = true
					}
				})
			}
			return found
		}
		for lvl := 0; lvl < 3 && !hasAdd(fn); lvl++ {
			site := ir.SingleCallSite(fn)
			if site == nil {
				break
			}
			fn, send = site.Parent(), site
			h.Fn(ir.FuncName(fn))
		}
		ratioCall := func(x ssa.Value) bool {
			c, ok := x.(*ssa.Call)
			if !ok {
				return false
			}
			f := c.Call.StaticCallee()
			return f != nil && f.Signature.Recv() != nil && isRatio(f.Signature.Recv().Type())
		}
		updatesRatio, rewritesEnsemble := false, false
		ir.Instrs(fn, func(in ssa.Instruction) {
			if r, _ := ir.Reach(ir.Search{From: send}, ir.Is(in)); !r {
				return
			}
			if c := ir.CallOf(in); c != nil {
				if f := c.StaticCallee(); f != nil && f.Signature.Recv() != nil && isRatio(f.Signature.Recv().Type()) && f.Signature.Params().Len() >= 2 {
					updatesRatio = true
				}
			}
			if st, ok := in.(*ssa.Store); ok {
				if r, ok := ir.FieldAddrOf(st.Addr); ok && r.Field == "Ensemble" {
					rewritesEnsemble = true
				}
			}
		})
		adds := 0
		for _, hf := range helperFuncs(fn) {
			ir.Instrs(hf, func(in ssa.Instruction) {
				c := ir.CallOf(in)
				if c == nil || !isSetMethod(c, "Add") || len(c.Args) == 0 {
					return
				}
				adds++
				arg := c.Args[len(c.Args)-1]
				if sl, ok := arg.(*ssa.Slice); ok {
					// variadic Add(items ...T): the element stored into the backing array
					for _, e := range ir.VariadicElems(sl) {
						arg = e
					}
				}
				fromRatio := ir.DependsOn(arg, ratioCall)
				ok := (fromRatio && updatesRatio) || (!fromRatio && rewritesEnsemble)
				why := "derived from the load ratios, which the proposal updates"
				if !fromRatio {
					why = "derived from an ensemble field that is rewritten after the proposal"
				}
				h.Verdict(ok, rule, fmt.Sprintf("source of the selected set #%d in %s", adds, ir.FuncName(fn)), h.pos(in), why,
					"the servers marked as already selected come from "+ir.Describe(ir.Canon(arg))+", which no later step of the round updates: when two members of one ensemble were removed from the cluster, both swaps of the round are computed from the same ensemble snapshot and can choose the same target — the ensemble then holds one server twice")
			})
		}
		if adds == 0 {
			h.Unknown(rule, "source of the selected set in "+ir.FuncName(fn), h.pos(send), "no Add into a set found in the proposing function")
		}
	}
	if n == 0 {
		h.Anchor(rule, "the balancer function sending a SwapNodeAction")
	}
}

// ruleTrackerHeadCoversCommit (R01n): a write is acknowledged once the tracker's commit
// offset reaches its offset. A tracker created with a head below the commit offset hands
// out offsets that count as committed before any follower has them. The head a new leader
// starts from therefore has to account for the commit offset of its database (a node
// brought up to date by a snapshot has an empty log and a commit offset).
func ruleTrackerHeadCoversCommit(h *H, rule string) {
	h.Rule(rule, "K5", "the head offset given to NewQuorumAckTracker depends on the database's commit offset as well, or the construction is guarded by a comparison of the log head with the commit offset", 1)
	n := 0
	for _, fn := range h.P.Funcs {
		if ir.RelPkg(ir.PkgPathOf(fn)) != "server" || fn.Blocks == nil {
			continue
		}
		ir.Instrs(fn, func(in ssa.Instruction) {
			c := ir.CallOf(in)
			if c == nil || len(c.Args) != 3 {
				return
			}
			f := c.StaticCallee()
			if f == nil || f.Signature.Results().Len() != 1 || !ir.TypeIs(f.Signature.Results().At(0).Type(), "server", "QuorumAckTracker") {
				return
			}
			n++
			h.Fn(ir.FuncName(fn))
			head, commit := c.Args[1], c.Args[2]
			isCommit := func(x ssa.Value) bool {
				if x == ir.Canon(commit) || x == commit {
					return true
				}
				if call, ok := x.(*ssa.Call); ok && h.P.Matches(call.Common(), dbReadCommit) {
					return true
				}
				return false
			}
			ok := ir.DependsOn(head, isCommit)
			why := "the head offset takes the commit offset into account"
			if !ok {
				for _, g := range ir.CmpGuards(in) {
					l, r := ir.DependsOn(g.L, isCommit), ir.DependsOn(g.R, isCommit)
					if l != r {
						other := g.L
						if l {
							other = g.R
						}
						if ir.SameExpr(ir.Canon(other), ir.Canon(head)) || ir.DependsOn(other, func(x ssa.Value) bool { return x == ir.Canon(head) }) {
							ok, why = true, "guarded by a comparison of the head with the commit offset"
						}
					}
				}
			}
			h.Verdict(ok, rule, fmt.Sprintf("ack tracker head #%d in %s", n, ir.FuncName(ir.Outermost(fn))), h.pos(in), why,
				"the tracker starts from the head of the log alone: on a node whose log is behind its database (brought up to date by a snapshot) new writes get offsets below the commit offset and are acknowledged at once, without any follower")
		})
	}
	if n == 0 {
		h.Anchor(rule, "the construction of the quorum ack tracker in package server")
	}
}

// ruleSingleResultChannelsBuffered (R20k): the asynchronous client answers a single-result
// operation by sending on a channel from inside the batch callback, i.e. on the goroutine
// of the shard's batcher. The synchronous wrappers stop receiving when their context ends,
// so the channel must have room for the one result; otherwise the send blocks the batcher
// and no later operation of that shard completes.
func ruleSingleResultChannelsBuffered(h *H, rule string) {
	h.Rule(rule, "K6", "every result channel that a single-result operation of the asynchronous client (a method returning a channel and taking no context) creates has capacity >= 1 (sibling operations agree)", 4)
	at := h.implType(rule, "oxia", "AsyncClient")
	if at == nil {
		return
	}
	n := 0
	for _, fn := range h.P.Funcs {
		if ir.RelPkg(ir.PkgPathOf(fn)) != "oxia" || fn.Blocks == nil || fn.Parent() != nil || fn.Signature.Recv() == nil {
			continue
		}
		if rn := namedOfType(fn.Signature.Recv().Type()); rn == nil || rn.Obj() != at.Obj() {
			continue
		}
		res := fn.Signature.Results()
		if res.Len() != 1 {
			continue
		}
		rc, ok := res.At(0).Type().Underlying().(*types.Chan)
		if !ok {
			continue
		}
		hasCtx := false
		for i := 0; i < fn.Signature.Params().Len(); i++ {
			if strings.HasSuffix(fn.Signature.Params().At(i).Type().String(), "context.Context") {
				hasCtx = true
			}
		}
		if hasCtx {
			continue // streaming operations: the producer watches the context
		}
		ir.Instrs(fn, func(in ssa.Instruction) {
			mk, ok := in.(*ssa.MakeChan)
			if !ok {
				return
			}
			ct, ok := mk.Type().Underlying().(*types.Chan)
			if !ok || !types.Identical(ct.Elem(), rc.Elem()) {
				return
			}
			n++
			h.Fn(ir.FuncName(fn))
			k, isK := mk.Size.(*ssa.Const)
			ok2 := isK && k.Value != nil && k.Int64() >= 1
			h.Verdict(ok2, rule, "result channel of "+ir.FuncName(fn), h.pos(in), "buffered",
				"the result channel is unbuffered: when the caller has stopped receiving (the synchronous wrapper returns as soon as its context is done) the callback's send blocks the goroutine that completes the shard's batches, and every later operation on that shard hangs")
		})
	}
	if n == 0 {
		h.Anchor(rule, "result channels created by the asynchronous client")
	}
}

// ruleResumePositionNotBySign (R17k): a subscriber is positioned by the first batch it
// receives; on a shard without any committed entry that position is -1. Whether a
// reconnection carries the position must therefore depend on *having been positioned*,
// not on the numeric value of the offset: a test like `offset >= 0` makes the subscriber of
// an empty shard reconnect without position, the server then puts it on the current commit
// offset, and what was committed in between is never delivered.
func ruleResumePositionNotBySign(h *H, rule string) {
	h.Rule(rule, "K5", "in the client, the start offset of a notifications request is omitted only under a condition on the subscriber's state (a boolean), never under a numeric comparison of the last received offset with a constant", 1)
	n := 0
	for _, w := range h.P.FieldWrites("proto", "NotificationsRequest", "StartOffsetExclusive") {
		fn := w.Fn
		if ir.RelPkg(ir.PkgPathOf(fn)) != "oxia" || w.Val == nil {
			continue
		}
		n++
		h.Fn(ir.FuncName(fn))
		// the field whose address is sent when a position is known
		offsetField := ""
		var leaves []struct {
			v        ssa.Value
			from, to *ssa.BasicBlock
		}
		seen := map[ssa.Value]bool{}
		var walk func(v ssa.Value, from, to *ssa.BasicBlock)
		walk = func(v ssa.Value, from, to *ssa.BasicBlock) {
			if phi, ok := v.(*ssa.Phi); ok {
				if seen[phi] {
					return
				}
				seen[phi] = true
				for i, e := range phi.Edges {
					walk(e, phi.Block().Preds[i], phi.Block())
				}
				return
			}
			if r, ok := ir.FieldAddrOf(v); ok {
				offsetField = r.Field
			}
			leaves = append(leaves, struct {
				v        ssa.Value
				from, to *ssa.BasicBlock
			}{v, from, to})
		}
		walk(w.Val, nil, nil)
		isOffsetLoad := func(x ssa.Value) bool {
			r, ok := ir.FieldLoadOf(ir.Canon(x))
			return ok && offsetField != "" && r.Field == offsetField
		}
		name := "start offset of the notifications request in " + ir.FuncName(fn)
		bad, sawState := "", false
		for _, lf := range leaves {
			k, isK := lf.v.(*ssa.Const)
			if !isK || !k.IsNil() || lf.from == nil {
				continue
			}
			var conds []ssa.Value
			if len(lf.from.Instrs) > 0 {
				if iff, ok := lf.from.Instrs[len(lf.from.Instrs)-1].(*ssa.If); ok {
					conds = append(conds, iff.Cond)
				}
			}
			for _, g := range ir.BlockGuards(lf.from) {
				conds = append(conds, g.Cond)
			}
			for _, c := range conds {
				for {
					u, ok := c.(*ssa.UnOp)
					if !ok || u.Op != token.NOT {
						break
					}
					c = u.X
				}
				switch x := c.(type) {
				case *ssa.BinOp:
					_, lk := x.X.(*ssa.Const)
					_, rk := x.Y.(*ssa.Const)
					if (rk && isOffsetLoad(x.X)) || (lk && isOffsetLoad(x.Y)) {
						bad = "the start offset is left out depending on the value of the last received offset (" + x.Op.String() + " a constant)"
					} else if b, ok := x.X.Type().Underlying().(*types.Basic); ok && b.Info()&types.IsBoolean != 0 {
						sawState = true // `flag == true`
					}
				default:
					if b, ok := c.Type().Underlying().(*types.Basic); ok && b.Kind() == types.Bool {
						sawState = true
					}
				}
			}
		}
		switch {
		case bad != "":
			h.Bad(rule, name, h.pos(w.Instr), bad+": a subscriber positioned on -1 (shard without committed entries) reconnects without position and is moved to the current commit offset; the notifications of everything committed in between are lost")
		case sawState || len(leaves) == 1:
			h.OK(rule, name, h.pos(w.Instr), "omitted only when the subscriber was never positioned")
		default:
			h.Unknown(rule, name, h.pos(w.Instr), "cannot identify the condition under which the start offset is omitted")
		}
	}
	if n == 0 {
		h.Anchor(rule, "the client's construction of NotificationsRequest.StartOffsetExclusive")
	}
}

// ruleEmptyRecordBelowCommit (R10l): a zero size field is what the untouched rest of a
// segment file looks like, so the recovery scan ends there without error. On a segment that
// has already yielded entries this is the end of the log only above the commit offset: at or
// below it a committed entry is missing (its header was zeroed), which must be an error.
func ruleEmptyRecordBelowCommit(h *H, rule string) {
	h.Rule(rule, "K5", "v2 recovery: from the classification of an empty record, the scan ends successfully only under commitOffset == nil, entry offset > *commitOffset, or no entry scanned yet (entry offset <= base offset)", 1)
	for _, fn := range codecImplMethods(h, rule, "RecoverIndex") {
		if !ir.TypeIs(fn.Signature.Recv().Type(), "server/wal/codec", "V2") {
			continue
		}
		var base, commit *ssa.Parameter
		for _, p := range fn.Params {
			if p.Type().String() == "int64" {
				base = p
			}
			if pt, ok := p.Type().(*types.Pointer); ok && pt.Elem().String() == "int64" {
				commit = p
			}
		}
		if base == nil || commit == nil {
			h.Anchor(rule, "baseEntryOffset / commitOffset parameters of "+ir.FuncName(fn))
			continue
		}
		isCounter := func(v ssa.Value) bool {
			phi, ok := v.(*ssa.Phi)
			if !ok {
				return false
			}
			hasBase, hasInc := false, false
			for _, e := range phi.Edges {
				if ir.Canon(e) == ssa.Value(base) {
					hasBase = true
				}
				if bo, ok := e.(*ssa.BinOp); ok && bo.Op == token.ADD && bo.X == ssa.Value(phi) && isOne(bo.Y) {
					hasInc = true
				}
			}
			return hasBase && hasInc
		}
		involvesBase := func(v ssa.Value) bool {
			return isCounter(v) || ir.DependsOn(v, func(x ssa.Value) bool { return isCounter(x) })
		}
		isCommitDeref := func(v ssa.Value) bool {
			return ir.DependsOn(v, func(x ssa.Value) bool {
				u, ok := x.(*ssa.UnOp)
				return ok && u.Op == token.MUL && ir.Canon(u.X) == ssa.Value(commit)
			})
		}
		isEmptyTest := func(cond ssa.Value) bool {
			return ir.DependsOn(cond, func(x ssa.Value) bool {
				c, ok := x.(*ssa.Call)
				if !ok || len(c.Call.Args) != 2 {
					return false
				}
				f := c.Call.StaticCallee()
				if f == nil || f.Name() != "Is" {
					return false
				}
				u, ok := c.Call.Args[1].(*ssa.UnOp)
				if !ok {
					return false
				}
				g, ok := u.X.(*ssa.Global)
				return ok && g.Name() == "ErrEmptyPayload"
			})
		}
		var emptyEdges []ir.Edge
		for _, b := range fn.Blocks {
			if len(b.Instrs) == 0 || len(b.Succs) != 2 {
				continue
			}
			if iff, ok := b.Instrs[len(b.Instrs)-1].(*ssa.If); ok && isEmptyTest(iff.Cond) {
				emptyEdges = append(emptyEdges, ir.Edge{From: b, To: b.Succs[0]})
			}
		}
		if len(emptyEdges) == 0 {
			h.Anchor(rule, "classification of ErrEmptyPayload in "+ir.FuncName(fn))
			continue
		}
		accept := ir.EdgesWhere(fn, func(c ir.Cmp) bool {
			switch {
			case c.Op == token.GTR && involvesBase(c.L) && isCommitDeref(c.R):
				return true
			case c.Op == token.EQL && ir.Canon(c.L) == ssa.Value(commit):
				k, ok := c.R.(*ssa.Const)
				return ok && k.IsNil()
			case (c.Op == token.LEQ || c.Op == token.EQL) && involvesBase(c.L) && ir.Canon(c.R) == ssa.Value(base):
				return true
			}
			return false
		})
		bad := ""
		var w []int
		for _, e := range emptyEdges {
			ir.Instrs(fn, func(in ssa.Instruction) {
				ret, isRet := in.(*ssa.Return)
				if !isRet || bad != "" {
					return
				}
				vals := ir.ReturnValues(ret)
				if c, isC := vals[len(vals)-1].(*ssa.Const); !isC || !c.IsNil() {
					return
				}
				next := func(x ssa.Instruction) bool {
					c := ir.CallOf(x)
					return c != nil && h.P.Matches(c, codecHeader)
				}
				if r, path := ir.Reach(ir.Search{FromBlock: e.To, Blocked: accept, Barrier: next}, ir.Is(in)); r {
					bad = "an empty record ends recovery successfully whatever the commit offset: a committed entry whose header was zeroed is dropped silently together with everything behind it (and the tail wipe of the opener then erases the intact entries that follow)"
					w = path
				}
			})
		}
		h.Verdict(bad == "", rule, "empty record ends the scan in "+ir.FuncName(fn), h.P.Pos(fn.Pos()), "only above the commit offset, without commit offset, or on a segment without entries", bad, witness(w))
	}
}

// isPureBoolHelper: a small repository function with one bool result and no calls other
// than builtins (a predicate over its arguments).
func isPureBoolHelper(f *ssa.Function) bool {
	if f.Blocks == nil || f.Signature.Results().Len() != 1 {
		return false
	}
	if b, ok := f.Signature.Results().At(0).Type().Underlying().(*types.Basic); !ok || b.Kind() != types.Bool {
		return false
	}
	pure := true
	ir.Instrs(f, func(in ssa.Instruction) {
		if c := ir.CallOf(in); c != nil {
			if _, isB := c.Value.(*ssa.Builtin); !isB {
				pure = false
			}
		}
	})
	return pure
}

// ruleSyncedOffsetPublishedUnderLock (R09o): the sync loop reads the appended offset,
// flushes without holding the WAL mutex and then publishes that offset as synced. A
// truncation that runs during the flush sets both offsets to the new end; publishing the
// older value afterwards makes LastOffset() — what readers are bounded by and followers
// acknowledge — point behind the end of the log.
func ruleSyncedOffsetPublishedUnderLock(h *H, rule string) {
	h.Rule(rule, "K2", "in the WAL's sync loop the store of the synced offset after the flush is made with a mutex of the WAL held and under a comparison of state read in that critical section with state captured before the flush (no truncation in between); that state is only changed under the same mutex", 2)
	wt := h.implType(rule, "server/wal", "Wal")
	if wt == nil {
		return
	}
	tn := wt.Obj().Name()
	flushSpec := ir.Callee{Pkg: "server/wal", Recv: "ReadWriteSegment", Name: "Flush"}
	n := 0
	for _, w := range h.P.FieldWrites("server/wal", tn, "lastSyncedOffset") {
		fn := w.Fn
		flushes := h.P.CallsIn(fn, flushSpec)
		if len(flushes) == 0 {
			continue
		}
		var flush ssa.CallInstruction
		for _, f := range flushes {
			if r, _ := ir.Reach(ir.Search{From: f}, ir.Is(w.Instr)); r {
				flush = f
			}
		}
		if flush == nil {
			continue
		}
		n++
		h.Fn(ir.FuncName(fn))
		name := "synced offset published after the flush in " + ir.FuncName(fn)
		held := ir.HeldAt(fn)[w.Instr]
		if len(held) == 0 {
			h.Bad(rule, name, h.pos(w.Instr), "the synced offset read before the flush is stored without any mutex: a TruncateLog (or Clear) that ran during the flush has already lowered both offsets, and the store moves LastOffset() back above the end of the log — a follower then acknowledges entries it no longer has")
			continue
		}
		isState := func(v ssa.Value) (ssa.Instruction, bool) {
			c := ir.Canon(v)
			if r, ok := ir.FieldLoadOf(c); ok && r.Struct != nil && r.Struct.Obj().Name() == tn {
				in, _ := c.(ssa.Instruction)
				return in, in != nil
			}
			if call, ok := c.(*ssa.Call); ok {
				if f := call.Call.StaticCallee(); f != nil && f.Name() == "Load" && len(call.Call.Args) == 1 {
					if r, ok := ir.FieldAddrOf(call.Call.Args[0]); ok && r.Struct != nil && r.Struct.Obj().Name() == tn {
						return call, true
					}
				}
			}
			return nil, false
		}
		guarded := false
		for _, c := range ir.CmpGuards(w.Instr) {
			a, okA := isState(c.L)
			b, okB := isState(c.R)
			if !okA || !okB {
				continue
			}
			before := func(x ssa.Instruction) bool { return ir.Dominates(x, flush) }
			after := func(x ssa.Instruction) bool { return ir.Dominates(flush, x) }
			if (before(a) && after(b)) || (before(b) && after(a)) {
				guarded = true
			}
		}
		h.Verdict(guarded, rule, name, h.pos(w.Instr), "under a mutex ("+ir.HeldString(held)+") and a comparison with the state captured before the flush",
			"the store is under the mutex but not conditioned on the log being untouched since the offset was read: a truncation during the flush is overwritten")
		// the compared state is only changed under the same mutex
		if guarded {
			for _, c := range ir.CmpGuards(w.Instr) {
				for _, side := range []ssa.Value{c.L, c.R} {
					in, ok := isState(side)
					if !ok || !ir.Dominates(flush, in) {
						continue
					}
					var ref ir.FieldRef
					if r, ok := ir.FieldLoadOf(ir.Canon(side)); ok {
						ref = r
					} else if call, ok := ir.Canon(side).(*ssa.Call); ok && len(call.Call.Args) == 1 {
						ref, _ = ir.FieldAddrOf(call.Call.Args[0])
					}
					if ref.Struct == nil {
						continue
					}
					for _, sw := range h.P.FieldWrites("server/wal", tn, ref.Field) {
						if sw.Kind == "literal" {
							continue
						}
						same := false
						for l := range ir.HeldAt(sw.Fn)[sw.Instr] {
							if held[l] {
								same = true
							}
						}
						h.Verdict(same, rule, "guard state "+ref.Field+" changed in "+ir.FuncName(sw.Fn), h.pos(sw.Instr), "under the mutex of the publication",
							"the state the publication compares is changed without the mutex the publication holds: check and store are not atomic with respect to a truncation")
					}
				}
			}
		}
	}
	if n == 0 {
		h.Anchor(rule, "a store of "+tn+".lastSyncedOffset after ReadWriteSegment.Flush")
	}
}

// ruleSyncLoopAvoidsProducersMutex (R09p): appenders enqueue their sync request on a
// bounded channel while holding the WAL mutex. The sync loop — the only consumer of that
// channel — may therefore take that mutex only right after it drained the channel; taking it
// after the (slow) flush, when the channel may have filled up again, deadlocks the log: the
// appender waits for room in the channel, the sync loop for the mutex.
func ruleSyncLoopAvoidsProducersMutex(h *H, rule string) {
	h.Rule(rule, "K2", "in the WAL's sync loop no mutex that a producer of the sync-request channel may hold while sending is acquired on a path from the segment flush that does not first receive from that channel", 1)
	wt := h.implType(rule, "server/wal", "Wal")
	if wt == nil {
		return
	}
	tn := wt.Obj().Name()
	isReqChan := func(v ssa.Value) bool {
		r, ok := ir.FieldLoadOf(ir.Canon(v))
		if !ok || r.Struct == nil || r.Struct.Obj().Name() != tn {
			return false
		}
		ch, ok := v.Type().Underlying().(*types.Chan)
		if !ok {
			return false
		}
		_, isFunc := ch.Elem().Underlying().(*types.Signature)
		return isFunc
	}
	receives := func(in ssa.Instruction) bool {
		switch x := in.(type) {
		case *ssa.UnOp:
			return x.Op == token.ARROW && isReqChan(x.X)
		case *ssa.Select:
			for _, st := range x.States {
				if st.Dir == types.RecvOnly && isReqChan(st.Chan) {
					return true
				}
			}
		}
		return false
	}
	clean := func(l string) string { return strings.TrimPrefix(l, "R:") }
	mayHeld := map[string]bool{}
	var consumers []*ssa.Function
	drains := map[*ssa.Function]bool{}
	for _, fn := range h.P.Funcs {
		if ir.RelPkg(ir.PkgPathOf(fn)) != "server/wal" || fn.Blocks == nil {
			continue
		}
		hasRecv := false
		ir.Instrs(fn, func(in ssa.Instruction) {
			if receives(in) {
				hasRecv = true
			}
			sends := false
			switch x := in.(type) {
			case *ssa.Send:
				sends = isReqChan(x.Chan)
			case *ssa.Select:
				for _, st := range x.States {
					if st.Dir == types.SendOnly && isReqChan(st.Chan) {
						sends = true
					}
				}
			}
			if !sends {
				return
			}
			for l := range ir.HeldAtFrom(fn, nil)[in] {
				mayHeld[clean(l)] = true
			}
			// callers (two levels) that hold a lock over the call
			level := []*ssa.Function{fn}
			for d := 0; d < 2; d++ {
				var next []*ssa.Function
				for _, g := range level {
					for _, site := range ir.StaticCallSites(g) {
						for l := range ir.HeldAtFrom(site.Parent(), nil)[site] {
							mayHeld[clean(l)] = true
						}
						next = append(next, site.Parent())
					}
				}
				level = next
			}
		})
		if hasRecv {
			drains[fn] = true
			if ok, _ := h.P.StaticReaches(fn, h.P.MatchPred(segFlush)); ok {
				consumers = append(consumers, fn)
			}
		}
	}
	if len(consumers) == 0 {
		h.Anchor(rule, "the function of server/wal that receives from the sync-request channel and flushes the segment")
		return
	}
	for _, fn := range consumers {
		h.Fn(ir.FuncName(fn))
		drained := func(in ssa.Instruction) bool {
			if receives(in) {
				return true
			}
			if c := ir.CallOf(in); c != nil {
				if g := c.StaticCallee(); g != nil && drains[g] {
					return true
				}
			}
			return false
		}
		// the loop body may be spread over extracted helpers: a call to a helper that flushes
		// (takes a producers' mutex) counts as a flush (an acquisition) at the call site, and the
		// helper's own body is checked for an acquisition after its flush
		region := helperFuncs(fn)
		inRegion := map[*ssa.Function]bool{}
		for _, g := range region {
			inRegion[g] = true
		}
		locksIn := map[*ssa.Function]string{}
		for _, g := range region {
			for _, o := range ir.LockOps(g) {
				if (o.Op == "Lock" || o.Op == "RLock") && mayHeld[clean(o.Lock)] {
					locksIn[g] = o.Lock
				}
			}
		}
		flushEv := func(g *ssa.Function) []ssa.Instruction {
			var out []ssa.Instruction
			ir.Instrs(g, func(in ssa.Instruction) {
				c := ir.CallOf(in)
				if c == nil {
					return
				}
				if h.P.Matches(c, segFlush) {
					out = append(out, in)
				} else if callee := c.StaticCallee(); callee != nil && callee != g && inRegion[callee] {
					if ok, _ := h.P.StaticReaches(callee, h.P.MatchPred(segFlush)); ok || len(h.P.CallsIn(callee, segFlush)) > 0 {
						out = append(out, in)
					}
				}
			})
			return out
		}
		type lockEvent struct {
			in   ssa.Instruction
			lock string
		}
		lockEv := func(g *ssa.Function) []lockEvent {
			var out []lockEvent
			for _, o := range ir.LockOps(g) {
				if (o.Op == "Lock" || o.Op == "RLock") && mayHeld[clean(o.Lock)] {
					out = append(out, lockEvent{o.Instr, o.Lock})
				}
			}
			ir.Instrs(g, func(in ssa.Instruction) {
				if c := ir.CallOf(in); c != nil {
					if callee := c.StaticCallee(); callee != nil && callee != g && inRegion[callee] && locksIn[callee] != "" {
						out = append(out, lockEvent{in, locksIn[callee]})
					}
				}
			})
			return out
		}
		bad := false
		for _, g := range region {
			for _, f := range flushEv(g) {
				for _, l := range lockEv(g) {
					if r, path := ir.Reach(ir.Search{From: f, Barrier: drained}, ir.Is(l.in)); r {
						bad = true
						h.Bad(rule, "mutex taken after the flush in "+ir.FuncName(g), h.pos(l.in), "the sync loop acquires "+l.lock+" after the flush without having received from the request channel: an appender that holds this mutex while waiting for room in the (bounded) channel and the sync loop wait for each other — the log stops", witness(path))
					}
				}
			}
		}
		if !bad {
			var names []string
			for l := range mayHeld {
				names = append(names, l)
			}
			sortStrings(names)
			h.OK(rule, "mutexes of the producers in "+ir.FuncName(fn), h.P.Pos(fn.Pos()), "producers may hold ["+strings.Join(names, ", ")+"]; the loop takes them only right after receiving from the channel")
		}
	}
}

// ruleFilterSetDoesNotGrow (R19i): every label of every anti-affinity rule narrows the set
// of eligible servers. Growing the running set in place (`Add`) inside the loops is only
// an initialisation when it happens for the very first label; guarded by the index of the
// outer (rule) loop alone it happens for every label of the first rule, which turns "differs
// in region AND in zone" into "differs in region OR in zone".
func ruleFilterSetDoesNotGrow(h *H, rule string) {
	h.Rule(rule, "K9", "inside the loops of the anti-affinity filter the running set of eligible servers is never grown in place, except under a boolean first-iteration flag carried by the innermost loop", 1)
	n := 0
	for _, w := range h.P.FieldWrites("coordinator/selectors/single", "Context", "Candidates") {
		if ir.RelPkg(ir.PkgPathOf(w.Fn)) != "coordinator/selectors/single" || w.Val == nil {
			continue
		}
		if call, ok := ir.Canon(w.Val).(*ssa.Call); ok && isSetMethod(call.Common(), "Difference") {
			continue
		}
		fn := w.Fn
		// the running set: what is stored into Context.Candidates at the end, its phi web and the fresh set it starts from
		running := map[ssa.Value]bool{}
		var walk func(v ssa.Value, d int)
		walk = func(v ssa.Value, d int) {
			c := ir.Canon(v)
			if running[c] || d > 8 {
				return
			}
			running[c] = true
			if p, ok := c.(*ssa.Phi); ok {
				for _, e := range p.Edges {
					walk(e, d+1)
				}
			}
		}
		walk(w.Val, 0)
		n++
		h.Fn(ir.FuncName(fn))
		adds, bad := 0, false
		ir.Instrs(fn, func(in ssa.Instruction) {
			c := ir.CallOf(in)
			if c == nil || !isSetMethod(c, "Add") || len(c.Args) == 0 || !running[ir.Canon(c.Args[0])] {
				return
			}
			hd := ir.EnclosingLoopHeader(in.Block())
			if hd == nil {
				return
			}
			// a set created inside the loops is the per-label set being filled, not the running one
			if rc, isCall := ir.Canon(c.Args[0]).(*ssa.Call); isCall && ir.EnclosingLoopHeader(rc.Block()) != nil {
				return
			}
			adds++
			ok := false
			for _, g := range ir.Guards(in) {
				cond := g.Cond
				for {
					u, isU := cond.(*ssa.UnOp)
					if !isU || u.Op != token.NOT {
						break
					}
					cond = u.X
				}
				if p, isPhi := cond.(*ssa.Phi); isPhi && p.Block() == hd {
					if b, isB := p.Type().Underlying().(*types.Basic); isB && b.Kind() == types.Bool {
						ok = true
					}
				}
			}
			if !ok {
				bad = true
				h.Bad(rule, "running set grown in place in "+ir.FuncName(fn), h.pos(in), "servers are added to the running set of eligible servers inside the loop over labels without a first-iteration flag of that loop: a server that passes one label of a rule stays eligible although it fails another label of the same rule, so a Strict rule over several labels is not enforced")
			}
		})
		if !bad {
			h.OK(rule, "running set of the anti-affinity filter in "+ir.FuncName(fn), h.pos(w.Instr), fmt.Sprintf("%d in-place additions inside the loops, all under a first-iteration flag", adds))
		}
	}
	if n == 0 {
		h.Anchor(rule, "the running result set of the anti-affinity filter")
	}
}
