package props

import (
	"fmt"
	"go/token"
	"go/types"
	"strings"

	"golang.org/x/tools/go/ssa"

	"oxiaverif/internal/chk"
	"oxiaverif/internal/ir"
)

func init() { register("C16", checkC16) }

var (
	batchFindLower = ir.Callee{Pkg: "server/kv", Recv: "WriteBatch", Name: "FindLower"}
	seqUpdated     = ir.Callee{Pkg: "server/kv", Recv: "SequenceWaiterTracker", Name: "SequenceUpdated"}
	seqAddWaiter   = ir.Callee{Pkg: "server/kv", Recv: "SequenceWaiterTracker", Name: "AddSequenceWaiter"}
)

func checkC16(c *chk.Ctx) {
	h := newH(c)
	c.Decided = []string{
		"R16j the client delivers every non-empty sequence key it receives (no filtering against earlier keys)",
		"R16i the suffixes of the current last key are only taken from a key that was tested to carry the request's prefix (the reverse lookup returns the greatest lower key of the whole shard, which may belong to another prefix)",
		"R16a the current highest key of the prefix is looked up in the request's batch (WriteBatch.FindLower) on every path of the key generation; the generation reads no state of the db object",
		"R16b a first delta of zero is rejected before a key is built",
		"R16c subscribers are only notified with a key whose generation succeeded (and, open finding F8b, should only be notified once the batch is committed)",
		"R16d a subscriber is registered before the current last key is read (no lost wake-up)",
		"R16h the client's sequence-updates request (like every client request with a shard field) names the shard that was resolved for the partition key (shared with C18)",
		"R16g a sequence subscriber is registered under an id taken from a monotonic generator, so that a new subscriber can never replace one that is still open",
		"R16f every upper bound of a sequence lookup (key generation and subscriber's initial read) is built from the maximum of the suffix type (MaxUint64): no generated key can lie above the bound",
	}
	c.NotDec = []string{
		"the suffix arithmetic (overflow of last+delta, %020d width) and 'strictly greater than every existing key' under the slash order",
		"eventual delivery through the latest-value channel (interleavings with the receiver)",
	}
	ruleR16a(h)
	ruleR16b(h)
	ruleR16c(h)
	ruleR16d(h)
	ruleR16f(h)
	ruleR16g(h)
	ruleClientRequestsCarryShard(h, "R16h")
	ruleSequenceUpdatesDelivered(h, "R16j")
	ruleR16i(h)
}

func sequenceLookupFns(h *H) []*ssa.Function {
	var out []*ssa.Function
	seen := map[*ssa.Function]bool{}
	for _, s := range h.P.AllCalls(ir.InPkg("server/kv"), batchFindLower) {
		if !seen[s.Fn] {
			seen[s.Fn] = true
			out = append(out, s.Fn)
		}
	}
	return out
}

func ruleR16a(h *H) {
	const rule = "R16a"
	h.Rule(rule, "K1/K9", "every successful return of the function that determines the current last key of a sequence passes through WriteBatch.FindLower; nothing reachable from the key generation reads a field of the db object", 2)
	fns := sequenceLookupFns(h)
	if len(fns) == 0 {
		h.Anchor(rule, "the function calling WriteBatch.FindLower")
		return
	}
	for _, fn := range fns {
		h.Fn(ir.FuncName(fn))
		calls := toInstrs(h.P.CallsIn(fn, batchFindLower))
		isLookup := ir.AnyOf(calls...)
		bad := ""
		var w []int
		ir.Instrs(fn, func(in ssa.Instruction) {
			ret, ok := in.(*ssa.Return)
			if !ok || bad != "" || in.Block() == fn.Recover || !returnErrMayBeNil(ret) {
				return
			}
			if r, path := ir.Reach(ir.Search{Fn: fn, Barrier: isLookup}, ir.Is(in)); r {
				bad = "the last key of the sequence can be determined without looking it up in the request's batch (a cached / remembered value is not invalidated by deletes and differs between replicas)"
				w = path
			}
		})
		h.Verdict(bad == "", rule, "sequence lookup in "+ir.FuncName(fn), h.P.Pos(fn.Pos()), "every successful path calls WriteBatch.FindLower", bad, witness(w))
	}
	// the generation closure reads no db field: start from the callers of the lookup functions inside server/kv
	roots := map[*ssa.Function]bool{}
	for _, fn := range fns {
		roots[fn] = true
		for _, e := range h.P.CallersOf(fn) {
			if e.Caller.Func.Signature.Recv() == nil && ir.RelPkg(ir.PkgPathOf(e.Caller.Func)) == "server/kv" {
				roots[e.Caller.Func] = true
			}
		}
	}
	var rs []*ssa.Function
	for f := range roots {
		rs = append(rs, f)
	}
	cl := h.P.Closure(rs, applyDescend)
	bad := 0
	dbt := "db"
	for _, r := range applyRoots(h, rule) {
		if r.Signature.Recv() != nil {
			dbt = namedName(r.Signature.Recv().Type())
		}
	}
	for f := range cl {
		if f.Blocks == nil || ir.RelPkg(ir.PkgPathOf(f)) != "server/kv" {
			continue
		}
		ir.Instrs(f, func(in ssa.Instruction) {
			fa, ok := in.(*ssa.FieldAddr)
			if !ok {
				return
			}
			ref, ok := ir.FieldAddrOf(fa)
			if ok && ref.Struct != nil && ref.Struct.Obj().Name() == dbt && ir.RelPkg(ref.Struct.Obj().Pkg().Path()) == "server/kv" {
				bad++
				h.Bad(rule, "db state read by the key generation in "+ir.FuncName(f), h.pos(in), "the sequence key generation reads db."+ref.Field+": it must be a function of the batch and the request only")
			}
		})
	}
	// parameters: the generator takes only the batch and the request
	for f := range roots {
		extra := ""
		for pi, p := range f.Params {
			if ir.TypeIs(p.Type(), "server/kv", "WriteBatch") || ir.TypeIs(p.Type(), "proto", "PutRequest") {
				continue
			}
			// a part of the request handed in separately (its key, the number of its
			// deltas): every static caller must take it from a PutRequest and nothing else
			fromRequest := len(ir.StaticCallSites(f)) > 0
			for _, cs := range ir.StaticCallSites(f) {
				if pi >= len(cs.Common().Args) {
					fromRequest = false
					continue
				}
				a := cs.Common().Args[pi]
				reqOnly := ir.DependsOn(a, func(v ssa.Value) bool {
					r, ok := ir.FieldLoadOf(ir.Canon(v))
					return ok && r.Struct != nil && r.Struct.Obj().Name() == "PutRequest"
				}) && !ir.DependsOn(a, func(v ssa.Value) bool {
					r, ok := ir.FieldLoadOf(ir.Canon(v))
					return ok && r.Struct != nil && r.Struct.Obj().Pkg() != nil && ir.RelPkg(r.Struct.Obj().Pkg().Path()) == "server/kv"
				})
				if !reqOnly {
					fromRequest = false
				}
			}
			if !fromRequest {
				extra = p.Name() + " " + p.Type().String()
			}
		}
		if extra != "" {
			bad++
			h.Bad(rule, "inputs of "+ir.FuncName(f), h.P.Pos(f.Pos()), "the sequence key generation takes an input besides the batch and the request ("+extra+"): state remembered outside the replicated store can leak into the generated key")
		}
	}
	if bad == 0 {
		h.OK(rule, "inputs of the key generation", "", fmt.Sprintf("%d function(s): batch and request only, no db field", len(cl)))
	}
}

func ruleR16b(h *H) {
	const rule = "R16b"
	h.Rule(rule, "K1", "in the key generation, the construction of the new key is only reached when the first delta is non-zero (idx != 0 or delta != 0 established)", 1)
	n := 0
	// the generating function: the one that looks the current last key up, or its caller
	// (the lookup is usually a helper of the generation)
	var cands []*ssa.Function
	seenC := map[*ssa.Function]bool{}
	for _, lookup := range sequenceLookupFns(h) {
		if !seenC[lookup] {
			seenC[lookup] = true
			cands = append(cands, lookup)
		}
		for _, e := range h.P.CallersOf(lookup) {
			if !seenC[e.Caller.Func] {
				seenC[e.Caller.Func] = true
				cands = append(cands, e.Caller.Func)
			}
		}
	}
	{
		for _, fn := range cands {
			if ir.RelPkg(ir.PkgPathOf(fn)) != "server/kv" {
				continue
			}
			// key construction: Sprintf inside a loop over request.SequenceKeyDelta
			var builds []ssa.Instruction
			var deltaElems []ssa.Value
			// the key handed out on success is carried around the loop: its in-loop definitions
			// are the construction steps (Sprintf or an extracted formatting helper)
			seenB := map[ssa.Instruction]bool{}
			ir.Instrs(fn, func(in ssa.Instruction) {
				ret, isRet := in.(*ssa.Return)
				if !isRet || len(ret.Results) != 2 || !returnErrMayBeNil(ret) {
					return
				}
				var walk func(v ssa.Value, d int)
				seenP := map[*ssa.Phi]bool{}
				walk = func(v ssa.Value, d int) {
					c := ir.Canon(v)
					if phi, ok := c.(*ssa.Phi); ok {
						if seenP[phi] || d > 6 {
							return
						}
						seenP[phi] = true
						for _, e := range phi.Edges {
							walk(e, d+1)
						}
						return
					}
					if call, ok := c.(*ssa.Call); ok && inLoopBlock(call.Block()) && !seenB[call] {
						seenB[call] = true
						builds = append(builds, call)
					}
				}
				walk(ir.ReturnValues(ret)[0], 0)
			})
			ir.Instrs(fn, func(in ssa.Instruction) {
				if u, ok := in.(*ssa.UnOp); ok && u.Op == token.MUL {
					if ia, ok := u.X.(*ssa.IndexAddr); ok && isMsgField(ia.X, "PutRequest", "SequenceKeyDelta") {
						deltaElems = append(deltaElems, u)
					}
				}
			})
			if len(builds) == 0 && len(deltaElems) > 0 {
				// the key is accumulated in a builder: the in-loop formatting calls are the construction steps
				ir.Instrs(fn, func(in ssa.Instruction) {
					call, ok := in.(*ssa.Call)
					if !ok || !inLoopBlock(call.Block()) {
						return
					}
					if f := call.Call.StaticCallee(); f != nil && f.Pkg != nil && (f.Pkg.Pkg.Path() == "fmt" || f.Pkg.Pkg.Path() == "strconv") {
						builds = append(builds, call)
					}
				})
			}
			if len(builds) == 0 || len(deltaElems) == 0 {
				continue
			}
			n++
			h.Fn(ir.FuncName(fn))
			isDelta := func(v ssa.Value) bool {
				for _, d := range deltaElems {
					if ir.Canon(v) == d || v == d {
						return true
					}
				}
				return false
			}
			edges := ir.EdgesWhere(fn, func(c ir.Cmp) bool {
				// no deltas at all: there is no first delta (the loop body cannot run)
				if (c.Op == token.LEQ || c.Op == token.EQL) && isZero(c.R) {
					if lc, ok := ir.Canon(c.L).(*ssa.Call); ok {
						if b, isB := lc.Call.Value.(*ssa.Builtin); isB && b.Name() == "len" && isMsgField(lc.Call.Args[0], "PutRequest", "SequenceKeyDelta") {
							return true
						}
					}
				}
				if c.Op != token.NEQ && c.Op != token.GTR {
					return false
				}
				if !isZero(c.R) {
					return false
				}
				if isDelta(c.L) {
					return true
				}
				// the loop index
				if phi, ok := c.L.(*ssa.Phi); ok && inLoopBlock(phi.Block()) {
					return true
				}
				if bo, ok := c.L.(*ssa.BinOp); ok && bo.Op == token.ADD {
					return true
				}
				return false
			})
			for i, b := range builds {
				ok, path := ir.MustPassEdge(fn, nil, b, edges, nil)
				h.Verdict(ok && len(edges) > 0, rule, fmt.Sprintf("key construction #%d in %s", i+1, ir.FuncName(fn)), h.pos(b), "only after idx != 0 or delta != 0", "a new sequence key can be built although the first delta is zero: the key is not strictly greater than the existing ones (an existing record would be overwritten)", witness(path))
			}
		}
	}
	if n == 0 {
		h.Anchor(rule, "the key construction loop over request.SequenceKeyDelta")
	}
}

func inLoopBlock(b *ssa.BasicBlock) bool {
	// b lies on a cycle
	for _, s := range b.Succs {
		if s == b {
			return true
		}
		if r, _ := ir.Reach(ir.Search{FromBlock: s}, func(in ssa.Instruction) bool { return in.Block() == b }); r {
			return true
		}
	}
	return false
}

func ruleR16c(h *H) {
	const rule = "R16c"
	h.Rule(rule, "K1", "SequenceUpdated is called with the key returned by a successful generation; and (commit clause) only once the batch holding that key is committed", 2)
	n := 0
	for _, s := range h.P.AllCalls(ir.InPkg("server/kv"), seqUpdated) {
		n++
		h.Fn(ir.FuncName(s.Fn))
		key := argOf(s.Call.Common(), 1)
		ok := false
		why := "the notified key is not the result of the key generation"
		if ex, isEx := ir.Canon(key).(*ssa.Extract); isEx {
			if gen, isCall := ex.Tuple.(*ssa.Call); isCall {
				if sd, w, _ := ir.SuccessDominated(gen, s.Call); sd {
					ok = true
				} else {
					why = "subscribers are notified although the key generation failed (they receive an empty / bogus key): " + w
				}
			}
		} else if al, isCell := keyCell(key); isCell {
			// the key variable is a cell assigned from the generation: find that store
			for _, st := range ir.AllStores(al) {
				if ex, isEx := st.Val.(*ssa.Extract); isEx {
					if gen, isCall := ex.Tuple.(*ssa.Call); isCall && gen.Parent() == s.Fn {
						if sd, w, _ := ir.SuccessDominated(gen, s.Call); sd {
							ok = true
						} else {
							why = "subscribers are notified although the key generation failed (they receive an empty / bogus key): " + w
						}
					}
				}
			}
		}
		h.Verdict(ok, rule, fmt.Sprintf("sequence notification #%d after successful generation", n), h.pos(s.Call), "success-dominated by the generation", why)
		// commit clause: is this call reachable from ProcessWrite before the commit?
		beforeCommit := false
		for _, root := range applyRoots(h, rule) {
			cl := h.P.Closure([]*ssa.Function{root}, applyDescend)
			if _, in := cl[s.Fn]; in && s.Fn != root {
				beforeCommit = true
			}
			if s.Fn == root {
				for _, cm := range h.P.CallsIn(root, batchCommit) {
					if sd, _, _ := ir.SuccessDominated(cm, s.Call); !sd {
						beforeCommit = true
					}
				}
			}
		}
		h.Verdict(!beforeCommit, rule, fmt.Sprintf("sequence notification #%d after commit", n), h.pos(s.Call), "notified after the batch is committed",
			"subscribers are notified while the batch is still being built, before Commit: the key may never be committed, and a subscriber that registers between the notification and the commit reads the old last key and misses the new one")
	}
	if n == 0 {
		h.Anchor(rule, "call of SequenceWaiterTracker.SequenceUpdated in server/kv")
	}
}

func keyCell(v ssa.Value) (*ssa.Alloc, bool) {
	u, ok := v.(*ssa.UnOp)
	if !ok || u.Op != token.MUL {
		return nil, false
	}
	al, ok := u.X.(*ssa.Alloc)
	return al, ok
}

func ruleR16d(h *H) {
	const rule = "R16d"
	h.Rule(rule, "K1", "GetSequenceUpdates registers the waiter before it reads the current last key from the KV", 1)
	for _, fn := range h.P.ImplMethods("server/kv", "DB", "GetSequenceUpdates") {
		h.Fn(ir.FuncName(fn))
		adds := h.P.CallsIn(fn, seqAddWaiter)
		if len(adds) == 0 {
			h.Anchor(rule, "AddSequenceWaiter call in "+ir.FuncName(fn))
			continue
		}
		ok := true
		n := 0
		ir.Instrs(fn, func(in ssa.Instruction) {
			c := ir.CallOf(in)
			if c == nil || !c.IsInvoke() || !ir.TypeIs(c.Value.Type(), "server/kv", "KV") {
				return
			}
			n++
			for _, a := range adds {
				if !ir.Dominates(a, in) {
					ok = false
				}
			}
		})
		h.Verdict(ok && n > 0, rule, "waiter registered before the read in "+ir.FuncName(fn), h.pos(adds[0]), "AddSequenceWaiter dominates the KV read", "the current last key is read before the waiter is registered: a key generated in between is neither in the read nor delivered as an update (lost wake-up)")
	}
}

// ruleR16f: the key generation looks the highest existing key up strictly below
// "<prefix>-<bound>", the subscriber's initial read scans up to such a bound. Suffixes are
// uint64 values, so the bound must be the maximum uint64: with any smaller constant, a
// sequence that passed it is no longer seen (keys are regenerated from a lower one and
// overwrite records; a new subscriber does not observe the latest key).
func ruleR16f(h *H) {
	const rule = "R16f"
	h.Rule(rule, "K7", "the numeric part of every sequence-lookup upper bound (WriteBatch.FindLower argument in the generation, upper bound of the reverse scan in GetSequenceUpdates) is the constant MaxUint64", 2)
	type site struct {
		name string
		in   ssa.Instruction
		v    ssa.Value
	}
	var sites []site
	for _, fn := range sequenceLookupFns(h) {
		for i, c := range h.P.CallsIn(fn, batchFindLower) {
			sites = append(sites, site{fmt.Sprintf("generation lookup bound #%d in %s", i+1, ir.FuncName(fn)), c, argOf(c.Common(), 0)})
		}
	}
	for _, fn := range h.P.ImplMethods("server/kv", "DB", "GetSequenceUpdates") {
		n := 0
		ir.Instrs(fn, func(in ssa.Instruction) {
			c := ir.CallOf(in)
			if c == nil || !c.IsInvoke() || !ir.TypeIs(c.Value.Type(), "server/kv", "KV") || len(c.Args) != 2 {
				return
			}
			n++
			sites = append(sites, site{fmt.Sprintf("subscriber initial read bound #%d in %s", n, ir.FuncName(fn)), in, c.Args[1]})
		})
	}
	if len(sites) < 2 {
		h.Anchor(rule, "the sequence lookup bounds (FindLower argument, GetSequenceUpdates scan)")
		return
	}
	for _, s := range sites {
		v, bind := throughHelperResult(s.v)
		parts, ok := ir.SymString(v)
		if !ok || len(parts) == 0 {
			h.Unknown(rule, s.name, h.pos(s.in), "cannot evaluate the bound symbolically")
			continue
		}
		last := parts[len(parts)-1]
		if last.Val == nil {
			h.Unknown(rule, s.name, h.pos(s.in), fmt.Sprintf("the bound ends in the literal %q: cannot relate it to the suffix range", last.Lit))
			continue
		}
		lv := last.Val
		for {
			if mi, isMI := lv.(*ssa.MakeInterface); isMI {
				lv = mi.X
				continue
			}
			break
		}
		k, isK := stripConv(ir.Canon(bind(stripConv(ir.Canon(lv))))).(*ssa.Const)
		if !isK || k.Value == nil {
			h.Unknown(rule, s.name, h.pos(s.in), "the numeric part of the bound is not a constant: "+ir.Describe(lv))
			continue
		}
		h.Verdict(k.Uint64() == ^uint64(0) && k.Value.ExactString() == "18446744073709551615", rule, s.name, h.pos(s.in), "bound = MaxUint64, the maximum suffix",
			"the bound's numeric part is "+k.Value.ExactString()+", below the largest suffix a sequence can reach (uint64): once a sequence passes it the lookup no longer sees the highest existing key")
	}
}

// throughHelperResult follows a value that is the (i-th) result of a repository helper
// with a single return statement to the returned expression; bind maps a parameter of
// that helper to the argument of this very call (context of the call at hand).
func throughHelperResult(v ssa.Value) (ssa.Value, func(ssa.Value) ssa.Value) {
	ident := func(x ssa.Value) ssa.Value { return x }
	idx := 0
	c := ir.Canon(v)
	if ex, ok := c.(*ssa.Extract); ok {
		idx = ex.Index
		c = ex.Tuple
	}
	call, ok := c.(*ssa.Call)
	if !ok {
		return v, ident
	}
	f := call.Call.StaticCallee()
	if f == nil || f.Blocks == nil || !ir.InRepo(f) {
		return v, ident
	}
	var rets []*ssa.Return
	ir.Instrs(f, func(in ssa.Instruction) {
		if r, ok := in.(*ssa.Return); ok {
			rets = append(rets, r)
		}
	})
	if len(rets) != 1 || idx >= len(rets[0].Results) {
		return v, ident
	}
	bind := func(x ssa.Value) ssa.Value {
		if p, ok := x.(*ssa.Parameter); ok && p.Parent() == f {
			for i, fp := range f.Params {
				if fp == p && i < len(call.Call.Args) {
					return call.Call.Args[i]
				}
			}
		}
		return x
	}
	return rets[0].Results[idx], bind
}

// ruleR16g: subscribers of a prefix are kept in a map keyed by an id. The id must come
// from a monotonic generator (atomic Add): an id derived from the current size of the map
// is reused after another subscriber closed, the new subscriber then silently replaces
// one that is still open, which never sees another update.
func ruleR16g(h *H) {
	const rule = "R16g"
	h.Rule(rule, "K3", "every insertion of a sequence waiter into the tracker's map uses a key derived from an atomic Add on a generator field", 1)
	n := 0
	for _, t := range h.P.Impls("server/kv", "SequenceWaiterTracker") {
		for _, fn := range h.P.Funcs {
			if fn.Signature.Recv() == nil || !ir.TypeIs(fn.Signature.Recv().Type(), "server/kv", t.Obj().Name()) {
				continue
			}
			ir.Instrs(fn, func(in ssa.Instruction) {
				mu, ok := in.(*ssa.MapUpdate)
				if !ok {
					return
				}
				mt, ok := mu.Map.Type().Underlying().(*types.Map)
				if !ok {
					return
				}
				if _, isPtr := mt.Elem().Underlying().(*types.Pointer); !isPtr {
					return // the outer map prefix -> inner map
				}
				n++
				h.Fn(ir.FuncName(fn))
				fresh := ir.DependsOn(mu.Key, func(x ssa.Value) bool {
					c, ok := x.(*ssa.Call)
					if !ok {
						return false
					}
					f := c.Call.StaticCallee()
					return f != nil && f.Pkg != nil && f.Pkg.Pkg.Path() == "sync/atomic" && f.Name() == "Add"
				})
				h.Verdict(fresh, rule, fmt.Sprintf("waiter registration #%d in %s", n, ir.FuncName(fn)), h.pos(in), "keyed by an id from a monotonic generator",
					"the waiter is registered under "+ir.Describe(mu.Key)+", which is not taken from a monotonic generator: an id can be handed out again while its previous holder is still open, and that subscriber is replaced and never notified again")
			})
		}
	}
	if n == 0 {
		h.Anchor(rule, "insertion of a waiter into the SequenceWaiterTracker implementation's map")
	}
}

// ruleR16i: FindLower(prefix-MAX) returns the greatest key below the bound in the whole
// batch/store, not only among the keys of the prefix. When the prefix has no key yet, that
// neighbour belongs to someone else; its "-"-separated parts must not be taken for the
// current suffixes of this sequence.
func ruleR16i(h *H) {
	const rule = "R16i"
	h.Rule(rule, "K1", "in the sequence lookup, what is split into suffixes derives from the looked-up key only on paths where strings.HasPrefix(key, prefix) / the found result of strings.CutPrefix held", 1)
	findLower := ir.Callee{Pkg: "server/kv", Recv: "WriteBatch", Name: "FindLower"}
	n := 0
	for _, fn := range h.P.Funcs {
		if ir.RelPkg(ir.PkgPathOf(fn)) != "server/kv" || len(h.P.CallsIn(fn, findLower)) == 0 {
			continue
		}
		lookups := h.P.CallsIn(fn, findLower)
		fromLookup := func(v ssa.Value) bool {
			for _, l := range lookups {
				if ex, ok := v.(*ssa.Extract); ok && ex.Tuple == l.Value() && ex.Index == 0 {
					return true
				}
			}
			return false
		}
		var condIsPrefixTest func(cond ssa.Value, taken bool) bool
		edgeTested := func(from, to *ssa.BasicBlock) bool {
			if len(from.Instrs) == 0 || len(from.Succs) != 2 {
				return false
			}
			iff, ok := from.Instrs[len(from.Instrs)-1].(*ssa.If)
			if !ok {
				return false
			}
			return condIsPrefixTest(iff.Cond, from.Succs[0] == to)
		}
		prefixTested := func(b *ssa.BasicBlock) bool {
			for _, g := range ir.BlockGuards(b) {
				if condIsPrefixTest(g.Cond, g.Taken) {
					return true
				}
			}
			return false
		}
		condIsPrefixTest = func(cond ssa.Value, taken bool) bool {
			{
				g := struct {
					Cond  ssa.Value
					Taken bool
				}{cond, taken}
				cond, taken := g.Cond, g.Taken
				for {
					if u, ok := cond.(*ssa.UnOp); ok && u.Op == token.NOT {
						cond, taken = u.X, !taken
						continue
					}
					break
				}
				if !taken {
					return false
				}
				if c, ok := cond.(*ssa.Call); ok {
					if f := c.Call.StaticCallee(); f != nil && f.Pkg != nil && f.Pkg.Pkg.Path() == "strings" && f.Name() == "HasPrefix" && ir.DependsOn(c.Call.Args[0], fromLookup) {
						return true
					}
				}
				if ex, ok := cond.(*ssa.Extract); ok && ex.Index == 1 {
					if c, isCall := ex.Tuple.(*ssa.Call); isCall {
						if f := c.Call.StaticCallee(); f != nil && f.Pkg != nil && f.Pkg.Pkg.Path() == "strings" && f.Name() == "CutPrefix" && ir.DependsOn(c.Call.Args[0], fromLookup) {
							return true
						}
					}
				}
			}
			return false
		}
		ir.Instrs(fn, func(in ssa.Instruction) {
			c := ir.CallOf(in)
			if c == nil {
				return
			}
			f := c.StaticCallee()
			if f == nil || f.Pkg == nil || f.Pkg.Pkg.Path() != "strings" || !strings.HasPrefix(f.Name(), "Split") || len(c.Args) == 0 {
				return
			}
			if !ir.DependsOn(c.Args[0], fromLookup) {
				return
			}
			n++
			h.Fn(ir.FuncName(fn))
			ok := true
			arg := c.Args[0]
			if phi, isPhi := arg.(*ssa.Phi); isPhi {
				for i, e := range phi.Edges {
					if !ir.DependsOn(e, fromLookup) {
						continue
					}
					pred := phi.Block().Preds[i]
					tested := prefixTested(pred) || edgeTested(pred, phi.Block())
					if ei, isI := e.(ssa.Instruction); isI && ei.Block() != nil && prefixTested(ei.Block()) {
						tested = true
					}
					if !tested {
						ok = false
					}
				}
			} else if !prefixTested(in.Block()) {
				ok = false
			}
			h.Verdict(ok, rule, "suffixes of the looked-up key in "+ir.FuncName(fn), h.pos(in), "only from a key that carries the prefix", "the parts of the looked-up key are used as the sequence's current suffixes without testing that the key carries the request's prefix: when the prefix has no key yet, the greatest lower key of another prefix (or any user key with a '-') seeds the new sequence, so its first key is not zero + deltas")
		})
	}
	if n == 0 {
		h.Anchor(rule, "the split of the key returned by WriteBatch.FindLower in server/kv")
	}
}
