package props

import "oxiaverif/internal/chk"

func init() {
	register("C00", func(c *chk.Ctx) {
		c.Rule("R00", "K0", "smoke", 0)
	})
}
