package props

import (
	"go/token"
	"go/types"
	"strings"

	"golang.org/x/tools/go/ssa"

	"oxiaverif/internal/ir"
)

// Field roles. A few rules refer to unexported fields by the name they have in the tree the
// rules were written against. A rename of such a field must not change any verdict, so when
// the name is gone the field is re-discovered by what it is used for and registered as an
// alias (ir.SetFieldAlias). A role that cannot be re-discovered uniquely stays unresolved
// and the rules that need it report an unresolved anchor.

type fieldRole struct {
	pkg   string // package of the struct
	iface string // the struct is the unique implementation of pkg.iface
	role  string // the name the rules use
	why   string
	match func(h *H, typ string, f *types.Var, ws []ir.FieldWrite) bool
}

func isNamed(t types.Type, pkgSuffix, name string) bool {
	if p, ok := t.(*types.Pointer); ok {
		t = p.Elem()
	}
	n, ok := types.Unalias(t).(*types.Named)
	return ok && n.Obj().Name() == name && n.Obj().Pkg() != nil && strings.HasSuffix(n.Obj().Pkg().Path(), pkgSuffix)
}

func isInt64Type(t types.Type) bool {
	b, ok := t.Underlying().(*types.Basic)
	return ok && b.Kind() == types.Int64
}

func anyWrite(ws []ir.FieldWrite, pred func(w ir.FieldWrite) bool) bool {
	for _, w := range ws {
		if w.Val != nil && pred(w) {
			return true
		}
	}
	return false
}

func fieldRoles() []fieldRole {
	fromCall := func(spec ir.Callee) func(h *H, w ir.FieldWrite) bool {
		return func(h *H, w ir.FieldWrite) bool {
			v := ir.Canon(w.Val)
			return isCallResultOf(h, v, spec) || isExtractOf(h, v, spec)
		}
	}
	msgField := func(field string) func(h *H, w ir.FieldWrite) bool {
		return func(h *H, w ir.FieldWrite) bool {
			r, ok := ir.FieldLoadOf(ir.Canon(w.Val))
			if ok && r.Field == field && r.Struct != nil && r.Struct.Obj().Pkg() != nil && strings.HasSuffix(r.Struct.Obj().Pkg().Path(), "/proto") {
				return true
			}
			if c, isCall := ir.Canon(w.Val).(*ssa.Call); isCall {
				if f := c.Call.StaticCallee(); f != nil && f.Name() == "Get"+field && f.Pkg != nil && strings.HasSuffix(f.Pkg.Pkg.Path(), "/proto") {
					return true
				}
			}
			return false
		}
	}
	with := func(pred func(h *H, w ir.FieldWrite) bool, typeOK func(types.Type) bool) func(h *H, typ string, f *types.Var, ws []ir.FieldWrite) bool {
		return func(h *H, typ string, f *types.Var, ws []ir.FieldWrite) bool {
			return typeOK(f.Type()) && anyWrite(ws, func(w ir.FieldWrite) bool { return pred(h, w) })
		}
	}
	atomicInt64 := func(t types.Type) bool { return isNamed(t, "sync/atomic", "Int64") }
	status := func(h *H, typ string, f *types.Var, ws []ir.FieldWrite) bool {
		return isNamed(f.Type(), "/proto", "ServingStatus")
	}
	return []fieldRole{
		{"server", "FollowerController", "lastAppendedOffset", "plain int64 initialised from Wal.LastOffset()", with(fromCall(walLastOffset), isInt64Type)},
		{"server", "FollowerController", "commitOffset", "atomic counter stored from DB.ReadCommitOffset()", with(fromCall(dbReadCommit), atomicInt64)},
		{"server", "FollowerController", "advertisedCommitOffset", "atomic counter stored from the CommitOffset of an Append request", with(msgField("CommitOffset"), atomicInt64)},
		{"server", "FollowerController", "status", "the field of type proto.ServingStatus", status},
		{"server", "LeaderController", "status", "the field of type proto.ServingStatus", status},
		{"server", "FollowerController", "term", "int64 stored from the Term of a request", with(msgField("Term"), isInt64Type)},
		{"server", "LeaderController", "term", "int64 stored from the Term of a request", with(msgField("Term"), isInt64Type)},
		{"server", "QuorumAckTracker", "requiredAcks", "stored in the constructor from replicationFactor / 2", func(h *H, typ string, f *types.Var, ws []ir.FieldWrite) bool {
			return anyWrite(ws, func(w ir.FieldWrite) bool {
				return ir.DependsOn(w.Val, func(x ssa.Value) bool {
					bo, ok := x.(*ssa.BinOp)
					if !ok || bo.Op != token.QUO {
						return false
					}
					k, isK := bo.Y.(*ssa.Const)
					return isK && k.Value != nil && k.Int64() == 2
				})
			})
		}},
		{"server", "QuorumAckTracker", "commitOffset", "atomic counter that the CommitOffset() method loads", loadedByGetter("server", "QuorumAckTracker", "CommitOffset", "Load")},
		{"server", "QuorumAckTracker", "headOffset", "atomic counter that the HeadOffset() method loads", loadedByGetter("server", "QuorumAckTracker", "HeadOffset", "Load")},
		{"server", "QuorumAckTracker", "nextOffset", "atomic counter that the NextOffset() method advances", loadedByGetter("server", "QuorumAckTracker", "NextOffset", "Add")},
		{"server/kv", "DB", "versionIdTracker", "atomic counter advanced by Add(1) when a record gets a new version", func(h *H, typ string, f *types.Var, ws []ir.FieldWrite) bool {
			if !atomicInt64(f.Type()) {
				return false
			}
			for _, w := range ws {
				if w.Kind == "atomic.Add" {
					if k, ok := w.Val.(*ssa.Const); ok && k.Value != nil && k.Int64() == 1 {
						return true
					}
				}
			}
			return false
		}},
		{"server/wal", "Wal", "lastAppendedOffset", "atomic counter stored with the offset of the entry just appended (after the segment append)", func(h *H, typ string, f *types.Var, ws []ir.FieldWrite) bool {
			if !atomicInt64(f.Type()) {
				return false
			}
			segApp := ir.Callee{Pkg: "server/wal", Recv: "ReadWriteSegment", Name: "Append"}
			for _, w := range ws {
				if w.Val == nil || w.Kind != "atomic.Store" || !msgField("Offset")(h, w) {
					continue
				}
				after, before := false, false
				for _, c := range h.P.CallsIn(w.Fn, segApp) {
					if r, _ := ir.Reach(ir.Search{From: c}, ir.Is(w.Instr)); r {
						after = true
					}
					if r, _ := ir.Reach(ir.Search{From: w.Instr}, ir.Is(c)); r {
						before = true
					}
				}
				if after && !before {
					return true
				}
			}
			return false
		}},
		{"server/wal", "Wal", "lastSyncedOffset", "atomic counter stored after a segment flush / compared by the sync loop, never stored with an entry's offset", func(h *H, typ string, f *types.Var, ws []ir.FieldWrite) bool {
			if !atomicInt64(f.Type()) || anyWrite(ws, func(w ir.FieldWrite) bool { return msgField("Offset")(h, w) }) {
				return false
			}
			// stored in a function that flushes a segment
			for _, w := range ws {
				if len(h.P.CallsIn(w.Fn, ir.Callee{Pkg: "server/wal", Recv: "ReadWriteSegment", Name: "Flush"})) > 0 {
					return true
				}
			}
			return false
		}},
		{"server/wal", "ReadWriteSegment", "currentFileOffset", "the write position: incremented by the size of the record just written", func(h *H, typ string, f *types.Var, ws []ir.FieldWrite) bool {
			return anyWrite(ws, func(w ir.FieldWrite) bool {
				bo, ok := ir.Canon(w.Val).(*ssa.BinOp)
				return ok && bo.Op == token.ADD && ir.LoadsField(bo.X, "server/wal", typ, f.Name()) && ir.DependsOn(w.Val, func(x ssa.Value) bool {
					c, isCall := x.(*ssa.Call)
					return isCall && c.Call.IsInvoke() && c.Call.Method.Name() == "WriteRecord"
				})
			})
		}},
	}
}

// loadedByGetter: the field is the atomic on which the implementation of an interface
// method (a stable, exported anchor) calls the given sync/atomic method.
func loadedByGetter(pkg, iface, method, atomicOp string) func(h *H, typ string, f *types.Var, ws []ir.FieldWrite) bool {
	return func(h *H, typ string, f *types.Var, ws []ir.FieldWrite) bool {
		found := false
		for _, fn := range h.P.ImplMethods(pkg, iface, method) {
			ir.Instrs(fn, func(in ssa.Instruction) {
				c, ok := in.(*ssa.Call)
				if !ok {
					return
				}
				g := c.Call.StaticCallee()
				if g == nil || g.Pkg == nil || g.Pkg.Pkg.Path() != "sync/atomic" || g.Name() != atomicOp || len(c.Call.Args) == 0 {
					return
				}
				if ref, ok := ir.FieldAddrOf(c.Call.Args[0]); ok && ref.Struct != nil && ref.Struct.Obj().Name() == typ && ref.Field == f.Name() {
					found = true
				}
			})
		}
		return found
	}
}

// resolveFieldRoles registers aliases for renamed role fields (run once per process).
var rolesResolved bool

func resolveFieldRoles(h *H) {
	if rolesResolved {
		return
	}
	rolesResolved = true
	for _, r := range fieldRoles() {
		ts := h.P.Impls(r.pkg, r.iface)
		if len(ts) != 1 {
			continue
		}
		tn := ts[0].Obj().Name()
		st, ok := ts[0].Underlying().(*types.Struct)
		if !ok {
			continue
		}
		present := false
		for i := 0; i < st.NumFields(); i++ {
			if st.Field(i).Name() == r.role {
				present = true
			}
		}
		if present {
			continue
		}
		var cands []string
		for i := 0; i < st.NumFields(); i++ {
			f := st.Field(i)
			if r.match(h, tn, f, h.P.FieldWrites(r.pkg, tn, f.Name())) {
				cands = append(cands, f.Name())
			}
		}
		if len(cands) == 0 {
			// grouped into a private struct held by value: look one level down
			type nc struct{ inner, field string }
			var ncs []nc
			for i := 0; i < st.NumFields(); i++ {
				in, ok := types.Unalias(st.Field(i).Type()).(*types.Named)
				if !ok || in.Obj().Exported() || in.Obj().Pkg() == nil || in.Obj().Pkg() != ts[0].Obj().Pkg() {
					continue
				}
				ist, ok := in.Underlying().(*types.Struct)
				if !ok {
					continue
				}
				for j := 0; j < ist.NumFields(); j++ {
					f := ist.Field(j)
					if r.match(h, in.Obj().Name(), f, h.P.FieldWrites(r.pkg, in.Obj().Name(), f.Name())) {
						ncs = append(ncs, nc{in.Obj().Name(), f.Name()})
					}
				}
			}
			if len(ncs) == 1 {
				ir.SetNestedFieldAlias(r.pkg, tn, r.role, ncs[0].inner, ncs[0].field)
				h.Note("field role %s.%s.%s is played by %s.%s, a struct nested in %s (%s)", r.pkg, tn, r.role, ncs[0].inner, ncs[0].field, tn, r.why)
				continue
			}
		}
		if len(cands) == 1 {
			ir.SetFieldAlias(r.pkg, tn, r.role, cands[0])
			h.Note("field role %s.%s.%s is played by %s (%s)", r.pkg, tn, r.role, cands[0], r.why)
		} else {
			h.Note("field role %s.%s.%s: %d candidates after a rename (%s); rules that need it report an unresolved anchor", r.pkg, tn, r.role, len(cands), r.why)
		}
	}
}
