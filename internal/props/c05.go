package props

import (
	"fmt"
	"go/token"
	"go/types"
	"strings"

	"golang.org/x/tools/go/ssa"

	"oxiaverif/internal/chk"
	"oxiaverif/internal/ir"
)

func init() { register("C05", checkC05) }

var (
	rpcNewTerm     = ir.Callee{Pkg: "coordinator/rpc", Recv: "Provider", Name: "NewTerm"}
	rpcBecomeLead  = ir.Callee{Pkg: "coordinator/rpc", Recv: "Provider", Name: "BecomeLeader"}
	updShardMeta   = ir.Callee{Pkg: "coordinator/resources", Recv: "StatusResource", Name: "UpdateShardMetadata"}
	metaStore      = ir.Callee{Pkg: "coordinator/metadata", Recv: "Provider", Name: "Store"}
	kvFlush        = ir.Callee{Pkg: "server/kv", Recv: "KV", Name: "Flush"}
	batchCommit    = ir.Callee{Pkg: "server/kv", Recv: "WriteBatch", Name: "Commit"}
	backoffRetry   = ir.Callee{Pkg: "github.com/cenkalti/backoff/v4", Recv: "", Name: "RetryNotify"}
	backoffRetry2  = ir.Callee{Pkg: "github.com/cenkalti/backoff/v4", Recv: "", Name: "Retry"}
	listContainsFn = ir.Callee{Pkg: "coordinator/controllers", Recv: "", Name: "listContains"}
)

func checkC05(c *chk.Ctx) {
	h := newH(c)
	c.Decided = []string{
		"R05k at most one node is asked to lead a term: no second BecomeLeader request (to another node) without a term increment in between",
		"R05j the file-backed metadata provider compares the expected version with the version it reads from the file in the same Store call (a remembered copy does not fence off a second coordinator process writing the same file)",
		"R05a the coordinator stores the incremented term (UpdateShardMetadata) on every path before any NewTerm RPC; the term is only incremented in the election function",
		"R05b the result of the metadata Store retry is not discarded (open finding F14: it is)",
		"R05c nodes persist and flush the term before adopting / answering it; a failed UpdateTerm never continues on the success path",
		"R05i a compare-and-set of the cluster status writes a status computed from the very snapshot whose version it presents (a retry recomputes it): a concurrent election's term is never overwritten by a stale copy",
		"R05e the leader selection loop implements the (term, offset) maximum decision table exhaustively (9 ordering cases); leader is a candidate; followers = responses - leader",
		"R05f only ensemble members enter the response map of the fencing quorum",
		"R05g/R05h the fencing majority is a strict majority of exactly the set that is fenced and counted",
	}
	c.NotDec = []string{
		"coordinator crash points between RPCs",
		"late responses of a superseded election interleaving with a new one",
		"that one-leader-per-term follows (relies on terms never being reused, R05a/R05b)",
	}
	ruleR05a(h)
	ruleR05b(h)
	ruleR05c(h)
	ruleR05e(h)
	ruleR05f(h)
	h.Rule("R05g", "K11", "fencing majority arithmetic (shared with R01c)", 1)
	ruleMajority(h, "R05g")
	ruleR05h(h)
	ruleStatusSwapFresh(h, "R05i")
	ruleR05j(h)
	ruleOneBecomeLeaderPerTerm(h, "R05k")
}

func ruleR05a(h *H) { ruleR05aInto(h, "R05a") }

func ruleR05aInto(h *H, rule string) {
	h.Rule(rule, "K1+K3", "ShardMetadata.Term is incremented only by the election function, and every path from the increment to a call that sends NewTerm passes through StatusResource.UpdateShardMetadata with the updated metadata", 2)
	ws := h.P.FieldWrites("coordinator/model", "ShardMetadata", "Term")
	if len(ws) == 0 {
		h.Anchor(rule, "model.ShardMetadata.Term")
		return
	}
	n := 0
	for _, w := range ws {
		fname := ir.FuncName(ir.Outermost(w.Fn))
		if w.Val == nil {
			h.Unknown(rule, "Term written through an escaped address in "+fname, h.pos(w.Instr), "cannot follow")
			continue
		}
		v := ir.Canon(w.Val)
		// literal initialisation with a constant / copy of another metadata's term is not an increment
		if _, isConst := v.(*ssa.Const); isConst {
			continue
		}
		if r, ok := ir.FieldLoadOf(v); ok && r.Is("coordinator/model", "ShardMetadata", "Term") {
			continue // copy (Clone)
		}
		bo, isInc := v.(*ssa.BinOp)
		if !isInc || bo.Op != token.ADD {
			h.Bad(rule, "Term assignment in "+fname, h.pos(w.Instr), "ShardMetadata.Term assigned from "+ir.Describe(w.Val)+" (neither a copy nor an increment)")
			continue
		}
		n++
		h.Fn(ir.FuncName(w.Fn))
		name := fmt.Sprintf("Term increment #%d in %s", n, fname)
		if n > 1 {
			h.Bad(rule, name, h.pos(w.Instr), "a second place increments the term")
			continue
		}
		// Walk up from the increment: the function that holds it may be an extracted helper
		// ("start a new term") that stores the term itself and is called before the fan-out.
		cur, at := w.Fn, ssa.Instruction(w.Instr)
		stored := false
		decided := false
		for level := 0; level < 4 && !decided; level++ {
			var sends []ssa.CallInstruction
			ir.Instrs(cur, func(in ssa.Instruction) {
				if ci, ok := in.(ssa.CallInstruction); ok && in != at && h.P.CallStaticallyReaches(ci, h.P.MatchPred(rpcNewTerm)) {
					sends = append(sends, ci)
				}
			})
			upds := h.P.CallsIn(cur, updShardMeta)
			anchor := at
			isUpd := func(in ssa.Instruction) bool {
				for _, u := range upds {
					if u == in {
						// the stored metadata must be read after the increment
						arg := argOf(u.Common(), 2)
						return ir.DependsOn(arg, func(x ssa.Value) bool {
							r, ok := ir.FieldLoadOf(x)
							if !ok || !(r.Field == "shardMetadata") {
								return false
							}
							li, isI := x.(ssa.Instruction)
							return isI && li.Parent() == cur && ir.Dominates(anchor, li)
						})
					}
				}
				return false
			}
			if len(sends) > 0 {
				decided = true
				ok := true
				for _, s := range sends {
					if stored {
						continue
					}
					if pass, path := ir.MustPass(cur, at, s, isUpd); !pass {
						ok = false
						h.Bad(rule, name, h.pos(s), "NewTerm can be sent for a term that was not stored first: a path from the increment reaches "+describeCallee(s.Common())+" without UpdateShardMetadata(updated metadata)", witness(path))
					}
				}
				if ok {
					h.OK(rule, name, h.pos(w.Instr), fmt.Sprintf("UpdateShardMetadata precedes all %d NewTerm-sending call(s)", len(sends)))
				}
				break
			}
			// no fan-out here: does this function store the term on every way out?
			all := true
			nret := 0
			ir.Instrs(cur, func(in ssa.Instruction) {
				if ret, isRet := in.(*ssa.Return); isRet && in.Block() != cur.Recover {
					nret++
					if pass, _ := ir.MustPass(cur, at, ret, isUpd); !pass {
						all = false
					}
				}
			})
			if all && nret > 0 {
				stored = true
			}
			if run := closureRunsAt(cur); run != nil {
				// a literal handed to a "do this under the lock" helper runs at that call
				cur, at = run.Parent(), run
				continue
			}
			site := ir.SingleCallSite(cur)
			if site == nil {
				break
			}
			cur, at = site.Parent(), site
		}
		if !decided {
			h.Unknown(rule, name, h.pos(w.Instr), "the incrementing function (and its only callers) do not (statically) reach the NewTerm RPC: cannot order the store against it")
		}
	}
	if n == 0 {
		h.Anchor(rule, "the increment of ShardMetadata.Term")
	}
	h.OK(rule, "Term writers", "", fmt.Sprintf("%d writers inspected; increments: %d", len(ws), n))
}

func ruleR05b(h *H) {
	const rule = "R05b"
	h.Rule(rule, "K10", "the outcome of the retried metadata.Provider.Store is used by the status resource (an exhausted retry must not be taken for success)", 1)
	n := 0
	for _, s := range h.P.AllCalls(ir.InPkg("coordinator/resources"), backoffRetry, backoffRetry2) {
		op := closureArg(argOf(s.Call.Common(), 0))
		if op == nil {
			continue
		}
		if ok, _ := h.P.StaticReaches(op, h.P.MatchPred(metaStore)); !ok {
			continue
		}
		// on the election path: in the UpdateShardMetadata implementation itself or in a
		// helper it (statically) calls
		onPath := h.P.FuncMatches(ir.Outermost(s.Fn), updShardMeta)
		if !onPath {
			target := ir.Outermost(s.Fn)
			for _, impl := range h.P.ImplMethods("coordinator/resources", "StatusResource", "UpdateShardMetadata") {
				if r, _ := h.P.StaticReaches(impl, func(c *ssa.CallCommon) bool { return c.StaticCallee() == target }); r {
					onPath = true
				}
			}
		}
		if !onPath {
			h.Note("metadata Store retry with discarded result (not on the election path): %s", ir.FuncName(s.Fn))
			continue
		}
		n++
		h.Fn(ir.FuncName(s.Fn))
		name := "metadata Store retry in the StatusResource.UpdateShardMetadata implementation"
		used := false
		if v := s.Call.Value(); v != nil && v.Referrers() != nil {
			for _, r := range *v.Referrers() {
				if _, isDbg := r.(*ssa.DebugRef); !isDbg {
					used = true
				}
			}
		}
		h.Verdict(used, rule, name, h.pos(s.Call), "the retry result is examined",
			"the error of backoff.RetryNotify over a bounded ExponentialBackOff is discarded: when the metadata store stays unavailable the caller proceeds as if the status (the new term) had been stored")
	}
	if n == 0 {
		h.Anchor(rule, "retry of metadata.Provider.Store in coordinator/resources")
	}
}

func ruleR05c(h *H) {
	const rule = "R05c"
	h.Rule(rule, "K1/K10", "NewTerm answers only after DB.UpdateTerm succeeded; UpdateTerm returns success only after batch Commit and KV Flush succeeded; no caller continues on the success path after a failed UpdateTerm", 6)
	// (1) NewTerm success returns
	for _, who := range []string{"LeaderController", "FollowerController"} {
		fn := h.implMethod(rule, "server", who, "NewTerm")
		if fn == nil {
			continue
		}
		upd := h.P.CallsIn(fn, dbUpdateTerm)
		if len(upd) == 0 {
			h.Bad(rule, who+".NewTerm persists the term", h.P.Pos(fn.Pos()), "NewTerm does not call DB.UpdateTerm")
			continue
		}
		i := 0
		ir.Instrs(fn, func(in ssa.Instruction) {
			ret, ok := in.(*ssa.Return)
			if !ok || len(ret.Results) != 2 {
				return
			}
			if c, isC := ir.ReturnValues(ret)[1].(*ssa.Const); !isC || !c.IsNil() {
				return
			}
			i++
			good := false
			why := ""
			for _, u := range upd {
				sd, w, _ := ir.SuccessDominated(u, in)
				if sd {
					good = true
				} else {
					why = w
				}
			}
			h.Verdict(good, rule, fmt.Sprintf("%s.NewTerm success return #%d", who, i), h.pos(in), "after DB.UpdateTerm succeeded", "NewTerm can answer successfully although the term was not persisted: "+why)
		})
	}
	// (1b) KV.Flush is the engine's synchronous flush
	for _, fn := range h.P.ImplMethods("server/kv", "KV", "Flush") {
		h.Fn(ir.FuncName(fn))
		var ops []string
		ir.Instrs(fn, func(in ssa.Instruction) {
			if c := ir.CallOf(in); c != nil {
				if f := c.StaticCallee(); f != nil && f.Pkg != nil && strings.HasPrefix(f.Pkg.Pkg.Path(), "github.com/cockroachdb/pebble") && f.Signature.Recv() != nil {
					ops = append(ops, f.Name())
				}
			}
		})
		ok := len(ops) == 1 && ops[0] == "Flush"
		h.Verdict(ok, rule, "KV.Flush is synchronous: "+ir.FuncName(fn), h.P.Pos(fn.Pos()), "pebble DB.Flush (returns after the memtable is on disk)",
			fmt.Sprintf("KV.Flush is implemented with engine operation(s) %v instead of the blocking DB.Flush: UpdateTerm (and the snapshot) return before the data is on disk, so a node answers NewTerm for a term that a crash can still roll back (Pebble's WAL is disabled)", ops))
	}
	// (2) db.UpdateTerm
	for _, fn := range h.P.ImplMethods("server/kv", "DB", "UpdateTerm") {
		h.Fn(ir.FuncName(fn))
		flushes := h.P.CallsIn(fn, kvFlush)
		commits := h.P.CallsIn(fn, batchCommit)
		if len(flushes) == 0 {
			h.Bad(rule, "UpdateTerm flushes: "+ir.FuncName(fn), h.P.Pos(fn.Pos()), "UpdateTerm does not flush the KV: the term change is not in the shard log and Pebble's own WAL is disabled, so it is not durable")
			continue
		}
		if len(commits) == 0 {
			h.Bad(rule, "UpdateTerm commits: "+ir.FuncName(fn), h.P.Pos(fn.Pos()), "UpdateTerm never commits its batch")
			continue
		}
		for _, f := range flushes {
			okc := false
			why := ""
			for _, cm := range commits {
				sd, w, _ := ir.SuccessDominated(cm, f)
				if sd {
					okc = true
				} else {
					why = w
				}
			}
			h.Verdict(okc, rule, "UpdateTerm: Flush after Commit in "+ir.FuncName(fn), h.pos(f), "Flush is success-dominated by batch.Commit", "the flush does not follow a successful commit: "+why)
		}
		i := 0
		ir.Instrs(fn, func(in ssa.Instruction) {
			ret, ok := in.(*ssa.Return)
			if !ok || len(ret.Results) != 1 {
				return
			}
			i++
			name := fmt.Sprintf("UpdateTerm return #%d in %s", i, ir.FuncName(fn))
			v := ir.ReturnValues(ret)[0]
			for _, f := range flushes {
				if v == f.Value() {
					h.OK(rule, name, h.pos(in), "returns the result of KV.Flush")
					return
				}
			}
			if c, isC := v.(*ssa.Const); isC && c.IsNil() {
				good := false
				for _, f := range flushes {
					if sd, _, _ := ir.SuccessDominated(f, in); sd {
						good = true
					}
				}
				h.Verdict(good, rule, name, h.pos(in), "nil only after a successful Flush", "UpdateTerm returns success without a successful KV.Flush")
				return
			}
			// an error value: must be known non-nil here
			nonNil := false
			for _, t := range ir.NilTests(v) {
				if t.NonNil == in.Block() || t.NonNil.Dominates(in.Block()) {
					nonNil = true
				}
			}
			h.Verdict(nonNil, rule, name, h.pos(in), "returns a non-nil error", "returns "+ir.Describe(v)+", which may be nil, without having flushed")
		})
	}
	// (3) K10: a failed UpdateTerm never falls through to the success continuation
	for _, s := range h.P.AllCalls(ir.InPkg("server"), dbUpdateTerm) {
		h.Fn(ir.FuncName(s.Fn))
		name := "UpdateTerm error handling in " + ir.FuncName(s.Fn)
		ev := ir.ErrResult(s.Call)
		if ev == nil {
			h.Bad(rule, name, h.pos(s.Call), "the error of DB.UpdateTerm is discarded")
			continue
		}
		tests := ir.NilTests(ev)
		if len(tests) == 0 {
			// returned directly?
			direct := false
			if ev.Referrers() != nil {
				for _, r := range *ev.Referrers() {
					if _, ok := r.(*ssa.Return); ok {
						direct = true
					}
				}
			}
			h.Verdict(direct, rule, name, h.pos(s.Call), "error returned to the caller", "the error of DB.UpdateTerm is never tested")
			continue
		}
		bad := false
		for _, t := range tests {
			first := t.NilSucc.Instrs[0]
			if r, path := ir.Reach(ir.Search{FromBlock: t.NonNil, Barrier: ir.Is(s.Call)}, ir.Is(first)); r || t.NonNil == t.NilSucc {
				bad = true
				h.Bad(rule, name, h.pos(t.If), "the error branch of DB.UpdateTerm does not leave the function: execution continues on the success path with a term that is not durable", witness(path))
			}
		}
		if !bad {
			h.OK(rule, name, h.pos(s.Call), "the error branch terminates")
		}
	}
}

// ---------------------------------------------------------------------------------
// R05e: decision table of the leader selection

func findSelectNewLeader(h *H, rule string) *ssa.Function {
	var out []*ssa.Function
	for _, fn := range h.P.Funcs {
		if fn.Parent() != nil || ir.RelPkg(ir.PkgPathOf(fn)) != "coordinator/controllers" || fn.Signature.Recv() != nil {
			continue
		}
		sig := fn.Signature
		if sig.Params().Len() != 1 || sig.Results().Len() != 2 {
			continue
		}
		m, ok := sig.Params().At(0).Type().Underlying().(*types.Map)
		if !ok || !ir.TypeIs(m.Key(), "coordinator/model", "Server") || !ir.TypeIs(m.Elem(), "proto", "EntryId") {
			continue
		}
		if !ir.TypeIs(sig.Results().At(0).Type(), "coordinator/model", "Server") {
			continue
		}
		out = append(out, fn)
	}
	if len(out) != 1 {
		h.Anchor(rule, fmt.Sprintf("the leader selection function (map[Server]*EntryId) -> (Server, map) in coordinator/controllers (found %d)", len(out)))
		return nil
	}
	h.Fn(ir.FuncName(out[0]))
	return out[0]
}

func ruleR05e(h *H) {
	const rule = "R05e"
	h.Rule(rule, "K11", "leader selection: per response, (term >) resets the candidates and both maxima; (term =, offset >) resets candidates and the offset maximum; (=,=) appends; otherwise nothing changes — decided for all 9 ordering cases; the leader is an element of the candidates; followers are the other responders", 11)
	fn := findSelectNewLeader(h, rule)
	if fn == nil {
		return
	}
	// the first range loop over the parameter
	var header *ssa.BasicBlock
	var next *ssa.Next
	for _, b := range fn.Blocks {
		for _, in := range b.Instrs {
			if n, ok := in.(*ssa.Next); ok && header == nil {
				if rg, ok := n.Iter.(*ssa.Range); ok && ir.Canon(rg.X) == ssa.Value(fn.Params[0]) {
					header, next = b, n
				}
			}
		}
	}
	if header == nil {
		h.Anchor(rule, "range loop over the responses in "+ir.FuncName(fn))
		return
	}
	var key, val ssa.Value
	if next.Referrers() != nil {
		for _, r := range *next.Referrers() {
			if ex, ok := r.(*ssa.Extract); ok {
				switch ex.Index {
				case 1:
					key = ex
				case 2:
					val = ex
				}
			}
		}
	}
	body := header.Succs[0]
	isHead := func(v ssa.Value, field string) bool {
		r, ok := ir.FieldLoadOf(v)
		return ok && r.Is("proto", "EntryId", field) && val != nil && ir.Canon(r.Base) == val
	}
	// identify the loop-carried maxima by what they are compared with
	var mT, mO, cand *ssa.Phi
	for _, in := range header.Instrs {
		phi, ok := in.(*ssa.Phi)
		if !ok {
			continue
		}
		if sl, isSl := phi.Type().Underlying().(*types.Slice); isSl && ir.TypeIs(sl.Elem(), "coordinator/model", "Server") {
			cand = phi
		}
	}
	ir.Instrs(fn, func(in ssa.Instruction) {
		bo, ok := in.(*ssa.BinOp)
		if !ok {
			return
		}
		for _, pair := range [][2]ssa.Value{{bo.X, bo.Y}, {bo.Y, bo.X}} {
			phi, isPhi := pair[1].(*ssa.Phi)
			if !isPhi || phi.Block() != header {
				continue
			}
			if isHead(pair[0], "Term") {
				mT = phi
			}
			if isHead(pair[0], "Offset") {
				mO = phi
			}
		}
	})
	if mT == nil || mO == nil || cand == nil || key == nil {
		h.Unknown(rule, "selection loop shape", h.P.Pos(fn.Pos()), "cannot identify the running maxima / candidate list of the selection loop (comparisons hidden behind helpers?)")
		return
	}
	cls := func(v ssa.Value, path []*ssa.BasicBlock) string {
		v = ir.PhiAlong(v, path)
		switch {
		case isHead(v, "Term"):
			return "hT"
		case isHead(v, "Offset"):
			return "hO"
		case v == ssa.Value(mT):
			return "mT"
		case v == ssa.Value(mO):
			return "mO"
		}
		return ""
	}
	classifyMax := func(nv ssa.Value, old *ssa.Phi, field string) string {
		switch {
		case nv == ssa.Value(old):
			return "kept"
		case isHead(nv, field):
			return "updated"
		}
		return "other:" + ir.Describe(nv)
	}
	classifyCand := func(nv ssa.Value, path []*ssa.BasicBlock) string {
		if nv == ssa.Value(cand) {
			return "kept"
		}
		switch x := nv.(type) {
		case *ssa.Slice:
			// []T{key}
			if al, ok := x.X.(*ssa.Alloc); ok && al.Referrers() != nil {
				for _, r := range *al.Referrers() {
					if ia, ok := r.(*ssa.IndexAddr); ok && ia.Referrers() != nil {
						for _, rr := range *ia.Referrers() {
							if st, ok := rr.(*ssa.Store); ok && ir.Canon(st.Val) == key {
								return "reset"
							}
						}
					}
				}
			}
		case *ssa.Call:
			if b, ok := x.Call.Value.(*ssa.Builtin); ok && b.Name() == "append" && len(x.Call.Args) == 2 {
				if ir.PhiAlong(x.Call.Args[0], path[:len(path)-1]) == ssa.Value(cand) {
					// appended slice literal containing the key
					if sl, ok := x.Call.Args[1].(*ssa.Slice); ok {
						if al, ok := sl.X.(*ssa.Alloc); ok && al.Referrers() != nil {
							for _, r := range *al.Referrers() {
								if ia, ok := r.(*ssa.IndexAddr); ok && ia.Referrers() != nil {
									for _, rr := range *ia.Referrers() {
										if st, ok := rr.(*ssa.Store); ok && ir.Canon(st.Val) == key {
											return "append"
										}
									}
								}
							}
						}
					}
				}
			}
		}
		return "other:" + ir.Describe(nv)
	}
	relName := map[int]string{-1: "<", 0: "=", 1: ">"}
	for _, tr := range []int{-1, 0, 1} {
		for _, or := range []int{-1, 0, 1} {
			name := fmt.Sprintf("selection case head.Term %s maxTerm, head.Offset %s maxOffset", relName[tr], relName[or])
			c := ir.AbsCase{Order: map[[2]string]int{{"hT", "mT"}: tr, {"hO", "mO"}: or}}
			path, ok, why := ir.AbsWalk(body, []*ssa.BasicBlock{header}, func(b *ssa.BasicBlock) bool { return b == header }, cls, c)
			if !ok {
				h.Unknown(rule, name, h.P.Pos(fn.Pos()), "cannot evaluate the loop body under this ordering: "+why)
				continue
			}
			if path[len(path)-1] != header {
				h.Bad(rule, name, h.P.Pos(fn.Pos()), "the loop body leaves the loop")
				continue
			}
			gT := classifyMax(ir.PhiAlong(mT, path), mT, "Term")
			gO := classifyMax(ir.PhiAlong(mO, path), mO, "Offset")
			gC := classifyCand(ir.PhiAlong(cand, path), path)
			var wT, wO, wC []string
			switch {
			case tr > 0:
				wT, wO, wC = []string{"updated"}, []string{"updated"}, []string{"reset"}
			case tr == 0 && or > 0:
				wT, wO, wC = []string{"kept", "updated"}, []string{"updated"}, []string{"reset"}
			case tr == 0 && or == 0:
				wT, wO, wC = []string{"kept", "updated"}, []string{"kept", "updated"}, []string{"append"}
			default:
				wT, wO, wC = []string{"kept"}, []string{"kept"}, []string{"kept"}
			}
			got := fmt.Sprintf("maxTerm %s, maxOffset %s, candidates %s", gT, gO, gC)
			okCase := inList(gT, wT) && inList(gO, wO) && inList(gC, wC)
			h.Verdict(okCase, rule, name, h.P.Pos(fn.Pos()), got, fmt.Sprintf("got [%s], expected maxTerm %v, maxOffset %v, candidates %v", got, wT, wO, wC))
		}
	}
	// the leader is an element of the candidates
	okLeader := false
	ir.Instrs(fn, func(in ssa.Instruction) {
		ret, ok := in.(*ssa.Return)
		if !ok {
			return
		}
		okLeader = ir.DependsOn(ir.ReturnValues(ret)[0], func(v ssa.Value) bool {
			ia, ok := v.(*ssa.IndexAddr)
			return ok && ir.Canon(ia.X) == ssa.Value(cand)
		})
	})
	h.Verdict(okLeader, rule, "leader is drawn from the candidates", h.P.Pos(fn.Pos()), "returned leader = candidates[i]", "the returned leader is not an element of the candidate list")
	// followers = responses - leader
	nUpd := 0
	ir.Instrs(fn, func(in ssa.Instruction) {
		mu, ok := in.(*ssa.MapUpdate)
		if !ok {
			return
		}
		nUpd++
		good := false
		for _, g := range ir.CmpGuards(in) {
			if g.Op == token.NEQ && (ir.Canon(g.L) == ir.Canon(mu.Key) || ir.Canon(g.R) == ir.Canon(mu.Key)) {
				good = true
			}
		}
		h.Verdict(good, rule, fmt.Sprintf("followers map insertion #%d", nUpd), h.pos(in), "guarded by key != leader", "a responder is added to the followers without excluding the leader")
	})
	if nUpd == 0 {
		// the other idiom: followers = maps.Clone(responses); delete(followers, leader)
		ir.Instrs(fn, func(in ssa.Instruction) {
			ret, ok := in.(*ssa.Return)
			if !ok || len(ret.Results) != 2 {
				return
			}
			vals := ir.ReturnValues(ret)
			fol := ir.Canon(vals[1])
			good := false
			why := "the returned followers are " + ir.Describe(vals[1]) + ": cannot see that the leader is excluded"
			if c, isCall := fol.(*ssa.Call); isCall {
				f := c.Call.StaticCallee()
				o := f
				if f != nil && f.Origin() != nil {
					o = f.Origin()
				}
				if o != nil && strings.HasPrefix(o.Name(), "Clone") && o.Pkg != nil && strings.HasSuffix(o.Pkg.Pkg.Path(), "maps") {
					why = "the responses are cloned but the leader is not deleted from the clone on every path"
					ir.Instrs(fn, func(x ssa.Instruction) {
						d := ir.CallOf(x)
						if d == nil {
							return
						}
						if b, isB := d.Value.(*ssa.Builtin); isB && b.Name() == "delete" && ir.Canon(d.Args[0]) == fol && ir.Canon(d.Args[1]) == ir.Canon(vals[0]) && ir.Dominates(x, in) {
							good = true
						}
					})
				}
			}
			nUpd++
			h.Verdict(good, rule, "followers exclude the leader", h.pos(in), "followers = clone of the responses with the leader deleted", why)
		})
	}
}

func inList(s string, l []string) bool {
	for _, x := range l {
		if x == s {
			return true
		}
	}
	return false
}

func ruleR05f(h *H) {
	const rule = "R05f"
	h.Rule(rule, "K5", "every insertion into the response map returned by the fencing quorum is guarded by membership of the responder in the ensemble", 1)
	fn := fencingQuorumFn(h, rule)
	if fn == nil {
		return
	}
	n := 0
	for _, f := range ir.WithAnon(fn) {
		ir.Instrs(f, func(in ssa.Instruction) {
			mu, ok := in.(*ssa.MapUpdate)
			if !ok {
				return
			}
			mt, ok := mu.Map.Type().Underlying().(*types.Map)
			if !ok || !ir.TypeIs(mt.Key(), "coordinator/model", "Server") {
				return
			}
			n++
			good := false
			for _, g := range ir.Guards(in) {
				call, isCall := g.Cond.(*ssa.Call)
				if !isCall || !g.Taken {
					continue
				}
				if len(call.Call.Args) >= 2 && ir.LoadsField(call.Call.Args[0], "coordinator/model", "ShardMetadata", "Ensemble") {
					// the second argument is the responder that is inserted
					if sameServer(call.Call.Args[1], mu.Key) {
						good = true
					}
				}
			}
			h.Verdict(good, rule, fmt.Sprintf("response map insertion #%d in %s", n, ir.FuncName(f)), h.pos(in), "guarded by membership in ShardMetadata.Ensemble", "a NewTerm responder is recorded as candidate without checking that it belongs to the ensemble being installed (a node being removed could be elected)")
		})
	}
	if n == 0 {
		h.Anchor(rule, "insertions into the NewTerm response map")
	}
}

func sameServer(a, b ssa.Value) bool {
	if ir.SameExpr(a, b) {
		return true
	}
	// both are loads of the same embedded field of the same received struct value
	ra, oka := ir.FieldLoadOf(ir.Canon(a))
	rb, okb := ir.FieldLoadOf(ir.Canon(b))
	if oka && okb && ra.Field == rb.Field {
		return ir.Canon(ra.Base) == ir.Canon(rb.Base) || ir.SameExpr(ra.Base, rb.Base)
	}
	return false
}

func ruleR05h(h *H) { ruleR05hInto(h, "R05h") }

func ruleR05hInto(h *H, rule string) {
	h.Rule(rule, "K6", "the majority is computed from the length of the very collection that is iterated to send NewTerm (the set that is fenced and whose answers are counted)", 1)
	fn := fencingQuorumFn(h, rule)
	if fn == nil {
		return
	}
	// the slices iterated (indexed) in this function
	iterated := map[ssa.Value]bool{}
	hasGo := false
	ir.Instrs(fn, func(in ssa.Instruction) {
		if ia, ok := in.(*ssa.IndexAddr); ok {
			iterated[ir.Canon(ia.X)] = true
		}
		if _, ok := in.(*ssa.Go); ok {
			hasGo = true
		}
	})
	var lens []*ssa.Call
	ir.Instrs(fn, func(in ssa.Instruction) {
		bo, ok := in.(*ssa.BinOp)
		if !ok || (bo.Op != token.LSS && bo.Op != token.GEQ && bo.Op != token.GTR && bo.Op != token.LEQ) {
			return
		}
		for _, side := range []ssa.Value{bo.X, bo.Y} {
			s := ir.Canon(side)
			if b, ok := s.(*ssa.BinOp); ok {
				if _, isConst := b.Y.(*ssa.Const); isConst && (b.Op == token.ADD || b.Op == token.QUO || b.Op == token.SUB) {
					ir.DependsOn(b, func(v ssa.Value) bool {
						if isLenCall(v) {
							lens = append(lens, v.(*ssa.Call))
						}
						return false
					})
				}
			}
		}
	})
	if len(lens) == 0 || !hasGo {
		h.Anchor(rule, "majority expression / fan-out loop in newTermQuorum")
		return
	}
	seen := map[*ssa.Call]bool{}
	for _, l := range lens {
		if seen[l] {
			continue
		}
		seen[l] = true
		arg := ir.Canon(l.Call.Args[0])
		h.Verdict(iterated[arg], rule, "majority base set in "+ir.FuncName(fn), h.pos(l), "len() of the collection that is iterated to send NewTerm",
			"the majority is computed from "+ir.Describe(arg)+", which is not the collection iterated to send NewTerm: acknowledgements are counted over a different set than the one the majority refers to")
	}
}

// ruleStatusSwapFresh (shared with C18): StatusResource.Swap(newStatus, version) succeeds
// when `version` is current. The new status must therefore have been computed from the
// snapshot that was loaded together with that version; a retry loop that only reloads
// the version writes a status computed from an older snapshot over whatever changed in
// between (terms of concurrent elections, the shard id generator).
func ruleStatusSwapFresh(h *H, rule string) {
	h.Rule(rule, "K6", "for every StatusResource.Swap(s, v): the LoadWithVersion calls that can supply v are exactly the ones whose status s is computed from", 1)
	swap := ir.Callee{Pkg: "coordinator/resources", Recv: "StatusResource", Name: "Swap"}
	load := ir.Callee{Pkg: "coordinator/resources", Recv: "StatusResource", Name: "LoadWithVersion"}
	n := 0
	for _, cs := range h.P.AllCalls(func(f *ssa.Function) bool { return strings.HasPrefix(ir.RelPkg(ir.PkgPathOf(f)), "coordinator") }, swap) {
		n++
		h.Fn(ir.FuncName(cs.Fn))
		name := fmt.Sprintf("status swap #%d in %s", n, ir.FuncName(cs.Fn))
		st, ver := argOf(cs.Call.Common(), 0), argOf(cs.Call.Common(), 1)
		loadsOf := func(v ssa.Value, idx int) map[*ssa.Call]bool {
			out := map[*ssa.Call]bool{}
			ir.DependsOn(v, func(x ssa.Value) bool {
				if ex, ok := x.(*ssa.Extract); ok && ex.Index == idx {
					if c, ok := ex.Tuple.(*ssa.Call); ok && h.P.Matches(c.Common(), load) {
						out[c] = true
					}
				}
				return false
			})
			return out
		}
		vs, ss := loadsOf(ver, 1), loadsOf(st, 0)
		if len(vs) == 0 {
			h.OK(rule, name, h.pos(cs.Call), "the version is supplied by the caller")
			continue
		}
		bad := ""
		for c := range vs {
			if !ss[c] {
				bad = "the version can come from the LoadWithVersion at " + h.pos(c) + ", but the status that is written was not computed from the snapshot loaded there: after a failed attempt the stale status overwrites what changed in between (a concurrent election's term, the shard id generator)"
			}
		}
		h.Verdict(bad == "", rule, name, h.pos(cs.Call), fmt.Sprintf("status and version come from the same %d load(s)", len(vs)), bad)
	}
	if n == 0 {
		h.Anchor(rule, "calls of StatusResource.Swap in the coordinator")
	}
}

// ruleR05j: the status resource above the provider caches the version it got from its own
// last store and never re-reads. What stops a superseded coordinator process (overlapping
// restart) from overwriting a newer status - and with it a newer, already issued term - is
// the provider's compare-and-set against the stored version. For the file provider that
// version lives in the file: it has to be read, under the file lock, in every Store.
func ruleR05j(h *H) {
	const rule = "R05j"
	h.Rule(rule, "K4", "in metadata.Provider.Store implementations that write a file, every comparison of the expected version is made against a value produced by a read in the same call (the provider's Get / a file read), not against state remembered in the provider", 1)
	n := 0
	for _, fn := range h.P.ImplMethods("coordinator/metadata", "Provider", "Store") {
		writesFile := false
		region := helperFuncs(fn)
		for _, g := range region {
			ir.Instrs(g, func(in ssa.Instruction) {
				if c := ir.CallOf(in); c != nil {
					if f := c.StaticCallee(); f != nil && f.Pkg != nil && f.Pkg.Pkg.Path() == "os" && (f.Name() == "WriteFile" || f.Name() == "Rename" || f.Name() == "OpenFile" || f.Name() == "Create") {
						writesFile = true
					}
				}
			})
		}
		if !writesFile {
			continue
		}
		restore := bindRegion(fn)
		defer restore()
		var expected *ssa.Parameter
		for _, p := range fn.Params {
			if ir.TypeIs(p.Type(), "coordinator/metadata", "Version") {
				expected = p
			}
		}
		if expected == nil {
			continue
		}
		h.Fn(ir.FuncName(fn))
		isRead := func(v ssa.Value) bool {
			c, ok := v.(*ssa.Call)
			if !ok {
				return false
			}
			if f := c.Call.StaticCallee(); f != nil {
				if f.Pkg != nil && f.Pkg.Pkg.Path() == "os" && strings.HasPrefix(f.Name(), "Read") {
					return true
				}
				if f.Name() == "Get" && f.Signature.Recv() != nil && ir.SameNamed(f.Signature.Recv().Type(), fn.Signature.Recv().Type()) {
					return true
				}
			}
			return false
		}
		for _, g := range region {
			ir.Instrs(g, func(in ssa.Instruction) {
				bo, ok := in.(*ssa.BinOp)
				if !ok || (bo.Op != token.EQL && bo.Op != token.NEQ) {
					return
				}
				var other ssa.Value
				switch {
				case ir.Canon(bo.X) == ssa.Value(expected):
					other = bo.Y
				case ir.Canon(bo.Y) == ssa.Value(expected):
					other = bo.X
				default:
					return
				}
				if _, isConst := ir.Canon(other).(*ssa.Const); isConst {
					return
				}
				n++
				// every value the operand can take has to come from the read
				var allFresh func(v ssa.Value, depth int) bool
				allFresh = func(v ssa.Value, depth int) bool {
					c := ir.Canon(v)
					if phi, isPhi := c.(*ssa.Phi); isPhi && depth < 6 {
						for _, e := range phi.Edges {
							if e != ssa.Value(phi) && !allFresh(e, depth+1) {
								return false
							}
						}
						return true
					}
					if _, isField := ir.FieldLoadOf(c); isField {
						return false
					}
					return ir.DependsOn(c, isRead)
				}
				fresh := allFresh(other, 0)
				h.Verdict(fresh, rule, fmt.Sprintf("version check #%d in %s", n, ir.FuncName(fn)), h.pos(in), "against the version read from the file in this call", "the expected version is compared with "+ir.Describe(other)+", not with the version read from the file in this call: a second coordinator process on the same file is no longer fenced off and can overwrite a newer status (a term that was already issued is rolled back and then issued again)")
			})
		}
	}
	if n == 0 {
		h.Anchor(rule, "the expected-version comparison in the file-backed metadata.Provider.Store")
	}
}
