package props

import (
	"fmt"
	"go/token"
	"go/types"
	"strings"

	"golang.org/x/tools/go/ssa"

	"oxiaverif/internal/ir"
)

var rpcTruncate = ir.Callee{Pkg: "server", Recv: "ReplicationRpcProvider", Name: "Truncate"}
var newFollowerCursor = ir.Callee{Pkg: "server", Recv: "", Name: "NewFollowerCursor"}

// isAtomicLoadOfField: v is x.field.Load() for a sync/atomic typed field.
func isAtomicLoadOfField(v ssa.Value, pkg, typ, field string) bool {
	c, ok := ir.Canon(v).(*ssa.Call)
	if !ok {
		return false
	}
	f := c.Call.StaticCallee()
	if f == nil || f.Pkg == nil || f.Pkg.Pkg.Path() != "sync/atomic" || f.Name() != "Load" || len(c.Call.Args) == 0 {
		return false
	}
	ref, ok := ir.FieldAddrOf(c.Call.Args[0])
	return ok && ref.Is(pkg, typ, field)
}

// paramFlowsFrom: every caller passes, for parameter idx of fn, a value satisfying pred
// (directly or by forwarding its own parameter, recursively).
func paramFlowsFrom(h *H, fn *ssa.Function, idx int, pred func(ssa.Value) bool, depth int) (bool, string) {
	if depth > 6 {
		return false, "call chain too deep"
	}
	edges := h.P.CallersOf(fn)
	if len(edges) == 0 {
		return false, ir.FuncName(fn) + " has no caller"
	}
	for _, e := range edges {
		if e.Site == nil {
			return false, "synthetic caller"
		}
		args := e.Site.Common().Args
		if idx >= len(args) {
			return false, "argument mismatch at " + h.pos(e.Site)
		}
		a := ir.Canon(args[idx])
		if pred(a) {
			continue
		}
		if p, ok := a.(*ssa.Parameter); ok {
			pi := -1
			for i, q := range p.Parent().Params {
				if q == p {
					pi = i
				}
			}
			if ok2, why := paramFlowsFrom(h, p.Parent(), pi, pred, depth+1); !ok2 {
				return false, why
			}
			continue
		}
		return false, fmt.Sprintf("caller %s passes %s", ir.FuncName(e.Caller.Func), ir.Describe(a))
	}
	return true, ""
}

func paramIndex(p *ssa.Parameter) int {
	for i, q := range p.Parent().Params {
		if q == p {
			return i
		}
	}
	return -1
}

// isLogEntryOffset: v loads the Offset field of a *proto.LogEntry.
func isLogEntryField(v ssa.Value, field string) bool {
	r, ok := ir.FieldLoadOf(ir.Canon(v))
	return ok && r.Is("proto", "LogEntry", field)
}

// ruleR01d: every DB.ProcessWrite call site in package server is behind a commit guard.
func ruleR01d(h *H, rule string) {
	h.Rule(rule, "K1", "every kv.DB.ProcessWrite call site of the server is (i) in the leader's quorum-commit continuation, (ii) only reachable from BecomeLeader after its quorum wait, or (iii) guarded by entry.Offset <= advertised commit offset", 2)
	worker := writeWorker(h, rule)
	var app *appendSite
	if worker != nil {
		app = workerAppend(h, rule, worker)
	}
	bl := h.implMethod(rule, "server", "LeaderController", "BecomeLeader")
	ft := h.implType(rule, "server", "FollowerController")
	sites := h.P.AllCalls(func(f *ssa.Function) bool { return ir.InRepo(f) }, dbProcessWrite)
	for _, s := range sites {
		pkg := ir.RelPkg(ir.PkgPathOf(s.Fn))
		if pkg != "server" {
			// maelstrom / tools: not part of the replicated server
			if pkg == "server/kv" {
				continue
			}
			h.Note("ProcessWrite call outside package server ignored: %s in %s", h.pos(s.Call), ir.FuncName(s.Fn))
			continue
		}
		h.Fn(ir.FuncName(s.Fn))
		name := "ProcessWrite call in " + ir.FuncName(ir.Outermost(s.Fn))
		if worker != nil && regionRoot(s.Fn) == worker {
			if app == nil {
				continue
			}
			ok, why := checkCommitContinuation(h, worker, app, s.Call)
			h.Verdict(ok, rule, name, h.pos(s.Call), "(i) "+why, why)
			continue
		}
		ok, why := guardedUpwards(h, s.Call, bl, ft, 0, map[*ssa.Function]bool{})
		h.Verdict(ok, rule, name, h.pos(s.Call), why, "apply site is not behind a commit guard: "+why)
	}
}

// guardedUpwards climbs the static call chain above `site` until a commit guard is found
// on every chain.
func guardedUpwards(h *H, site ssa.Instruction, becomeLeader *ssa.Function, follower interface{ String() string }, depth int, onPath map[*ssa.Function]bool) (bool, string) {
	fn := site.Parent()
	// (ii) in BecomeLeader behind the wait
	if becomeLeader != nil && fn == becomeLeader {
		waits := h.P.CallsIn(fn, qatWait)
		if len(waits) == 0 {
			return false, "BecomeLeader has no WaitForCommitOffset"
		}
		for _, w := range waits {
			if ok, why, _ := ir.SuccessDominated(w, site); !ok {
				return false, "in BecomeLeader but not behind its quorum wait: " + why
			}
		}
		return true, "(ii) reached from BecomeLeader only after WaitForCommitOffset succeeded"
	}
	// (iii) comparison guard entry.Offset <= X, X from the advertised commit offset
	for _, g := range ir.CmpGuards(site) {
		for _, cmp := range []ir.Cmp{g, g.Flip()} {
			if !isLogEntryField(cmp.L, "Offset") || (cmp.Op != token.LEQ && cmp.Op != token.LSS) {
				continue
			}
			r := ir.Canon(cmp.R)
			isAdv := func(v ssa.Value) bool {
				for _, ft := range h.P.Impls("server", "FollowerController") {
					if isAtomicLoadOfField(v, "server", ft.Obj().Name(), "advertisedCommitOffset") {
						return true
					}
				}
				return false
			}
			if isAdv(r) {
				return true, "(iii) guarded by entry.Offset " + cmp.Op.String() + " advertisedCommitOffset"
			}
			if p, ok := r.(*ssa.Parameter); ok {
				if ok2, why := paramFlowsFrom(h, p.Parent(), paramIndex(p), isAdv, 0); ok2 {
					return true, "(iii) guarded by entry.Offset " + cmp.Op.String() + " " + p.Name() + ", which every caller takes from advertisedCommitOffset"
				} else {
					return false, "offset guard bound " + p.Name() + " does not come from the advertised commit offset: " + why
				}
			}
			return false, "offset guard bound is " + ir.Describe(r) + ", not the advertised commit offset"
		}
	}
	if depth >= 6 {
		return false, "no commit guard within 6 call levels"
	}
	if onPath[fn] {
		return true, "recursive chain"
	}
	onPath[fn] = true
	defer delete(onPath, fn)
	// closures: continue at the place the literal is created
	if fn.Parent() != nil {
		sites := ir.ClosureSites(fn)
		if len(sites) == 0 {
			return false, "function literal " + ir.FuncName(fn) + " is never instantiated"
		}
		for _, mc := range sites {
			// a local closure that is only called in place (`apply := func(..){..}; ...
			// apply(x)`) runs where it is called, not where it is written down
			if calls, only := localClosureCalls(mc); only && len(calls) > 0 {
				for _, c := range calls {
					if ok, why := guardedUpwards(h, c, becomeLeader, follower, depth+1, onPath); !ok {
						return false, why
					}
				}
				continue
			}
			if ok, why := guardedUpwards(h, mc, becomeLeader, follower, depth+1, onPath); !ok {
				return false, why
			}
		}
		return true, "via enclosing function"
	}
	edges := h.P.CallersOf(fn)
	if len(edges) == 0 {
		return false, "reached root " + ir.FuncName(fn) + " without passing a commit guard"
	}
	reason := ""
	for _, e := range edges {
		if e.Site == nil || !ir.InRepo(e.Caller.Func) {
			return false, "called from outside the repository: " + ir.FuncName(e.Caller.Func)
		}
		ok, why := guardedUpwards(h, e.Site, becomeLeader, follower, depth+1, onPath)
		if !ok {
			return false, why + " (via " + ir.FuncName(e.Caller.Func) + ")"
		}
		reason = why
	}
	return true, reason
}

// localClosureCalls: the direct calls of a function literal in the function that creates
// it; only=true when the literal is used for nothing else (not passed on, not stored in a
// field, not started as a goroutine).
func localClosureCalls(mc *ssa.MakeClosure) (calls []ssa.Instruction, only bool) {
	only = true
	fn := mc.Parent()
	ir.Instrs(fn, func(in ssa.Instruction) {
		if in == ssa.Instruction(mc) {
			return
		}
		if c, isCall := in.(*ssa.Call); isCall && ir.Canon(c.Call.Value) == ssa.Value(mc) {
			calls = append(calls, in)
			for _, a := range c.Call.Args {
				if ir.Canon(a) == ssa.Value(mc) {
					only = false
				}
			}
			return
		}
		for _, op := range in.Operands(nil) {
			if *op == nil || ir.Canon(*op) != ssa.Value(mc) {
				continue
			}
			switch x := in.(type) {
			case *ssa.Store:
				if _, local := x.Addr.(*ssa.Alloc); !local || x.Val != *op {
					only = false
				}
			case *ssa.UnOp, *ssa.DebugRef, *ssa.Phi:
			default:
				only = false
			}
		}
	})
	return calls, only
}

// ruleR01f: the WAL marks an offset as synced only after a successful flush.
func ruleR01f(h *H, rule string) {
	h.Rule(rule, "K1", "every store to the WAL's lastSyncedOffset is success-dominated by the segment flush, re-initialises the log (truncate/clear/recover), or is the no-sync configuration branch; the queued sync callbacks receive the flush error", 4)
	wt := h.implType(rule, "server/wal", "Wal")
	if wt == nil {
		return
	}
	tn := wt.Obj().Name()
	flush := ir.Callee{Pkg: "server/wal", Recv: "ReadWriteSegment", Name: "Flush"}
	ws := h.P.FieldWrites("server/wal", tn, "lastSyncedOffset")
	if len(ws) == 0 {
		h.Anchor(rule, tn+".lastSyncedOffset writers")
	}
	for i, w := range ws {
		fnName := ir.FuncName(ir.Outermost(w.Fn))
		name := fmt.Sprintf("lastSyncedOffset write #%d in %s", countBefore(ws, i, w.Fn)+1, fnName)
		h.Fn(ir.FuncName(w.Fn))
		if w.Kind == "addr-escape" {
			h.Unknown(rule, name, h.pos(w.Instr), "address of lastSyncedOffset escapes")
			continue
		}
		// (re)initialisation of the log (truncate / clear / recovery): the same value is
		// stored into lastAppendedOffset in the same function
		reinit := false
		for _, a := range h.P.FieldWrites("server/wal", tn, "lastAppendedOffset") {
			if a.Fn == w.Fn && a.Val != nil && w.Val != nil && (ir.SameExpr(a.Val, w.Val) || sameConst(a.Val, w.Val)) {
				reinit = true
			}
		}
		if reinit {
			h.OK(rule, name, h.pos(w.Instr), "log (re)initialisation: appended and synced offsets are set to the same value")
			continue
		}
		flushes := h.P.CallsIn(w.Fn, flush)
		if len(flushes) > 0 {
			okAll := true
			for _, f := range flushes {
				ok, why, path := ir.SuccessDominated(f, w.Instr)
				if !ok {
					okAll = false
					h.Bad(rule, name, h.pos(w.Instr), "offset marked as synced without a successful Flush: "+why, witness(path))
				}
			}
			if okAll {
				h.OK(rule, name, h.pos(w.Instr), "success-dominated by ReadWriteSegment.Flush")
			}
			continue
		}
		// no flush in this function: only acceptable under the !syncData guard
		guarded := false
		for _, g := range ir.Guards(w.Instr) {
			if ir.DependsOn(g.Cond, func(v ssa.Value) bool { return ir.LoadsField(v, "server/wal", tn, "syncData") }) {
				cmp := g
				// the branch taken must be the one where syncData is false
				cond := cmp.Cond
				taken := cmp.Taken
				if u, ok := cond.(*ssa.UnOp); ok && u.Op == token.NOT {
					cond, taken = u.X, !taken
				}
				if ir.LoadsField(cond, "server/wal", tn, "syncData") && !taken {
					guarded = true
				}
			}
		}
		h.Verdict(guarded, rule, name, h.pos(w.Instr), "only when syncData is disabled by configuration", "lastSyncedOffset advanced without a flush in "+fnName)
	}
	// callbacks receive the flush error
	for _, fn := range h.P.Funcs {
		if ir.RelPkg(ir.PkgPathOf(fn)) != "server/wal" {
			continue
		}
		flushes := h.P.CallsIn(fn, flush)
		if len(flushes) == 0 || !writesField(ws, fn) {
			continue
		}
		ir.Instrs(fn, func(in ssa.Instruction) {
			call := ir.CallOf(in)
			if call == nil || call.IsInvoke() || call.StaticCallee() != nil {
				return
			}
			if len(call.Args) != 1 || !ir.IsError(call.Args[0].Type()) {
				return
			}
			dep := ir.DependsOn(call.Args[0], func(v ssa.Value) bool {
				for _, f := range flushes {
					if v == f.Value() {
						return true
					}
				}
				return false
			})
			h.Verdict(dep, rule, "sync callback argument in "+ir.FuncName(fn), h.pos(in), "callbacks receive the Flush result", "a sync completion callback is invoked with an error value that does not come from Flush")
		})
	}
}

func writesField(ws []ir.FieldWrite, fn *ssa.Function) bool {
	for _, w := range ws {
		if w.Fn == fn {
			return true
		}
	}
	return false
}

func countBefore(ws []ir.FieldWrite, i int, fn *ssa.Function) int {
	n := 0
	for j := 0; j < i; j++ {
		if ws[j].Fn == fn {
			n++
		}
	}
	return n
}

// ruleR03d: truncate-before-attach.
func ruleR03d(h *H, rule string) {
	h.Rule(rule, "K1", "a follower cursor is only created after the follower was truncated to the last common entry, and starts at the head that truncation returned", 1)
	sites := h.P.AllCalls(ir.InPkg("server"), newFollowerCursor)
	if len(sites) == 0 {
		h.Anchor(rule, "call of NewFollowerCursor in package server")
	}
	for _, s := range sites {
		h.Fn(ir.FuncName(s.Fn))
		name := "NewFollowerCursor in " + ir.FuncName(s.Fn)
		// the truncation helper: a static call in the same function that reaches the Truncate RPC
		var trunc []ssa.CallInstruction
		ir.Instrs(s.Fn, func(in ssa.Instruction) {
			ci, ok := in.(ssa.CallInstruction)
			if !ok || ci == s.Call {
				return
			}
			if h.P.CallStaticallyReaches(ci, h.P.MatchPred(rpcTruncate)) {
				trunc = append(trunc, ci)
			}
		})
		if len(trunc) == 0 {
			h.Bad(rule, name, h.pos(s.Call), "no call reaching the Truncate RPC precedes the creation of the follower cursor")
			continue
		}
		ok := true
		detail := ""
		for _, t := range trunc {
			if sd, why, path := ir.SuccessDominated(t, s.Call); !sd {
				ok = false
				detail = "cursor creation not success-dominated by the truncation step: " + why + " " + witness(path)
			}
		}
		// start offset = .Offset of the entry id returned by the truncation step
		args := s.Call.Common().Args
		start := args[len(args)-1]
		good := false
		if r, isField := ir.FieldLoadOf(ir.Canon(start)); isField && r.Field == "Offset" {
			base := ir.Canon(r.Base)
			for _, t := range trunc {
				if ex, isEx := base.(*ssa.Extract); isEx && ex.Tuple == t.Value() {
					good = true
				}
				if base == t.Value() {
					good = true
				}
			}
		}
		if ok && !good {
			ok = false
			detail = "the cursor's start offset is " + ir.Describe(start) + ", not the Offset of the head returned by the truncation step"
		}
		h.Verdict(ok, rule, name, h.pos(s.Call), "created after "+describeCallee(trunc[0].Common())+" succeeded, starting at the returned head offset", detail)
	}
}

// ruleNoTruncateDecision: the truncation helper may hand the follower's own head back
// (i.e. decide "no truncation needed") only when the leader's log provably contains
// that entry: same term and offset not beyond a reference entry of the leader's log.
func ruleNoTruncateDecision(h *H, rule string) {
	h.Rule(rule, "K11", "the truncation step returns the follower's reported head unchanged only under head.Term == ref.Term && head.Offset <= ref.Offset for one reference entry ref of the leader's own log", 1)
	sites := h.P.AllCalls(ir.InPkg("server"), newFollowerCursor)
	seen := map[*ssa.Function]bool{}
	for _, s := range sites {
		ir.Instrs(s.Fn, func(in ssa.Instruction) {
			ci, ok := in.(ssa.CallInstruction)
			if !ok || ci == s.Call {
				return
			}
			f := ci.Common().StaticCallee()
			if f == nil || seen[f] || !h.P.CallStaticallyReaches(ci, h.P.MatchPred(rpcTruncate)) {
				return
			}
			seen[f] = true
			h.Fn(ir.FuncName(f))
			checkNoTruncateReturns(h, rule, f)
		})
	}
	if len(seen) == 0 {
		h.Anchor(rule, "the truncation helper called before NewFollowerCursor")
	}
}

func checkNoTruncateReturns(h *H, rule string, f *ssa.Function) {
	var head *ssa.Parameter
	for _, p := range f.Params {
		if ir.TypeIs(p.Type(), "proto", "EntryId") {
			head = p
		}
	}
	if head == nil {
		h.Anchor(rule, "EntryId parameter of "+ir.FuncName(f))
		return
	}
	n := 0
	ir.Instrs(f, func(in ssa.Instruction) {
		ret, ok := in.(*ssa.Return)
		if !ok || len(ret.Results) != 2 {
			return
		}
		if ir.Canon(ir.ReturnValues(ret)[0]) != ssa.Value(head) {
			return
		}
		n++
		name := fmt.Sprintf("%s: return of the follower's own head #%d", ir.FuncName(f), n)
		cmps, bind := ir.CmpGuardsX(in)
		restore := ir.Bind(bind)
		defer restore()
		isHeadField := func(v ssa.Value, field string) bool {
			r, ok := ir.FieldLoadOf(ir.Canon(v))
			return ok && r.Is("proto", "EntryId", field) && ir.Canon(r.Base) == ssa.Value(head)
		}
		refBase := func(v ssa.Value, field string) (ssa.Value, bool) {
			r, ok := ir.FieldLoadOf(ir.Canon(v))
			if ok && r.Is("proto", "EntryId", field) && ir.Canon(r.Base) != ssa.Value(head) {
				return r.Base, true
			}
			return nil, false
		}
		good := false
		for _, c1 := range cmps {
			for _, t := range []ir.Cmp{c1, c1.Flip()} {
				if t.Op != token.EQL || !isHeadField(t.L, "Term") {
					continue
				}
				ref, ok := refBase(t.R, "Term")
				if !ok {
					continue
				}
				for _, c2 := range cmps {
					for _, o := range []ir.Cmp{c2, c2.Flip()} {
						if (o.Op == token.LEQ || o.Op == token.LSS || o.Op == token.EQL) && isHeadField(o.L, "Offset") {
							if ref2, ok := refBase(o.R, "Offset"); ok && ir.SameExpr(ref, ref2) {
								good = true
							}
						}
					}
				}
			}
		}
		h.Verdict(good, rule, name, h.pos(in), "guarded by head.Term == ref.Term && head.Offset <= ref.Offset on one reference entry",
			"the follower's head is accepted without truncation although the guards do not establish that the leader's log contains that entry (need term equality and offset bound against the same leader entry)")
	})
	if n == 0 {
		h.Note("%s never returns its EntryId parameter unchanged", ir.FuncName(f))
	}
}

func sameConst(a, b ssa.Value) bool {
	ca, ok1 := ir.Canon(a).(*ssa.Const)
	cb, ok2 := ir.Canon(b).(*ssa.Const)
	return ok1 && ok2 && ca.Value != nil && cb.Value != nil && ca.Value.ExactString() == cb.Value.ExactString()
}

// ruleReusedDecodeTargetReset: vtproto's UnmarshalVT *merges* into its receiver. When a
// message object lives across iterations of a loop (pooled / declared outside), it must
// be reset between two unmarshals, otherwise every entry also re-applies the content of
// the previous ones.
func ruleReusedDecodeTargetReset(h *H, rule string) {
	h.Rule(rule, "K1", "a message object that is reused across loop iterations is reset (ResetVT/Reset) on every path between two UnmarshalVT calls into it", 1)
	n := 0
	for _, fn := range h.P.Funcs {
		if ir.RelPkg(ir.PkgPathOf(fn)) != "server" {
			continue
		}
		ir.Instrs(fn, func(in ssa.Instruction) {
			c, ok := in.(*ssa.Call)
			if !ok {
				return
			}
			f := c.Call.StaticCallee()
			if f == nil || f.Name() != "UnmarshalVT" || len(c.Call.Args) < 1 {
				return
			}
			// only inside a loop
			if r, _ := ir.Reach(ir.Search{From: in}, ir.Is(in)); !r {
				return
			}
			recv := ir.Canon(c.Call.Args[0])
			// fresh per iteration: the receiver is created on the cycle through this call
			if ri, isI := recv.(ssa.Instruction); isI && ri.Parent() == fn {
				onCycle := false
				if r1, _ := ir.Reach(ir.Search{From: in}, ir.Is(ri)); r1 {
					onCycle = true
				}
				if onCycle {
					return
				}
			}
			n++
			h.Fn(ir.FuncName(fn))
			isReset := func(x ssa.Instruction) bool {
				cc, ok := x.(*ssa.Call)
				if !ok {
					return false
				}
				ff := cc.Call.StaticCallee()
				return ff != nil && (ff.Name() == "ResetVT" || ff.Name() == "Reset") && len(cc.Call.Args) > 0 && ir.Canon(cc.Call.Args[0]) == recv
			}
			r, path := ir.Reach(ir.Search{From: in, Barrier: isReset}, ir.Is(in))
			h.Verdict(!r, rule, fmt.Sprintf("reused decode target #%d in %s", n, ir.FuncName(fn)), h.pos(in), "reset before every UnmarshalVT",
				"a reused message is unmarshalled again without being reset: UnmarshalVT merges, so each log entry also re-applies the writes of the entries decoded before it in the same pass", witness(path))
		})
	}
	if n == 0 {
		h.Note("no reused UnmarshalVT target inside a loop in package server")
		h.OK(rule, "reused decode targets", "", "none")
	}
}

// ruleSyncCompletionsCovered: the WAL's sync loop completes every queued sync request of
// a round with the result of one flush. The flush covers what had been appended when the
// loop took its snapshot of the appended offset, so every request completed in the round
// must have been received before that snapshot: no receive from the sync-request channel
// (directly or through a helper) may be dominated by the snapshot. Otherwise an entry
// appended after the snapshot is reported durable (and LastOffset() lags behind it).
func ruleSyncCompletionsCovered(h *H, rule string) {
	h.Rule(rule, "K1", "in the WAL sync loop no sync request is received after (dominated by) the read of the appended offset whose value is then stored as the synced offset", 1)
	wt := h.implType(rule, "server/wal", "Wal")
	if wt == nil {
		return
	}
	tn := wt.Obj().Name()
	flush := ir.Callee{Pkg: "server/wal", Recv: "ReadWriteSegment", Name: "Flush"}
	isCbChan := func(t types.Type) bool {
		ch, ok := t.Underlying().(*types.Chan)
		if !ok {
			return false
		}
		sig, ok := ch.Elem().Underlying().(*types.Signature)
		return ok && sig.Params().Len() == 1 && ir.IsError(sig.Params().At(0).Type())
	}
	receives := func(in ssa.Instruction) bool {
		switch x := in.(type) {
		case *ssa.UnOp:
			return x.Op == token.ARROW && isCbChan(x.X.Type())
		case *ssa.Select:
			for _, st := range x.States {
				if st.Dir == types.RecvOnly && isCbChan(st.Chan.Type()) {
					return true
				}
			}
		}
		return false
	}
	n := 0
	for _, w := range h.P.FieldWrites("server/wal", tn, "lastSyncedOffset") {
		if w.Val == nil || len(h.P.CallsIn(w.Fn, flush)) == 0 {
			continue
		}
		snap, ok := ir.Canon(w.Val).(*ssa.Call)
		if !ok {
			continue
		}
		if _, isLoad := isAtomicCallOnField(snap, "Load", "server/wal", tn, "lastAppendedOffset"); !isLoad {
			continue
		}
		fn := w.Fn
		n++
		h.Fn(ir.FuncName(fn))
		bad := ""
		ir.Instrs(fn, func(in ssa.Instruction) {
			if bad != "" || !ir.Dominates(snap, in) {
				return
			}
			isRecv := receives(in)
			if ci, isCall := in.(ssa.CallInstruction); isCall && !isRecv {
				if g := ci.Common().StaticCallee(); g != nil && ir.InRepo(g) && g.Blocks != nil {
					seen := map[*ssa.Function]bool{}
					var scan func(f *ssa.Function, d int) bool
					scan = func(f *ssa.Function, d int) bool {
						if seen[f] || d > 3 {
							return false
						}
						seen[f] = true
						found := false
						ir.Instrs(f, func(x ssa.Instruction) {
							if receives(x) {
								found = true
							}
							if c2, ok := x.(ssa.CallInstruction); ok && !found {
								if g2 := c2.Common().StaticCallee(); g2 != nil && ir.InRepo(g2) && g2.Blocks != nil && scan(g2, d+1) {
									found = true
								}
							}
						})
						return found
					}
					isRecv = scan(g, 0)
				}
			}
			if isRecv {
				bad = "sync requests are still received at " + h.pos(in) + " after the appended offset was read (" + h.pos(snap) + "): an entry appended in between is reported durable by this round although the flush and the synced offset do not cover it"
			}
		})
		if site := ir.SingleCallSite(fn); site != nil && bad == "" {
			// the round was extracted into a helper: what the caller does after the call,
			// before it completes the collected requests, belongs to the same round
			caller := site.Parent()
			h.Fn(ir.FuncName(caller))
			ir.Instrs(caller, func(in ssa.Instruction) {
				if bad == "" && in != ssa.Instruction(site) && ir.Dominates(site, in) && receives(in) {
					bad = "sync requests are still received at " + h.pos(in) + " after the round's helper read the appended offset: an entry appended in between is reported durable by this round although the flush and the synced offset do not cover it"
				}
			})
		}
		h.Verdict(bad == "", rule, "sync round in "+ir.FuncName(fn), h.pos(snap), "all requests of a round are received before the snapshot of the appended offset", bad)
		// the offset marked as synced is the one read before the flush: what was appended
		// while the flush ran is not covered by it
		for _, fl := range h.P.CallsIn(fn, flush) {
			ok := ir.Dominates(snap, fl)
			h.Verdict(ok, rule, "synced offset read before the flush in "+ir.FuncName(fn), h.pos(snap), "the appended offset is read before ReadWriteSegment.Flush and stored after it",
				"the offset stored as synced is read at "+h.pos(snap)+", not before the flush at "+h.pos(fl)+": entries appended while the flush was running are reported durable (LastOffset, follower acks, leader completions) although no flush covers them")
		}
		// the flush may only be skipped when the synced offset, read afresh in this round,
		// already equals the snapshot: truncation / clear move the synced offset backwards,
		// so a remembered copy can claim "already synced" for entries that are not
		for _, fl := range h.P.CallsIn(fn, flush) {
			skip := ""
			for _, g := range ir.CmpGuards(fl) {
				for _, c := range []ir.Cmp{g, g.Flip()} {
					if ir.Canon(c.L) != ssa.Value(snap) && ir.Canon(c.R) != ssa.Value(snap) {
						continue
					}
					other := c.L
					if ir.Canon(c.L) == ssa.Value(snap) {
						other = c.R
					}
					ld, isCall := ir.Canon(other).(*ssa.Call)
					fresh := false
					if isCall {
						if _, isLoad := isAtomicCallOnField(ld, "Load", "server/wal", tn, "lastSyncedOffset"); isLoad {
							// read in the same round as the snapshot: both in the loop body, or
							// both in a per-round helper (neither can reach itself)
							ldLoops, _ := ir.Reach(ir.Search{From: ld}, ir.Is(ld))
							snapLoops, _ := ir.Reach(ir.Search{From: snap}, ir.Is(snap))
							if ldLoops == snapLoops {
								fresh = true
							}
						}
					}
					if !fresh {
						skip = "the flush is skipped by comparing the appended offset with " + ir.Describe(other) + ", not with the synced offset read in this round: after a truncation (which moves the synced offset back) re-appended entries are reported durable without a flush and LastOffset() does not advance"
					}
				}
			}
			h.Verdict(skip == "", rule, "flush skipped only when already synced in "+ir.FuncName(fn), h.pos(fl), "the skip test reads lastSyncedOffset afresh in every round", skip)
		}
	}
	if n == 0 {
		h.Anchor(rule, "the sync loop storing a snapshot of lastAppendedOffset into lastSyncedOffset after Flush")
	}
}

// ruleCommittedContinuationsSucceed: once the commit offset has reached a queued request's
// offset, the entry is committed — a fact that no longer depends on the caller. The
// function that pops such a request from the queue must complete it successfully
// (OnComplete): the leader applies the entry to its DB only in that continuation, so
// completing it with an error (a cancelled context, ...) makes the leader skip an entry
// that every follower and every replay applies.
func ruleCommittedContinuationsSucceed(h *H, rule string) {
	h.Rule(rule, "K1", "in the ack tracker every request popped from the commit queue is completed with OnComplete on every path (no OnCompleteError, no silent drop)", 1)
	qt := h.implType(rule, "server", "QuorumAckTracker")
	if qt == nil {
		return
	}
	tn := qt.Obj().Name()
	// the queue field: a slice of records holding a Callback
	st, ok := qt.Underlying().(*types.Struct)
	if !ok {
		return
	}
	queue := ""
	for i := 0; i < st.NumFields(); i++ {
		if sl, isSl := st.Field(i).Type().Underlying().(*types.Slice); isSl {
			if es, isSt := sl.Elem().Underlying().(*types.Struct); isSt {
				for j := 0; j < es.NumFields(); j++ {
					if ir.TypeIs(es.Field(j).Type(), "common/concurrent", "Callback") {
						queue = st.Field(i).Name()
					}
				}
			}
		}
	}
	if queue == "" {
		h.Anchor(rule, "the queue of waiting commit requests in "+tn)
		return
	}
	n := 0
	for _, w := range h.P.FieldWrites("server", tn, queue) {
		// a pop: queue = queue[1:]
		sl, isSlice := ir.Canon(w.Val).(*ssa.Slice)
		if w.Val == nil || !isSlice || sl.Low == nil {
			continue
		}
		fn := w.Fn
		n++
		h.Fn(ir.FuncName(fn))
		isOk := func(in ssa.Instruction) bool {
			c := ir.CallOf(in)
			return c != nil && c.IsInvoke() && c.Method.Name() == "OnComplete" && ir.TypeIs(c.Value.Type(), "common/concurrent", "Callback")
		}
		bad := ""
		// batch form: `ready := queue[:k]; queue = queue[k:]; for _, r := range ready { r.cb.OnComplete }`
		if _, one := ir.Canon(sl.Low).(*ssa.Const); !one {
			bad = batchPopCompletesAll(h, fn, w.Instr, sl, isOk)
			h.Verdict(bad == "", rule, fmt.Sprintf("commit queue pop #%d in %s", n, ir.FuncName(fn)), h.pos(w.Instr), "every popped request reaches OnComplete", bad)
			continue
		}
		// from the pop, every way to the next pop / to a return passes OnComplete
		ir.Instrs(fn, func(in ssa.Instruction) {
			if bad != "" {
				return
			}
			_, isRet := in.(*ssa.Return)
			if !isRet && in != w.Instr {
				return
			}
			if r, path := ir.Reach(ir.Search{From: w.Instr, Barrier: isOk}, ir.Is(in)); r {
				bad = "a request taken off the commit queue can be left without its success continuation " + witness(path) + ": the entry is committed (followers and replays apply it) but the leader, which applies it only in that continuation, skips it"
			}
		})
		// and it is not failed
		ir.Instrs(fn, func(in ssa.Instruction) {
			c := ir.CallOf(in)
			if c != nil && c.IsInvoke() && c.Method.Name() == "OnCompleteError" && bad == "" {
				if r, _ := ir.Reach(ir.Search{From: w.Instr, Barrier: isOk}, ir.Is(in)); r {
					bad = "a request taken off the commit queue is completed with an error at " + h.pos(in) + " although its entry is committed: the leader skips an entry that every follower and every replay applies"
				}
			}
		})
		h.Verdict(bad == "", rule, fmt.Sprintf("commit queue pop #%d in %s", n, ir.FuncName(fn)), h.pos(w.Instr), "every popped request reaches OnComplete", bad)
	}
	if n == 0 {
		h.Anchor(rule, "the pop from the commit queue ("+tn+"."+queue+" = "+queue+"[1:])")
	}
}

// batchPopCompletesAll: the queue is cut at k (`queue = queue[k:]`); the cut-off prefix
// `queue[:k]` must be walked by a loop that completes every element successfully: the
// loop is on every path from the cut to a return, its body always reaches OnComplete of
// the current element before the next iteration, never leaves the function and never
// completes with an error. Returns "" when that holds.
func batchPopCompletesAll(h *H, fn *ssa.Function, pop ssa.Instruction, cut *ssa.Slice, isOk func(ssa.Instruction) bool) string {
	// the prefix: a slice of the same queue value with High == the cut point
	var prefix *ssa.Slice
	ir.Instrs(fn, func(in ssa.Instruction) {
		if s2, ok := in.(*ssa.Slice); ok && s2 != cut && s2.High != nil && ir.Canon(s2.High) == ir.Canon(cut.Low) && ir.SameExpr(s2.X, cut.X) {
			if l, isC := ir.Canon(s2.Low).(*ssa.Const); s2.Low == nil || (isC && l.Int64() == 0) {
				prefix = s2
			}
		}
	})
	if prefix == nil {
		return "the queue is cut at " + ir.Describe(cut.Low) + " but the cut-off prefix is not kept: the requests taken off the queue are dropped without their success continuation"
	}
	// the loop that completes the elements of the prefix
	var header *ssa.BasicBlock
	ir.Instrs(fn, func(in ssa.Instruction) {
		if !isOk(in) {
			return
		}
		c := ir.CallOf(in)
		if ir.DependsOn(c.Value, func(v ssa.Value) bool { return ir.Canon(v) == ssa.Value(prefix) }) {
			if hd := ir.EnclosingLoopHeader(in.Block()); hd != nil {
				header = hd
			}
		}
	})
	if header == nil {
		return "no loop completes the elements of the cut-off prefix with OnComplete"
	}
	loop := ir.LoopBlocks(header)
	bad := ""
	// (a) every way from the cut to a return goes through the loop
	inHeader := func(in ssa.Instruction) bool { return in.Block() == header }
	ir.Instrs(fn, func(in ssa.Instruction) {
		if _, isRet := in.(*ssa.Return); isRet && bad == "" && !loop[in.Block()] {
			if r, path := ir.Reach(ir.Search{From: pop, Barrier: inHeader}, ir.Is(in)); r {
				bad = "the function can return after cutting the queue without walking the cut-off prefix " + witness(path)
			}
		}
	})
	// (b) an iteration neither skips its element nor leaves the function nor fails it
	for _, succ := range header.Succs {
		if !loop[succ] || succ == header || bad != "" {
			continue
		}
		if r, path := ir.Reach(ir.Search{FromBlock: succ, Barrier: isOk}, func(in ssa.Instruction) bool {
			if in.Block() == header {
				return true
			}
			if _, isRet := in.(*ssa.Return); isRet {
				return true
			}
			c := ir.CallOf(in)
			return c != nil && c.IsInvoke() && c.Method.Name() == "OnCompleteError"
		}); r {
			bad = "an iteration over the requests taken off the commit queue can go on, return or fail the request without its success continuation " + witness(path) + ": the entry is committed (followers and replays apply it) but the leader, which applies it only in that continuation, skips it"
		}
	}
	return bad
}

// ruleCommitCheckUnderLock: deciding "this offset is already committed, complete at once"
// and putting the request on the queue otherwise must be one atomic step with respect to
// the acks that advance the commit offset: both happen with the tracker mutex held.
// Otherwise an ack between the test and the enqueue leaves the request on the queue
// although its offset is committed (it is then completed late, out of offset order, or never).
func ruleCommitCheckUnderLock(h *H, rule string) {
	h.Rule(rule, "K2", "in the function that enqueues commit waiters every read of the commit offset is made with the tracker mutex held, in the critical section of the enqueue", 1)
	qt := h.implType(rule, "server", "QuorumAckTracker")
	if qt == nil {
		return
	}
	tn := qt.Obj().Name()
	n := 0
	for _, root := range h.P.ImplMethods("server", "QuorumAckTracker", "WaitForCommitOffsetAsync") {
		// the enqueue: a store to a slice field of the tracker built by append, in the
		// method itself or in a helper extracted from it
		var enq ssa.Instruction
		var enqFn *ssa.Function
		region := helperFuncs(root)
		for _, fn := range region {
			h.Fn(ir.FuncName(fn))
			fn := fn
			ir.Instrs(fn, func(in ssa.Instruction) {
				st, ok := in.(*ssa.Store)
				if !ok {
					return
				}
				if c, isCall := ir.Canon(st.Val).(*ssa.Call); isCall {
					if b, isB := c.Call.Value.(*ssa.Builtin); isB && b.Name() == "append" {
						if r, isF := ir.FieldAddrOf(st.Addr); isF && r.Struct != nil && r.Struct.Obj().Name() == tn {
							enq, enqFn = in, fn
						}
					}
				}
			})
		}
		if enq == nil {
			continue
		}
		heldEnq := ir.HeldAt(enqFn)
		for _, fn := range region {
			fn := fn
			held := ir.HeldAt(fn)
			ir.Instrs(fn, func(in ssa.Instruction) {
				c, ok := in.(*ssa.Call)
				if !ok {
					return
				}
				if _, isLoad := isAtomicCallOnField(c, "Load", "server", tn, "commitOffset"); !isLoad {
					return
				}
				n++
				// bring the read and the enqueue into one function: a read inside a
				// predicate helper stands at the helper's call site
				at, atFn, enqAt := ssa.Instruction(in), fn, enq
				if fn != enqFn {
					if up := liftToRoot(enqFn, in); up != nil {
						at, atFn = up, enqFn
					} else if up := liftToRoot(fn, enq); up != nil {
						enqAt = up
					}
				}
				heldAt := held
				if atFn != fn {
					heldAt = ir.HeldAt(atFn)
				}
				heldE := heldEnq
				if enqAt != enq {
					heldE = held
				}
				locked := false
				for l := range heldAt[at] {
					if !strings.HasPrefix(l, "R:") && heldE[enqAt][l] {
						locked = true
					}
				}
				same := false
				if locked && at.Parent() == enqAt.Parent() {
					same, _ = ir.SameCriticalSection(at.Parent(), at, enqAt)
				}
				h.Verdict(locked && same, rule, fmt.Sprintf("commit offset read #%d in %s", n, ir.FuncName(root)), h.pos(in), "read and enqueue in one critical section of the tracker mutex",
					"the commit offset is tested outside the critical section that enqueues the waiter: an ack that commits the offset in between finds no waiter, and the request stays queued although it is committed (completed late and out of order, or never)")
			})
		}
	}
	if n == 0 {
		h.Anchor(rule, "reads of the commit offset in the WaitForCommitOffsetAsync implementation")
	}
}

// ruleCommittedEntryAlwaysApplied: the leader applies an entry to its DB only in the
// success continuation of its commit wait. Once that continuation runs the entry is
// committed: followers apply it and every replay applies it. The continuation therefore
// has to reach the apply call on every path — a shortcut (a cancelled request context, a
// closed stream, "nobody is waiting for the answer") makes the leader skip an entry and
// stamp the next one over the gap.
func ruleCommittedEntryAlwaysApplied(h *H, rule string) {
	h.Rule(rule, "K1", "the success continuation of the leader's commit wait reaches kv.DB.ProcessWrite on every path (no early return before the apply)", 1)
	worker := writeWorker(h, rule)
	if worker == nil {
		return
	}
	n := 0
	for _, s := range h.P.AllCalls(func(f *ssa.Function) bool { return regionRoot(f) == worker }, dbProcessWrite) {
		cc := enclosingCommitContinuation(h, s.Fn)
		if cc.Problem != "" || cc.OkFn == nil {
			continue // R01d reports an apply site outside the continuation
		}
		n++
		ok := cc.OkFn
		h.Fn(ir.FuncName(ok))
		applies := func(in ssa.Instruction) bool {
			ci, isCall := in.(ssa.CallInstruction)
			return isCall && h.P.CallStaticallyReaches(ci, h.P.MatchPred(dbProcessWrite))
		}
		bad := ""
		var w []int
		ir.Instrs(ok, func(in ssa.Instruction) {
			if _, isRet := in.(*ssa.Return); isRet && bad == "" && in.Block() != ok.Recover {
				if pass, path := ir.MustPass(ok, nil, in, applies); !pass {
					bad = "the continuation that runs once the entry is committed can return without applying it: the leader's DB skips an entry that every follower and every replay applies, and the next entry stamps its commit offset over the gap"
					w = path
				}
			}
		})
		h.Verdict(bad == "", rule, "committed entry applied in "+ir.FuncName(ok), h.pos(s.Call), "every path of the continuation applies the entry", bad, witness(w))
	}
	if n == 0 {
		h.Anchor(rule, "the apply call inside the commit continuation of the leader write worker")
	}
}
