package props

import (
	"fmt"
	"go/constant"
	"go/token"
	"go/types"
	"strings"

	"golang.org/x/tools/go/ssa"

	"oxiaverif/internal/chk"
	"oxiaverif/internal/ir"
)

// Frequently used callee identities (API anchors; resolved by type, not by text).
var (
	qatWaitAsync   = ir.Callee{Pkg: "server", Recv: "QuorumAckTracker", Name: "WaitForCommitOffsetAsync"}
	qatWait        = ir.Callee{Pkg: "server", Recv: "QuorumAckTracker", Name: "WaitForCommitOffset"}
	qatNextOffset  = ir.Callee{Pkg: "server", Recv: "QuorumAckTracker", Name: "NextOffset"}
	qatAdvanceHead = ir.Callee{Pkg: "server", Recv: "QuorumAckTracker", Name: "AdvanceHeadOffset"}
	walAppendSync  = ir.Callee{Pkg: "server/wal", Recv: "Wal", Name: "AppendAndSync"}
	walAppendAsync = ir.Callee{Pkg: "server/wal", Recv: "Wal", Name: "AppendAsync"}
	walAppend      = ir.Callee{Pkg: "server/wal", Recv: "Wal", Name: "Append"}
	walSync        = ir.Callee{Pkg: "server/wal", Recv: "Wal", Name: "Sync"}
	walLastOffset  = ir.Callee{Pkg: "server/wal", Recv: "Wal", Name: "LastOffset"}
	walNewReader   = ir.Callee{Pkg: "server/wal", Recv: "Wal", Name: "NewReader"}
	walNewRevRdr   = ir.Callee{Pkg: "server/wal", Recv: "Wal", Name: "NewReverseReader"}
	walTruncate    = ir.Callee{Pkg: "server/wal", Recv: "Wal", Name: "TruncateLog"}
	walClear       = ir.Callee{Pkg: "server/wal", Recv: "Wal", Name: "Clear"}
	dbProcessWrite = ir.Callee{Pkg: "server/kv", Recv: "DB", Name: "ProcessWrite"}
	dbReadCommit   = ir.Callee{Pkg: "server/kv", Recv: "DB", Name: "ReadCommitOffset"}
	dbUpdateTerm   = ir.Callee{Pkg: "server/kv", Recv: "DB", Name: "UpdateTerm"}
	dbClose        = ir.Callee{Pkg: "server/kv", Recv: "DB", Name: "Close"}
	newOnce        = ir.Callee{Pkg: "common/concurrent", Recv: "", Name: "NewOnce"}
	cbOnComplete   = ir.Callee{Pkg: "common/concurrent", Recv: "Callback", Name: "OnComplete"}
	cbOnCompleteEr = ir.Callee{Pkg: "common/concurrent", Recv: "Callback", Name: "OnCompleteError"}
)

// H bundles a context with shorthand helpers.
type H struct {
	*chk.Ctx
	P *ir.Prog
}

func newH(c *chk.Ctx) *H {
	h := &H{Ctx: c, P: c.P}
	resolveFieldRoles(h)
	return h
}

// fn resolves a function anchor and records it; reports an unresolved anchor otherwise.
func (h *H) fn(rule, pkg, recv, name string) *ssa.Function {
	f := h.P.Func(pkg, recv, name)
	if f == nil {
		h.Anchor(rule, fmt.Sprintf("function %s.%s.%s", pkg, recv, name))
		return nil
	}
	h.Fn(ir.FuncName(f))
	return f
}

// implMethod resolves the method `name` of the unique repository type implementing
// interface pkg.iface.
func (h *H) implMethod(rule, pkg, iface, name string) *ssa.Function {
	ms := h.P.ImplMethods(pkg, iface, name)
	if len(ms) != 1 {
		h.Anchor(rule, fmt.Sprintf("method %s of the (unique) implementation of %s.%s (found %d)", name, pkg, iface, len(ms)))
		return nil
	}
	h.Fn(ir.FuncName(ms[0]))
	return ms[0]
}

// implType returns the unique concrete type implementing an interface.
func (h *H) implType(rule, pkg, iface string) *types.Named {
	ts := h.P.Impls(pkg, iface)
	if len(ts) != 1 {
		h.Anchor(rule, fmt.Sprintf("unique implementation of %s.%s (found %d)", pkg, iface, len(ts)))
		return nil
	}
	return ts[0]
}

func (h *H) pos(in ssa.Instruction) string { return h.P.InstrPos(in) }

func witness(path []int) string {
	if len(path) == 0 {
		return ""
	}
	var s []string
	for _, b := range path {
		s = append(s, fmt.Sprintf("b%d", b))
	}
	return "blocks " + strings.Join(s, "→")
}

// constVal looks a package-level constant up (e.g. proto.ServingStatus_LEADER).
func (h *H) constVal(pkg, name string) (constant.Value, bool) {
	var tp *types.Package
	if pk := h.P.Package(pkg); pk != nil {
		tp = pk.Types
	}
	if tp == nil {
		return nil, false
	}
	c, ok := tp.Scope().Lookup(name).(*types.Const)
	if !ok {
		return nil, false
	}
	return c.Val(), true
}

// isConst reports whether v is the given constant.
func (h *H) isConst(v ssa.Value, pkg, name string) bool {
	want, ok := h.constVal(pkg, name)
	if !ok {
		return false
	}
	c, ok := ir.Canon(v).(*ssa.Const)
	if !ok || c.Value == nil {
		return false
	}
	return constant.Compare(c.Value, token.EQL, want)
}

// fieldStores lists the stores to pkg.typ.field inside fn (and nested closures if deep).
func (h *H) fieldStores(fn *ssa.Function, deep bool, pkg, typ, field string) []ir.FieldWrite {
	var out []ir.FieldWrite
	for _, w := range h.P.FieldWrites(pkg, typ, field) {
		if w.Fn == fn || (deep && ir.Outermost(w.Fn) == ir.Outermost(fn) && isNestedIn(w.Fn, fn)) {
			out = append(out, w)
		}
	}
	return out
}

func isNestedIn(inner, outer *ssa.Function) bool {
	for f := inner; f != nil; f = f.Parent() {
		if f == outer {
			return true
		}
	}
	return false
}

// writerNames renders the set of functions writing a field, for allow-list rules.
func writerNames(ws []ir.FieldWrite) map[string][]ir.FieldWrite {
	m := map[string][]ir.FieldWrite{}
	for _, w := range ws {
		n := ir.FuncName(ir.Outermost(w.Fn))
		m[n] = append(m[n], w)
	}
	return m
}

// whoWrites checks that the functions writing pkg.typ.field are exactly within the
// allow-list (names as printed by ir.FuncName of the outermost function). Each allowed
// writer that exists is an instance; a writer outside the list is a violation.
func (h *H) whoWrites(rule, pkg, typ, field string, allowed map[string]string) {
	if !h.P.HasField(pkg, typ, field) {
		h.Anchor(rule, fmt.Sprintf("field %s.%s.%s", pkg, typ, field))
		return
	}
	ws := writerNames(h.P.FieldWrites(pkg, typ, field))
	for name, list := range ws {
		construct := fmt.Sprintf("writer of %s.%s: %s", typ, field, name)
		if reason, ok := allowed[name]; ok {
			h.OK(rule, construct, h.pos(list[0].Instr), "allowed: "+reason)
		} else {
			h.Bad(rule, construct, h.pos(list[0].Instr), fmt.Sprintf("%s (%s) writes %s.%s but is not in the frozen writer table", name, list[0].Kind, typ, field))
		}
	}
}

// callersOf lists repository call sites of a callee.
func (h *H) callersOf(spec ir.Callee) []ir.CallSite {
	return h.P.AllCalls(nil, spec)
}

// whoCalls checks that the callers of spec are within the allow-list.
func (h *H) whoCalls(rule string, spec ir.Callee, allowed map[string]string) {
	sites := h.callersOf(spec)
	for _, s := range sites {
		name := ir.FuncName(ir.Outermost(s.Fn))
		construct := fmt.Sprintf("caller of %s: %s", spec, name)
		if reason, ok := allowed[name]; ok {
			h.OK(rule, construct, h.pos(s.Call), "allowed: "+reason)
		} else {
			h.Bad(rule, construct, h.pos(s.Call), fmt.Sprintf("%s calls %s but is not in the frozen caller table", name, spec))
		}
	}
}

// argOf returns the i-th *declared* argument of a call (skipping the receiver for
// static method calls; invoke-mode calls do not carry the receiver in Args).
func argOf(c *ssa.CallCommon, i int) ssa.Value {
	args := c.Args
	if !c.IsInvoke() {
		if f := c.StaticCallee(); f != nil && f.Signature.Recv() != nil {
			args = args[1:]
		} else if c.Signature().Recv() != nil {
			args = args[1:]
		}
	}
	if i < len(args) {
		return args[i]
	}
	return nil
}

// closureArg returns the function literal passed (directly) as an argument value.
func closureArg(v ssa.Value) *ssa.Function {
	switch x := v.(type) {
	case *ssa.MakeClosure:
		if m := ir.BoundMethod(x); m != nil {
			return m // a method value: the method itself is the continuation
		}
		f, _ := x.Fn.(*ssa.Function)
		return f
	case *ssa.Function:
		return x
	case *ssa.ChangeType:
		return closureArg(x.X)
	case *ssa.MakeInterface:
		return closureArg(x.X)
	case *ssa.Call:
		// a closure factory: an extracted repository function whose only return hands out a
		// function literal
		if f := x.Call.StaticCallee(); f != nil && ir.InRepo(f) && f.Blocks != nil {
			var rets []*ssa.Return
			ir.Instrs(f, func(in ssa.Instruction) {
				if r, ok := in.(*ssa.Return); ok {
					rets = append(rets, r)
				}
			})
			if len(rets) == 1 && len(rets[0].Results) == 1 {
				if _, isCall := rets[0].Results[0].(*ssa.Call); !isCall {
					return closureArg(rets[0].Results[0])
				}
			}
		}
	}
	return nil
}

// closureUses lists the instructions that use the function value created by mc: its
// referrers, and — when the literal is returned from an extracted single-call-site
// factory — the referrers of the factory call.
func closureUses(mc *ssa.MakeClosure) []ssa.Instruction {
	var out []ssa.Instruction
	if mc.Referrers() == nil {
		return nil
	}
	for _, r := range *mc.Referrers() {
		out = append(out, r)
		if ret, ok := r.(*ssa.Return); ok && len(ret.Results) == 1 {
			if site := ir.SingleCallSite(ret.Parent()); site != nil {
				if v, ok := site.(ssa.Value); ok && v.Referrers() != nil {
					out = append(out, *v.Referrers()...)
				}
			}
		}
	}
	return out
}

// regionRoot climbs from fn to the function it belongs to when extracted single-call-site
// helpers are folded back into their only caller.
func regionRoot(fn *ssa.Function) *ssa.Function {
	f := ir.Outermost(fn)
	for i := 0; i < 8; i++ {
		if site := ir.SingleCallSite(f); site != nil {
			f = ir.Outermost(site.Parent())
			continue
		}
		if mv := ir.MethodValueSites(f); len(mv) == 1 && len(ir.StaticCallSites(f)) == 0 {
			f = ir.Outermost(mv[0].Parent())
			continue
		}
		return f
	}
	return f
}

// regionOf lists root, its function literals and, transitively, the extracted
// single-call-site helpers called from them (with their literals).
func regionOf(root *ssa.Function) []*ssa.Function {
	var out []*ssa.Function
	seen := map[*ssa.Function]bool{}
	var add func(f *ssa.Function)
	add = func(f *ssa.Function) {
		for _, g := range ir.WithAnon(f) {
			if seen[g] {
				continue
			}
			seen[g] = true
			out = append(out, g)
			ir.Instrs(g, func(in ssa.Instruction) {
				if ci, ok := in.(ssa.CallInstruction); ok {
					if callee := ci.Common().StaticCallee(); callee != nil && ir.SingleCallSite(callee) == ci {
						add(callee)
					}
				}
				// continuations written as methods of a state struct and passed as method values
				if mc, ok := in.(*ssa.MakeClosure); ok {
					if m := ir.BoundMethod(mc); m != nil && ir.InRepo(m) && len(ir.MethodValueSites(m)) == 1 && len(ir.StaticCallSites(m)) == 0 {
						add(m)
					}
				}
			})
		}
	}
	add(root)
	return out
}

// onceArgs decodes concurrent.NewOnce(ok, fail) behind a callback argument.
func (h *H) onceArgs(v ssa.Value) (ok, fail *ssa.Function) {
	call, isCall := ir.Canon(throughFactory(v)).(*ssa.Call)
	if !isCall || !h.P.Matches(call.Common(), newOnce) {
		return nil, nil
	}
	return closureArg(argOf(call.Common(), 0)), closureArg(argOf(call.Common(), 1))
}

// compositeFieldValue finds, for a composite literal value `&T{...}` (an Alloc with
// field stores), the value stored into the named field.
func compositeFieldValue(v ssa.Value, field string) ssa.Value {
	al, ok := v.(*ssa.Alloc)
	if !ok {
		if mi, ok2 := v.(*ssa.MakeInterface); ok2 {
			return compositeFieldValue(mi.X, field)
		}
		return nil
	}
	if al.Referrers() == nil {
		return nil
	}
	for _, r := range *al.Referrers() {
		fa, ok := r.(*ssa.FieldAddr)
		if !ok {
			continue
		}
		ref, ok := ir.FieldAddrOf(fa)
		if !ok || ref.Field != field || fa.Referrers() == nil {
			continue
		}
		for _, rr := range *fa.Referrers() {
			if st, ok := rr.(*ssa.Store); ok && st.Addr == fa {
				return st.Val
			}
		}
	}
	return nil
}

// fencingQuorumFn finds the coordinator function that fans NewTerm out to the nodes:
// the function of coordinator/controllers that starts goroutines whose body
// (statically) reaches the NewTerm RPC and that returns the map of responders.
func fencingQuorumFn(h *H, rule string) *ssa.Function {
	var out []*ssa.Function
	for _, fn := range h.P.Funcs {
		if fn.Parent() != nil || ir.RelPkg(ir.PkgPathOf(fn)) != "coordinator/controllers" {
			continue
		}
		res := fn.Signature.Results()
		if res.Len() != 2 {
			continue
		}
		if _, isMap := res.At(0).Type().Underlying().(*types.Map); !isMap {
			continue
		}
		spawns := false
		for _, a := range fn.AnonFuncs {
			if ok, _ := h.P.StaticReaches(a, h.P.MatchPred(ir.Callee{Pkg: "coordinator/rpc", Recv: "Provider", Name: "NewTerm"})); ok {
				spawns = true
			}
		}
		hasGo := false
		ir.Instrs(fn, func(in ssa.Instruction) {
			if g, ok := in.(*ssa.Go); ok {
				hasGo = true
				// the goroutine body may be an extracted method instead of a literal
				if h.P.CallStaticallyReaches(g, h.P.MatchPred(ir.Callee{Pkg: "coordinator/rpc", Recv: "Provider", Name: "NewTerm"})) {
					spawns = true
				}
			}
		})
		if spawns && hasGo {
			out = append(out, fn)
		}
	}
	if len(out) != 1 {
		h.Anchor(rule, fmt.Sprintf("the coordinator function fanning NewTerm out to the fencing quorum (found %d)", len(out)))
		return nil
	}
	h.Fn(ir.FuncName(out[0]))
	return out[0]
}

// liftToRoot maps an instruction of an extracted single-call-site helper (see regionOf)
// to the call instruction in root through which it executes; an instruction of root maps
// to itself. nil when `in` does not belong to root's region (or sits in a function literal).
func liftToRoot(root *ssa.Function, in ssa.Instruction) ssa.Instruction {
	for i := 0; i < 8; i++ {
		f := in.Parent()
		if f == root {
			return in
		}
		site := ir.SingleCallSite(f)
		if site == nil {
			return nil
		}
		in = site
	}
	return nil
}

// helperFuncs lists root and the extracted single-call-site helpers called (transitively)
// from root's own body, without function literals.
func helperFuncs(root *ssa.Function) []*ssa.Function {
	out := []*ssa.Function{root}
	for i := 0; i < len(out); i++ {
		ir.Instrs(out[i], func(in ssa.Instruction) {
			if ci, ok := in.(ssa.CallInstruction); ok {
				if callee := ci.Common().StaticCallee(); callee != nil && ir.SingleCallSite(callee) == ci && callee.Blocks != nil {
					out = append(out, callee)
				}
			}
		})
	}
	return out
}

// mayReturnNilError: the last result of ret is an error that is not provably non-nil.
func mayReturnNilError(ret *ssa.Return) bool {
	vals := ir.ReturnValues(ret)
	if len(vals) == 0 {
		return true
	}
	return valueMayBeNilAt(vals[len(vals)-1], ret)
}

// helperResult is one value an extracted helper can hand out at a result position
// together with the return statement that does so.
type helperResult struct {
	V   ssa.Value
	Ret *ssa.Return
}

// helperSuccessResults: when v is the i-th result of a call to a repository helper whose
// last result is an error, it returns that call and, for every return of the helper that
// may report success, the value returned at position i (in the helper's own context).
func helperSuccessResults(v ssa.Value) (*ssa.Call, []helperResult) {
	ex, ok := ir.Canon(v).(*ssa.Extract)
	if !ok {
		return nil, nil
	}
	call, ok := ex.Tuple.(*ssa.Call)
	if !ok {
		return nil, nil
	}
	g := call.Call.StaticCallee()
	if g == nil || g.Blocks == nil || !ir.InRepo(g) || !ir.HasErrResult(call) {
		return nil, nil
	}
	var out []helperResult
	ir.Instrs(g, func(in ssa.Instruction) {
		ret, isRet := in.(*ssa.Return)
		if !isRet || in.Block() == g.Recover {
			return
		}
		vals := ir.ReturnValues(ret)
		if ex.Index >= len(vals) || !mayReturnNilError(ret) {
			return
		}
		out = append(out, helperResult{V: vals[ex.Index], Ret: ret})
	})
	return call, out
}

// callsOrHelpers lists the calls of specs in fn and the calls in fn of unexported helpers
// (only ever called statically) that (statically) reach one of specs: for ordering rules the
// helper call stands for the operation it wraps.
func (h *H) callsOrHelpers(fn *ssa.Function, specs ...ir.Callee) []ssa.CallInstruction {
	out := h.P.CallsIn(fn, specs...)
	ir.Instrs(fn, func(in ssa.Instruction) {
		ci, ok := in.(ssa.CallInstruction)
		if !ok {
			return
		}
		g := ci.Common().StaticCallee()
		if g == nil || g.Blocks == nil || !ir.InRepo(g) || len(ir.StaticCallSites(g)) == 0 {
			return
		}
		if h.P.Matches(ci.Common(), specs[0]) {
			return
		}
		if h.P.CallStaticallyReaches(ci, h.P.MatchPred(specs...)) {
			out = append(out, ci)
		}
	})
	return out
}

// bindRegion activates, for the extracted single-call-site helpers of root, the binding
// of their parameters to the arguments of their only call, so that values inside a helper
// compare equal (Canon / SameExpr) to the caller's values. Returns the restore function.
func bindRegion(root *ssa.Function) func() {
	b := ir.Binding{}
	for _, g := range helperFuncs(root)[1:] {
		site := ir.SingleCallSite(g)
		if site == nil {
			continue
		}
		for i, p := range g.Params {
			if i < len(site.Common().Args) {
				b[p] = site.Common().Args[i]
			}
		}
	}
	return ir.Bind(b)
}

// throughFactory follows a value that is the single result of a call to a repository
// function with exactly one return statement (a factory / wrapper) to the returned
// expression, repeatedly. The returned value lives in the factory's own context.
func throughFactory(v ssa.Value) ssa.Value {
	for i := 0; i < 3; i++ {
		c, ok := ir.Canon(v).(*ssa.Call)
		if !ok {
			return v
		}
		f := c.Call.StaticCallee()
		if f == nil || f.Blocks == nil || !ir.InRepo(f) || f.Object() == nil || f.Object().Exported() {
			return v // only extracted (unexported) helpers are looked through, never an API
		}
		var rets []*ssa.Return
		ir.Instrs(f, func(in ssa.Instruction) {
			if r, ok := in.(*ssa.Return); ok && in.Block() != f.Recover {
				rets = append(rets, r)
			}
		})
		if len(rets) != 1 || len(rets[0].Results) != 1 {
			return v
		}
		v = rets[0].Results[0]
	}
	return v
}

// valueUses lists the instructions using v and, when v is handed back by an extracted
// single-call-site function (its only return), the users of that call's value.
func valueUses(v ssa.Value) []ssa.Instruction {
	var out []ssa.Instruction
	for depth := 0; depth < 3 && v != nil && v.Referrers() != nil; depth++ {
		var next ssa.Value
		for _, r := range *v.Referrers() {
			out = append(out, r)
			if ret, ok := r.(*ssa.Return); ok && len(ret.Results) == 1 {
				if site := ir.SingleCallSite(ret.Parent()); site != nil {
					if sv, ok := site.(ssa.Value); ok {
						next = sv
					}
				}
			}
		}
		v = next
	}
	return out
}

// liftThroughLocalClosure: a call made inside a function literal that is only ever called
// in place, at exactly one site of the enclosing function (`step := func(..) error {..};
// ... if err := step(x); err != nil`), is represented by that site — provided a failure
// of the inner call makes the literal fail (every return that may report success is only
// reached when the inner call succeeded). Otherwise the call is returned unchanged.
func liftThroughLocalClosure(call ssa.CallInstruction, stop func(*ssa.Function) bool) ssa.CallInstruction {
	for depth := 0; depth < 3; depth++ {
		fn := call.Parent()
		if stop != nil && stop(fn) {
			return call
		}
		var outer ssa.CallInstruction
		if fn.Parent() == nil {
			// an extracted named step with a single call site works the same way
			outer = ir.SingleCallSite(fn)
			if outer == nil {
				return call
			}
		} else {
			sites := ir.ClosureSites(fn)
			if len(sites) != 1 {
				return call
			}
			calls, only := localClosureCalls(sites[0])
			if !only || len(calls) != 1 {
				return call
			}
			oc, ok := calls[0].(ssa.CallInstruction)
			if !ok {
				return call
			}
			outer = oc
		}
		if ev := ir.ErrResult(call); ev != nil {
			propagates := ir.HasErrResult(outer)
			ir.Instrs(fn, func(in ssa.Instruction) {
				if ret, isRet := in.(*ssa.Return); isRet && mayReturnNilError(ret) {
					if okOnly, _ := ir.OkOnly(fn, ev, call, ret); !okOnly {
						// a return that hands on (a wrapping of) the inner error is a failure
						vals := ir.ReturnValues(ret)
						if len(vals) == 0 || !ir.DependsOn(vals[len(vals)-1], func(v ssa.Value) bool { return v == ev }) {
							propagates = false
						}
					}
				}
			})
			if !propagates {
				return call
			}
		}
		call = outer
	}
	return call
}

// closureRunsAt: the instruction of the enclosing function at which a function literal
// executes synchronously: its only in-place call, or the call that hands it to a
// repository helper which invokes that parameter itself (`x.withLock(func() {...})`).
// nil when the literal is stored, started as a goroutine or used in several places.
func closureRunsAt(fn *ssa.Function) ssa.Instruction {
	if fn.Parent() == nil {
		return nil
	}
	sites := ir.ClosureSites(fn)
	if len(sites) != 1 {
		return nil
	}
	mc := sites[0]
	if calls, only := localClosureCalls(mc); only && len(calls) == 1 {
		return calls[0]
	}
	var at ssa.Instruction
	n := 0
	ir.Instrs(mc.Parent(), func(in ssa.Instruction) {
		c, ok := in.(*ssa.Call)
		if !ok {
			return
		}
		g := c.Call.StaticCallee()
		if g == nil || !ir.InRepo(g) || g.Blocks == nil {
			return
		}
		args := c.Call.Args
		for i, a := range args {
			if ir.Canon(a) != ssa.Value(mc) || i >= len(g.Params) {
				continue
			}
			invoked, escaped := false, false
			p := g.Params[i]
			if p.Referrers() != nil {
				for _, r := range *p.Referrers() {
					switch x := r.(type) {
					case *ssa.Call:
						if x.Call.Value == ssa.Value(p) {
							invoked = true
						} else {
							escaped = true
						}
					case *ssa.DebugRef:
					default:
						escaped = true
					}
				}
			}
			if invoked && !escaped {
				at = in
				n++
			}
		}
	})
	if n == 1 {
		return at
	}
	return nil
}
