package props

import (
	"fmt"
	"go/token"
	"go/types"
	"strings"

	"golang.org/x/tools/go/ssa"

	"oxiaverif/internal/chk"
	"oxiaverif/internal/ir"
)

func init() { register("C13", checkC13) }

func checkC13(c *chk.Ctx) {
	h := newH(c)
	c.Decided = []string{
		"R13g the apply path does not index one list with an index bounded only by another list's length (a legal logged request must not panic)",
		"R13f the records the server itself stores in a format other than StorageEntry live under keys that no client request can name (open finding F29: notification batches are stored under __oxia/notifications/ and requests are not kept out of the __oxia/ key space)",
		"R13e while a request is applied, a method is only called on a possibly-nil helper object of the kv package (the per-write notification recorder is nil when notifications are disabled) under a nil test at the call or inside the method: applying a request never panics because of the shard's configuration",
		"R13a the error result of applying a logged request can only originate from the storage layer / (de)serialisation of stored data: no repository sentinel that classifies request content, no error constructed while applying, no parse of request- or key-derived text",
		"R13c the step of BecomeLeader that re-arms the sessions from the replayed DB (SessionManager.Initialize) cannot fail because of what a stored key or value looks like: its error only originates from the storage layer",
		"R13d the loops that replay / apply the log (leader replay in BecomeLeader, follower apply loop) can only fail with an error of the log reader, of the generated decoder of the entry, or of ProcessWrite: no check of their own on what the logged request looks like, and no decoder stricter than the one that accepted the request",
		"R13b both apply loops stop at the first apply error (which is why R13a is a necessary condition)",
	}
	c.NotDec = []string{
		"panics on malformed-but-decodable requests (nil fields)",
		"that the infrastructure errors themselves are independent of the request content (e.g. Pebble's own limits)",
	}
	ruleR13a(h)
	ruleR13c(h)
	ruleR13d(h)
	ruleR13e(h)
	ruleR13f(h)
	ruleParallelSliceIndex(h, "R13g")
	h.Rule("R13b", "K1", "apply loops stop at the first failing entry (shared with R07c)", 4)
	ruleR07cInto(h, "R13b")
}

// origin classification ---------------------------------------------------------

// infrastructure: packages whose errors are storage / serialisation failures
var infraExtPrefixes = []string{
	"github.com/cockroachdb/pebble",
	"io.", "os.",
	"github.com/oxia-db/oxia/proto.", // generated (un)marshalling of stored entries
	"proto.",
	"github.com/edsrzf/mmap-go",
}

// content-dependent library failures: parsing text that derives from the request or from keys
var contentExtPrefixes = []string{"fmt.Sscan", "fmt.Fscan", "strconv.", "net/url.", "regexp.", "encoding/json.", "time.Parse"}

func classifyOrigin(o ir.ErrOrigin) (string, string) {
	switch o.Kind {
	case "sentinel":
		return "forbidden", "repository sentinel " + o.Name + " classifies the request / key content"
	case "new":
		return "forbidden", "an error is constructed while applying (" + o.Name + "): it depends only on what the request or the stored keys look like"
	case "ext":
		for _, p := range contentExtPrefixes {
			if strings.HasPrefix(o.Name, p) {
				return "forbidden", "parse of request-/key-derived text (" + o.Name + ")"
			}
		}
		if strings.HasPrefix(o.Name, "google.golang.org/protobuf") {
			return "forbidden", "the reflection-based protobuf codec (" + o.Name + ") rejects string fields that are not valid UTF-8, while requests and log entries are decoded with the generated UnmarshalVT, which accepts them: a request carrying such a key or value is logged and then fails here"
		}
		for _, p := range infraExtPrefixes {
			if strings.HasPrefix(o.Name, p) {
				return "allowed", "infrastructure"
			}
		}
		return "unknown", "library call " + o.Name + " is in neither table"
	}
	return "unknown", o.Name
}

func ruleR13a(h *H) {
	const rule = "R13a"
	h.Rule(rule, "K4", "origins of the error returned by kv.DB.ProcessWrite are infrastructure only (storage engine, (de)serialisation of stored entries)", 3)
	prov := ir.NewErrProv(h.P)
	prov.Descend = func(f *ssa.Function) bool {
		switch ir.RelPkg(ir.PkgPathOf(f)) {
		case "proto":
			return false
		}
		return true
	}
	for _, fn := range applyRoots(h, rule) {
		h.Fn(ir.FuncName(fn))
		origins := ir.SortedOrigins(prov.ReturnOrigins(fn))
		if len(origins) == 0 {
			h.Anchor(rule, "error origins of "+ir.FuncName(fn))
			continue
		}
		allowed := 0
		for _, o := range origins {
			class, why := classifyOrigin(o)
			name := fmt.Sprintf("error origin %s of kv.DB.ProcessWrite", o.Key())
			switch class {
			case "allowed":
				allowed++
				h.OK(rule, name, h.P.Pos(o.Pos), why+" (enters in "+o.Via+")")
			case "forbidden":
				h.Bad(rule, name, h.P.Pos(o.Pos), "ProcessWrite can fail with an error that depends only on the request's content: "+why+" (enters in "+o.Via+"). A logged request that triggers it stops the follower apply loop and BecomeLeader on every replica, forever")
			default:
				h.Unknown(rule, name, h.P.Pos(o.Pos), why+" (enters in "+o.Via+")")
			}
		}
		h.Note("%d error origins of %s, %d infrastructure", len(origins), ir.FuncName(fn), allowed)
	}
}

// ruleR13c: BecomeLeader replays the log and then re-arms the sessions found in the DB.
// The session namespace can hold anything a client managed to write there, so this step
// must skip what it cannot parse: an error that depends on the content of a stored key or
// value would make every later election of the shard fail, on every replica.
func ruleR13c(h *H) {
	const rule = "R13c"
	h.Rule(rule, "K4", "origins of the error returned by the SessionManager.Initialize implementation are infrastructure only (no parse of stored keys / values, no constructed or sentinel error)", 1)
	prov := ir.NewErrProv(h.P)
	prov.Descend = func(f *ssa.Function) bool {
		switch ir.RelPkg(ir.PkgPathOf(f)) {
		case "proto", "server/kv", "server/wal":
			return false // the storage layer below: its errors are infrastructure by definition here
		}
		// reads through the leader controller's own API (ListBlock) are storage accesses too
		if f.Signature.Recv() != nil {
			for _, lt := range h.P.Impls("server", "LeaderController") {
				if ir.TypeIs(f.Signature.Recv().Type(), "server", lt.Obj().Name()) {
					return false
				}
			}
		}
		return true
	}
	fns := h.P.ImplMethods("server", "SessionManager", "Initialize")
	if len(fns) == 0 {
		h.Anchor(rule, "SessionManager.Initialize implementation")
		return
	}
	for _, fn := range fns {
		h.Fn(ir.FuncName(fn))
		origins := ir.SortedOrigins(prov.ReturnOrigins(fn))
		if len(origins) == 0 {
			h.OK(rule, "error origins of SessionManager.Initialize", h.P.Pos(fn.Pos()), "never fails")
			continue
		}
		for _, o := range origins {
			name := fmt.Sprintf("error origin %s of SessionManager.Initialize", o.Key())
			class, why := classifyOrigin(o)
			if o.Kind == "ext" && (strings.HasPrefix(o.Name, "server.") || strings.HasPrefix(o.Name, "server/kv.") || strings.HasPrefix(o.Name, "github.com/oxia-db/oxia/server/kv.") || strings.HasPrefix(o.Name, "server/wal.")) {
				class, why = "allowed", "storage layer"
			}
			switch class {
			case "allowed":
				h.OK(rule, name, h.P.Pos(o.Pos), why+" (enters in "+o.Via+")")
			case "forbidden":
				h.Bad(rule, name, h.P.Pos(o.Pos), "re-arming the sessions during BecomeLeader can fail with an error that depends only on stored content: "+why+" (enters in "+o.Via+"). One such key or value in the session namespace makes every later election of the shard fail")
			default:
				h.Unknown(rule, name, h.P.Pos(o.Pos), why+" (enters in "+o.Via+")")
			}
		}
	}
}

// ruleR13d: the apply loops themselves (between reading an entry and handing its requests
// to ProcessWrite) must not add a failure that depends on the logged content. The write
// path decodes requests with the generated UnmarshalVT and appends them without looking
// inside, so whatever the loop rejects was already accepted, acknowledged and replicated.
func ruleR13d(h *H) {
	const rule = "R13d"
	h.Rule(rule, "K4", "origins of the error returned by the log apply loops (functions of package server that read a wal.Reader and reach kv.DB.ProcessWrite) are the log reader, the generated entry decoder and the storage layer only", 2)
	prov := ir.NewErrProv(h.P)
	prov.Descend = func(f *ssa.Function) bool {
		switch ir.RelPkg(ir.PkgPathOf(f)) {
		case "proto", "server/kv", "server/wal":
			return false
		}
		return true
	}
	n := 0
	for _, fn := range h.P.Funcs {
		if ir.RelPkg(ir.PkgPathOf(fn)) != "server" {
			continue
		}
		reads := h.P.CallsIn(fn, readerReadNext)
		if len(reads) == 0 {
			continue
		}
		reaches := false
		ir.Instrs(fn, func(in ssa.Instruction) {
			if ci, ok := in.(ssa.CallInstruction); ok && h.P.CallStaticallyReaches(ci, h.P.MatchPred(dbProcessWrite)) {
				reaches = true
			}
		})
		if !reaches {
			continue
		}
		n++
		h.Fn(ir.FuncName(fn))
		// the returns inside the loop body: those the read dominates (what the function
		// does before and after the loop is not this rule's business)
		origins := ir.SortedOrigins(prov.ReturnOriginsWhere(fn, func(ret *ssa.Return) bool {
			for _, r := range reads {
				if r.Block() == ret.Block() || r.Block().Dominates(ret.Block()) {
					return true
				}
			}
			return false
		}))
		if len(origins) == 0 {
			h.Anchor(rule, "error origins of "+ir.FuncName(fn))
			continue
		}
		for _, o := range origins {
			name := fmt.Sprintf("error origin %s of apply loop %s", o.Key(), ir.FuncName(fn))
			class, why := classifyOrigin(o)
			for _, pfx := range []string{"server/kv.", "github.com/oxia-db/oxia/server/kv.", "server/wal.", "github.com/oxia-db/oxia/server/wal."} {
				if o.Kind == "ext" && strings.HasPrefix(o.Name, pfx) {
					class, why = "allowed", "log reader / storage layer"
				}
			}
			switch class {
			case "allowed":
				h.OK(rule, name, h.P.Pos(o.Pos), why+" (enters in "+o.Via+")")
			case "forbidden":
				h.Bad(rule, name, h.P.Pos(o.Pos), "the apply loop can fail with an error that depends only on what the logged request looks like: "+why+" (enters in "+o.Via+"). The request was accepted, acknowledged and replicated; every replica that replays it stops here, forever")
			default:
				h.Unknown(rule, name, h.P.Pos(o.Pos), why+" (enters in "+o.Via+")")
			}
		}
	}
	if n == 0 {
		h.Anchor(rule, "apply loops (wal.Reader.ReadNext + kv.DB.ProcessWrite) in package server")
	}
}

// ruleR13e: applying a logged request must end in a status. A nil dereference is worse
// than an error: it kills the leader in the commit callback, every follower in its apply
// loop, and every node that replays the entry in BecomeLeader. The objects that are
// legitimately nil while applying are the optional per-write helpers of the kv package
// (the notification recorder when the shard runs with notifications disabled).
func ruleR13e(h *H) {
	const rule = "R13e"
	h.Rule(rule, "K2", "in server/kv every method call on a receiver that can be nil (a phi with a nil edge, also through helper parameters) is either behind a nil test of that receiver or goes to a method all of whose receiver dereferences are behind its own nil test", 1)
	var maybeNil func(v ssa.Value, depth int) bool
	maybeNil = func(v ssa.Value, depth int) bool {
		if depth > 4 {
			return false
		}
		switch x := ir.Canon(v).(type) {
		case *ssa.Const:
			return x.IsNil()
		case *ssa.Phi:
			for _, e := range x.Edges {
				if c, ok := e.(*ssa.Const); ok && c.IsNil() {
					return true
				}
				if e != ssa.Value(x) && maybeNil(e, depth+1) {
					return true
				}
			}
		case *ssa.Parameter:
			fn := x.Parent()
			for i, p := range fn.Params {
				if p != x {
					continue
				}
				for _, cs := range ir.StaticCallSites(fn) {
					if i < len(cs.Common().Args) && maybeNil(cs.Common().Args[i], depth+1) {
						return true
					}
				}
			}
		}
		return false
	}
	// impliesNonNil: a bool method of the receiver that can only return true for a non-nil receiver
	impliesNonNil := func(g *ssa.Function) bool {
		if g == nil || len(g.Params) == 0 || g.Blocks == nil || g.Signature.Results().Len() != 1 || g.Signature.Results().At(0).Type().String() != "bool" {
			return false
		}
		recv := g.Params[0]
		ok := true
		nret := 0
		ir.Instrs(g, func(in ssa.Instruction) {
			ret, isRet := in.(*ssa.Return)
			if !isRet {
				return
			}
			nret++
			v := ret.Results[0]
			if k, isK := v.(*ssa.Const); isK && k.Value != nil && k.Value.String() == "false" {
				return
			}
			// `return n != nil`, or any value returned behind the receiver's own nil test
			if bo, isBo := v.(*ssa.BinOp); isBo && bo.Op == token.NEQ {
				if (bo.X == ssa.Value(recv) && isNilConst(bo.Y)) || (bo.Y == ssa.Value(recv) && isNilConst(bo.X)) {
					return
				}
			}
			for _, t := range ir.NilTests(recv) {
				if t.NonNil == in.Block() || t.NonNil.Dominates(in.Block()) {
					return
				}
			}
			ok = false
		})
		return ok && nret > 0
	}
	guardedByPredicate := func(v ssa.Value, at ssa.Instruction) bool {
		for _, g := range ir.Guards(at) {
			cond, taken := g.Cond, g.Taken
			for {
				if u, isU := cond.(*ssa.UnOp); isU && u.Op == token.NOT {
					cond, taken = u.X, !taken
					continue
				}
				break
			}
			c, isCall := cond.(*ssa.Call)
			if !isCall || !taken || len(c.Call.Args) == 0 {
				continue
			}
			if ir.Canon(c.Call.Args[0]) == ir.Canon(v) && impliesNonNil(c.Call.StaticCallee()) {
				return true
			}
		}
		return false
	}
	guardedNonNil := func(v ssa.Value, at ssa.Instruction) bool {
		if guardedByPredicate(v, at) {
			return true
		}
		for _, t := range ir.NilTests(ir.Canon(v)) {
			if t.NonNil == at.Block() || t.NonNil.Dominates(at.Block()) {
				return true
			}
		}
		for _, t := range ir.NilTests(v) {
			if t.NonNil == at.Block() || t.NonNil.Dominates(at.Block()) {
				return true
			}
		}
		return false
	}
	var nilSafe func(f *ssa.Function, depth int) (bool, string)
	nilSafe = func(f *ssa.Function, depth int) (bool, string) {
		if len(f.Params) == 0 || f.Blocks == nil || depth > 3 {
			return false, "cannot look into " + ir.FuncName(f)
		}
		recv := f.Params[0]
		ok, where := true, ""
		ir.Instrs(f, func(in ssa.Instruction) {
			if !ok {
				return
			}
			deref := false
			switch x := in.(type) {
			case *ssa.FieldAddr:
				deref = x.X == ssa.Value(recv)
			case *ssa.UnOp:
				deref = x.Op == token.MUL && x.X == ssa.Value(recv)
			case *ssa.Call:
				if g := x.Call.StaticCallee(); g != nil && g != f && len(x.Call.Args) > 0 && x.Call.Args[0] == ssa.Value(recv) && g.Signature.Recv() != nil {
					if s, _ := nilSafe(g, depth+1); !s {
						deref = true
					}
				}
			}
			if deref && !guardedNonNil(recv, in) {
				ok, where = false, h.pos(in)
			}
		})
		return ok, where
	}
	n := 0
	for _, fn := range h.P.Funcs {
		if ir.RelPkg(ir.PkgPathOf(fn)) != "server/kv" || fn.Blocks == nil {
			continue
		}
		fn := fn
		ir.Instrs(fn, func(in ssa.Instruction) {
			c, ok := in.(*ssa.Call)
			if !ok {
				return
			}
			g := c.Call.StaticCallee()
			if g == nil || g.Signature.Recv() == nil || len(c.Call.Args) == 0 || !ir.InRepo(g) {
				return
			}
			if _, isPtr := g.Signature.Recv().Type().Underlying().(*types.Pointer); !isPtr {
				return
			}
			recv := c.Call.Args[0]
			if !maybeNil(recv, 0) {
				return
			}
			n++
			h.Fn(ir.FuncName(fn))
			name := fmt.Sprintf("call of %s on a possibly-nil receiver in %s", g.Name(), ir.FuncName(fn))
			if guardedNonNil(recv, in) {
				h.OK(rule, name, h.pos(in), "behind a nil test of the receiver")
				return
			}
			safe, where := nilSafe(g, 0)
			h.Verdict(safe, rule, name, h.pos(in), "the method tests its receiver before using it", "the receiver can be nil here (the optional helper is absent in some shard configurations) and "+ir.FuncName(g)+" dereferences it without a test at "+where+": applying a logged request of that kind panics on the leader, on every follower and in every later BecomeLeader replay")
		})
	}
	if n == 0 {
		h.Anchor(rule, "method calls on possibly-nil receivers in server/kv")
	}
}

// ruleR13f: applying a put / delete / delete-range decodes the value currently stored under
// the request's key (or under the keys of its range) as a StorageEntry. R13a counts that
// decode as "infrastructure" - which is only true if every value a request key can reach
// IS a StorageEntry. The server also stores records of other formats; those must live
// where request keys cannot go, or a request naming such a key fails to apply on every
// replica, for ever.
func ruleR13f(h *H) {
	const rule = "R13f"
	h.Rule(rule, "K3", "every WriteBatch.Put made by the server stores a serialised StorageEntry (or an empty value), or its key prefix is excluded from request keys by a test on the internal key prefix in front of the apply path's reads", 3)
	isEntryBytes := func(v ssa.Value) bool {
		return ir.DependsOn(v, func(x ssa.Value) bool {
			c, ok := x.(*ssa.Call)
			if !ok {
				return false
			}
			f := c.Call.StaticCallee()
			if f == nil || len(c.Call.Args) == 0 {
				return false
			}
			return strings.HasPrefix(f.Name(), "MarshalVT") && ir.TypeIs(c.Call.Args[0].Type(), "proto", "StorageEntry")
		})
	}
	isEmpty := func(v ssa.Value) bool {
		switch x := ir.Canon(v).(type) {
		case *ssa.Const:
			return true
		case *ssa.Slice:
			if al, ok := x.X.(*ssa.Alloc); ok {
				if pt, isP := al.Type().Underlying().(*types.Pointer); isP {
					if arr, isA := pt.Elem().Underlying().(*types.Array); isA && arr.Len() == 0 {
						return true
					}
				}
			}
		case *ssa.UnOp:
			// a package-level slice that is never assigned anywhere (it stays nil), whatever its name
			if g, ok := x.X.(*ssa.Global); ok && g.Pkg != nil {
				if _, isSlice := g.Type().(*types.Pointer).Elem().Underlying().(*types.Slice); isSlice {
					assigned := false
					check := func(f *ssa.Function) {
						if f == nil || f.Blocks == nil {
							return
						}
						ir.Instrs(f, func(in ssa.Instruction) {
							if st, isSt := in.(*ssa.Store); isSt && st.Addr == ssa.Value(g) {
								assigned = true
							}
						})
					}
					check(g.Pkg.Func("init"))
					for _, m := range g.Pkg.Members {
						if f, isF := m.(*ssa.Function); isF {
							for _, ff := range ir.WithAnon(f) {
								check(ff)
							}
						}
					}
					for _, f := range h.P.Funcs {
						if f.Pkg == g.Pkg {
							check(f)
						}
					}
					return !assigned
				}
			}
		}
		return false
	}
	// is the request key space fenced off from the internal prefix in front of the reads of the apply path?
	fenced := false
	for _, root := range applyRoots(h, rule) {
		for f := range h.P.Closure([]*ssa.Function{root}, applyDescend) {
			if f.Blocks == nil || ir.RelPkg(ir.PkgPathOf(f)) != "server/kv" {
				continue
			}
			for _, c := range h.P.CallsIn(f, batchGet) {
				for _, g := range ir.Guards(c) {
					cond, taken := g.Cond, g.Taken
					if u, ok := cond.(*ssa.UnOp); ok && u.Op == token.NOT {
						cond, taken = u.X, !taken
					}
					if call, ok := cond.(*ssa.Call); ok && !taken {
						if fn := call.Call.StaticCallee(); fn != nil && fn.Name() == "HasPrefix" && len(call.Call.Args) == 2 && h.isConst(call.Call.Args[1], "common/constant", "InternalKeyPrefix") {
							fenced = true
						}
					}
				}
			}
		}
	}
	n := 0
	for _, s := range h.P.AllCalls(func(f *ssa.Function) bool {
		p := ir.RelPkg(ir.PkgPathOf(f))
		return p == "server" || p == "server/kv"
	}, batchPut) {
		val := argOf(s.Call.Common(), 1)
		n++
		h.Fn(ir.FuncName(s.Fn))
		prefix := ""
		if parts, ok := ir.SymString(argOf(s.Call.Common(), 0)); ok && len(parts) > 0 && parts[0].Val == nil {
			prefix = parts[0].Lit
		}
		name := fmt.Sprintf("record stored under %q", prefix)
		switch {
		case isEntryBytes(val) || isEmpty(val):
			h.OK(rule, name, h.pos(s.Call), "a serialised StorageEntry or an empty value")
		case fenced:
			h.OK(rule, name, h.pos(s.Call), "another format, under the internal prefix, which request keys are tested against")
		default:
			h.Bad(rule, name, h.pos(s.Call), fmt.Sprintf("the server stores a record that is not a StorageEntry under %q, and nothing keeps the keys of client requests out of that prefix: a put / delete on such a key (or a delete-range covering it) decodes the record as a StorageEntry, fails with a decode error in ProcessWrite, and stops every follower's apply loop and every later BecomeLeader replay", prefix))
		}
	}
	if n == 0 {
		h.Anchor(rule, "WriteBatch.Put calls of the server")
	}
}
