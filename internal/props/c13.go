package props

import (
	"fmt"
	"strings"

	"golang.org/x/tools/go/ssa"

	"oxiaverif/internal/chk"
	"oxiaverif/internal/ir"
)

func init() { register("C13", checkC13) }

func checkC13(c *chk.Ctx) {
	h := newH(c)
	c.Decided = []string{
		"R13a the error result of applying a logged request can only originate from the storage layer / (de)serialisation of stored data: no repository sentinel that classifies request content, no error constructed while applying, no parse of request- or key-derived text",
		"R13b both apply loops stop at the first apply error (which is why R13a is a necessary condition)",
	}
	c.NotDec = []string{
		"panics on malformed-but-decodable requests (nil fields)",
		"that the infrastructure errors themselves are independent of the request content (e.g. Pebble's own limits)",
	}
	ruleR13a(h)
	h.Rule("R13b", "K1", "apply loops stop at the first failing entry (shared with R07c)", 4)
	ruleR07cInto(h, "R13b")
}

// origin classification ---------------------------------------------------------

// infrastructure: packages whose errors are storage / serialisation failures
var infraExtPrefixes = []string{
	"github.com/cockroachdb/pebble",
	"io.", "os.",
	"github.com/oxia-db/oxia/proto.", // generated (un)marshalling of stored entries
	"proto.",
	"github.com/edsrzf/mmap-go",
}

// content-dependent library failures: parsing text that derives from the request or from keys
var contentExtPrefixes = []string{"fmt.Sscan", "fmt.Fscan", "strconv.", "net/url.", "regexp.", "encoding/json.", "time.Parse"}

func classifyOrigin(o ir.ErrOrigin) (string, string) {
	switch o.Kind {
	case "sentinel":
		return "forbidden", "repository sentinel " + o.Name + " classifies the request / key content"
	case "new":
		return "forbidden", "an error is constructed while applying (" + o.Name + "): it depends only on what the request or the stored keys look like"
	case "ext":
		for _, p := range contentExtPrefixes {
			if strings.HasPrefix(o.Name, p) {
				return "forbidden", "parse of request-/key-derived text (" + o.Name + ")"
			}
		}
		if strings.HasPrefix(o.Name, "google.golang.org/protobuf") {
			return "forbidden", "the reflection-based protobuf codec (" + o.Name + ") rejects string fields that are not valid UTF-8, while requests and log entries are decoded with the generated UnmarshalVT, which accepts them: a request carrying such a key or value is logged and then fails here"
		}
		for _, p := range infraExtPrefixes {
			if strings.HasPrefix(o.Name, p) {
				return "allowed", "infrastructure"
			}
		}
		return "unknown", "library call " + o.Name + " is in neither table"
	}
	return "unknown", o.Name
}

func ruleR13a(h *H) {
	const rule = "R13a"
	h.Rule(rule, "K4", "origins of the error returned by kv.DB.ProcessWrite are infrastructure only (storage engine, (de)serialisation of stored entries)", 3)
	prov := ir.NewErrProv(h.P)
	prov.Descend = func(f *ssa.Function) bool {
		switch ir.RelPkg(ir.PkgPathOf(f)) {
		case "proto":
			return false
		}
		return true
	}
	for _, fn := range applyRoots(h, rule) {
		h.Fn(ir.FuncName(fn))
		origins := ir.SortedOrigins(prov.ReturnOrigins(fn))
		if len(origins) == 0 {
			h.Anchor(rule, "error origins of "+ir.FuncName(fn))
			continue
		}
		allowed := 0
		for _, o := range origins {
			class, why := classifyOrigin(o)
			name := fmt.Sprintf("error origin %s of kv.DB.ProcessWrite", o.Key())
			switch class {
			case "allowed":
				allowed++
				h.OK(rule, name, h.P.Pos(o.Pos), why+" (enters in "+o.Via+")")
			case "forbidden":
				h.Bad(rule, name, h.P.Pos(o.Pos), "ProcessWrite can fail with an error that depends only on the request's content: "+why+" (enters in "+o.Via+"). A logged request that triggers it stops the follower apply loop and BecomeLeader on every replica, forever")
			default:
				h.Unknown(rule, name, h.P.Pos(o.Pos), why+" (enters in "+o.Via+")")
			}
		}
		h.Note("%d error origins of %s, %d infrastructure", len(origins), ir.FuncName(fn), allowed)
	}
}
