package props

import (
	"fmt"
	"go/token"
	"strings"

	"golang.org/x/tools/go/ssa"

	"oxiaverif/internal/chk"
	"oxiaverif/internal/ir"
)

func init() { register("C04", checkC04) }

func checkC04(c *chk.Ctx) {
	h := newH(c)
	c.Decided = []string{
		"R04d a successful Wal.Sync really covers what was appended: sync requests are received before the appended offset is read, and the flush is only skipped against the synced offset read in that round (so the head a fenced node reports after Sync is its real head)",
		"R04a every entry point that mutates the log, acknowledges or changes role evaluates its fence guard (term / status comparison) under the controller lock before the first mutation",
		"R04b the head reported by NewTerm is read after a WAL sync inside the same critical section; the leader appends inside the critical section that checked LEADER and allocated the offset",
		"R04c term and status of both controllers only change to values justified by a guard (persisted new term, same-term follower traffic, installed snapshot)",
	}
	c.NotDec = []string{
		"acks already in flight on the wire at the instant of fencing",
		"scheduling of background goroutines (sync routine) versus NewTerm beyond the structural quiesce",
	}
	ruleR04a(h)
	ruleR04b(h)
	ruleR04c(h)
	ruleSyncCompletionsCovered(h, "R04d")
}

// requirement: a disjunction of comparison predicates; every path must take an edge
// establishing one of them.
type requirement struct {
	text  string
	preds []func(ir.Cmp) bool
}

func (r requirement) edges(fn *ssa.Function) map[ir.Edge]bool {
	return r.edgesDepth(fn, 0)
}

// edgesDepth: the edges of fn on which the requirement is established: comparison edges,
// and the success edges (err == nil) of calls to extracted helpers that report success
// only after establishing it themselves.
func (r requirement) edgesDepth(fn *ssa.Function, depth int) map[ir.Edge]bool {
	out := ir.EdgesWhere(fn, func(c ir.Cmp) bool {
		for _, p := range r.preds {
			if p(c) {
				return true
			}
		}
		return false
	})
	if depth >= 2 {
		return out
	}
	ir.Instrs(fn, func(in ssa.Instruction) {
		call, ok := in.(*ssa.Call)
		if !ok || !ir.HasErrResult(call) {
			return
		}
		g := call.Call.StaticCallee()
		if g == nil || g.Blocks == nil || !ir.InRepo(g) || g == fn {
			return
		}
		// the helper's parameters stand for the arguments of this call
		b := ir.Binding{}
		for i, p := range g.Params {
			if i < len(call.Call.Args) {
				b[p] = call.Call.Args[i]
			}
		}
		undo := ir.Bind(b)
		ge := r.edgesDepth(g, depth+1)
		undo()
		if len(ge) == 0 {
			return
		}
		ensures, n := true, 0
		ir.Instrs(g, func(x ssa.Instruction) {
			ret, isRet := x.(*ssa.Return)
			if !isRet || x.Block() == g.Recover || !mayReturnNilError(ret) {
				return
			}
			n++
			if ok, _ := ir.MustPassEdge(g, nil, ret, ge, nil); !ok {
				ensures = false
			}
		})
		if !ensures || n == 0 {
			return
		}
		if ev := ir.ErrResult(call); ev != nil {
			for _, t := range ir.NilTests(ev) {
				out[ir.Edge{From: t.If.Block(), To: t.NilSucc}] = true
			}
		}
	})
	return out
}

func (h *H) statusIs(ctrl, constName string) func(ir.Cmp) bool {
	return func(c ir.Cmp) bool {
		return c.Op == token.EQL && ir.LoadsField(c.L, "server", ctrl, "status") && h.isConst(c.R, "proto", constName)
	}
}

func termCmp(msg, ctrl string, ops ...token.Token) func(ir.Cmp) bool {
	return func(c ir.Cmp) bool {
		okOp := false
		for _, o := range ops {
			if c.Op == o {
				okOp = true
			}
		}
		return okOp && isMsgField(c.L, msg, "Term") && ir.LoadsField(c.R, "server", ctrl, "term")
	}
}

// checkGuards verifies that every target in fn is preceded, on every path, by each
// requirement, and executes under a lock.
func checkGuards(h *H, rule, entry string, fn *ssa.Function, targets map[string]ssa.Instruction, reqs []requirement, needLock bool) {
	if len(targets) == 0 {
		h.Anchor(rule, entry+": mutation targets")
		return
	}
	held := ir.HeldAt(fn)
	var names []string
	for n := range targets {
		names = append(names, n)
	}
	sortStrings(names)
	for _, n := range names {
		t := targets[n]
		construct := entry + ": " + n
		bad := ""
		var w []int
		for _, r := range reqs {
			e := r.edges(fn)
			if ok, path := ir.MustPassEdge(fn, nil, t, e, nil); !ok {
				bad = "reachable without the guard [" + r.text + "]"
				w = path
				break
			}
		}
		if bad == "" && needLock && len(held[t]) == 0 {
			bad = "executes without the controller lock"
		}
		var texts []string
		for _, r := range reqs {
			texts = append(texts, r.text)
		}
		h.Verdict(bad == "", rule, construct, h.pos(t), "after ["+strings.Join(texts, "] and [")+"], lock "+ir.HeldString(held[t]), bad, witness(w))
	}
}

func sortStrings(s []string) {
	for i := 1; i < len(s); i++ {
		for j := i; j > 0 && s[j] < s[j-1]; j-- {
			s[j], s[j-1] = s[j-1], s[j]
		}
	}
}

// mutationTargets collects typical mutation instructions of an entry point.
func (h *H) mutationTargets(fn *ssa.Function, ctrl string, fields []string, calls ...ir.Callee) map[string]ssa.Instruction {
	out := map[string]ssa.Instruction{}
	for _, f := range fields {
		for i, w := range h.fieldStores(fn, false, "server", ctrl, f) {
			out[fmt.Sprintf("store to %s #%d", f, i+1)] = w.Instr
		}
	}
	for _, spec := range calls {
		for i, c := range h.P.CallsIn(fn, spec) {
			out[fmt.Sprintf("call %s #%d", spec.Name, i+1)] = c
		}
	}
	return out
}

// bodyWithTargets: an entry point that only takes the lock and delegates to an extracted
// body (`Lock(); r := x.fooNoMutex(req); Unlock(); return r`) is analysed in that body; the
// lock it holds on entry is known from its callers.
func bodyWithTargets(fn *ssa.Function, has func(*ssa.Function) bool) *ssa.Function {
	if fn == nil || has(fn) {
		return fn
	}
	for _, g := range helperFuncs(fn)[1:] {
		if has(g) {
			return g
		}
	}
	return fn
}

func ruleR04a(h *H) {
	const rule = "R04a"
	h.Rule(rule, "K1+K2", "fence-guard table: per entry point, the listed term/status comparisons precede (on every path, under the controller lock) the listed mutations", 14)
	lt := h.implType(rule, "server", "LeaderController")
	ft := h.implType(rule, "server", "FollowerController")
	if lt == nil || ft == nil {
		return
	}
	L, F := lt.Obj().Name(), ft.Obj().Name()

	// leader NewTerm
	if fn := h.implMethod(rule, "server", "LeaderController", "NewTerm"); fn != nil {
		fn = bodyWithTargets(fn, func(f *ssa.Function) bool {
			return len(h.mutationTargets(f, L, []string{"term", "status"}, dbUpdateTerm)) > 0
		})
		checkGuards(h, rule, "leader NewTerm", fn,
			h.mutationTargets(fn, L, []string{"term", "status"}, dbUpdateTerm),
			[]requirement{
				{"req.Term >= term", []func(ir.Cmp) bool{termCmp("NewTermRequest", L, token.GEQ, token.GTR)}},
				{"req.Term != term or status == FENCED", []func(ir.Cmp) bool{termCmp("NewTermRequest", L, token.NEQ, token.GTR), h.statusIs(L, "ServingStatus_FENCED")}},
			}, true)
	}
	// leader BecomeLeader
	if fn := h.implMethod(rule, "server", "LeaderController", "BecomeLeader"); fn != nil {
		fn = bodyWithTargets(fn, func(f *ssa.Function) bool {
			return len(h.mutationTargets(f, L, []string{"status", "quorumAckTracker"})) > 0
		})
		t := h.mutationTargets(fn, L, []string{"status", "quorumAckTracker", "followers", "replicationFactor", "leaderElectionHeadEntryId"})
		checkGuards(h, rule, "leader BecomeLeader", fn, t, []requirement{
			{"status == FENCED", []func(ir.Cmp) bool{h.statusIs(L, "ServingStatus_FENCED")}},
			{"req.Term == term", []func(ir.Cmp) bool{termCmp("BecomeLeaderRequest", L, token.EQL)}},
		}, true)
	}
	// leader AddFollower: the call that (statically) reaches NewFollowerCursor
	if fn := h.implMethod(rule, "server", "LeaderController", "AddFollower"); fn != nil {
		t := map[string]ssa.Instruction{}
		ir.Instrs(fn, func(in ssa.Instruction) {
			if ci, ok := in.(ssa.CallInstruction); ok && h.P.CallStaticallyReaches(ci, h.P.MatchPred(newFollowerCursor)) {
				t["attach follower cursor"] = ci
			}
		})
		checkGuards(h, rule, "leader AddFollower", fn, t, []requirement{
			{"req.Term == term", []func(ir.Cmp) bool{termCmp("AddFollowerRequest", L, token.EQL)}},
			{"status == LEADER", []func(ir.Cmp) bool{h.statusIs(L, "ServingStatus_LEADER")}},
		}, true)
	}
	// follower NewTerm
	if fn := h.implMethod(rule, "server", "FollowerController", "NewTerm"); fn != nil {
		fn = bodyWithTargets(fn, func(f *ssa.Function) bool {
			return len(h.mutationTargets(f, F, []string{"term", "status"}, dbUpdateTerm)) > 0
		})
		checkGuards(h, rule, "follower NewTerm", fn,
			h.mutationTargets(fn, F, []string{"term", "status"}, dbUpdateTerm),
			[]requirement{{"req.Term >= term", []func(ir.Cmp) bool{termCmp("NewTermRequest", F, token.GEQ, token.GTR)}}}, true)
	}
	// follower Truncate
	if fn := h.implMethod(rule, "server", "FollowerController", "Truncate"); fn != nil {
		fn = bodyWithTargets(fn, func(f *ssa.Function) bool {
			return len(h.mutationTargets(f, F, []string{"status", "lastAppendedOffset"}, walTruncate)) > 0
		})
		checkGuards(h, rule, "follower Truncate", fn,
			h.mutationTargets(fn, F, []string{"status", "lastAppendedOffset"}, walTruncate),
			[]requirement{
				{"status == FENCED", []func(ir.Cmp) bool{h.statusIs(F, "ServingStatus_FENCED")}},
				{"req.Term == term", []func(ir.Cmp) bool{termCmp("TruncateRequest", F, token.EQL)}},
			}, true)
	}
	// follower Replicate: goroutines serving the stream start only in FENCED/FOLLOWER
	if fn := h.implMethod(rule, "server", "FollowerController", "Replicate"); fn != nil {
		t := map[string]ssa.Instruction{}
		n := 0
		ir.Instrs(fn, func(in ssa.Instruction) {
			if _, ok := in.(*ssa.Go); ok {
				n++
				t[fmt.Sprintf("start stream goroutine #%d", n)] = in
			}
		})
		checkGuards(h, rule, "follower Replicate", fn, t, []requirement{
			{"status == FENCED or status == FOLLOWER", []func(ir.Cmp) bool{h.statusIs(F, "ServingStatus_FENCED"), h.statusIs(F, "ServingStatus_FOLLOWER")}},
		}, false)
	}
	// follower snapshot installation: sender's term checked before the wipe
	ruleSnapshotWipe(h, rule, F)
	// shardsDirector.GetOrCreateFollower: leader.Close() only for the current term
	for _, fn := range h.P.ImplMethods("server", "ShardsDirector", "GetOrCreateFollower") {
		h.Fn(ir.FuncName(fn))
		var term *ssa.Parameter
		for _, p := range fn.Params {
			if p.Name() == "term" || (term == nil && isInt64(p) && p.Name() != "shardId") {
				term = p
			}
		}
		t := map[string]ssa.Instruction{}
		for i, c := range h.P.CallsIn(fn, ir.Callee{Pkg: "server", Recv: "LeaderController", Name: "Close"}) {
			t[fmt.Sprintf("close the leader controller #%d", i+1)] = c
		}
		checkGuards(h, rule, "ShardsDirector.GetOrCreateFollower", fn, t, []requirement{
			{"term < 0 or term == leader.Term()", []func(ir.Cmp) bool{
				func(c ir.Cmp) bool {
					return term != nil && ir.Canon(c.L) == ssa.Value(term) && c.Op == token.LSS && isZero(c.R)
				},
				func(c ir.Cmp) bool {
					return term != nil && ir.Canon(c.L) == ssa.Value(term) && c.Op == token.EQL && isCallResultOf(h, c.R, ir.Callee{Pkg: "server", Recv: "LeaderController", Name: "Term"})
				},
			}},
		}, true)
	}
}

func isInt64(p *ssa.Parameter) bool { return p.Type().String() == "int64" }

func isZero(v ssa.Value) bool {
	c, ok := ir.Canon(v).(*ssa.Const)
	return ok && c.Value != nil && c.Int64() == 0
}

// ruleSnapshotWipe: in the follower's snapshot installation the destructive steps
// (Wal.Clear, DB.Close, snapshot loader creation) must come after the sender's term has
// been compared with the controller's term.
func ruleSnapshotWipe(h *H, rule, F string) {
	loaderNew := ir.Callee{Pkg: "server/kv", Recv: "Factory", Name: "NewSnapshotLoader"}
	for _, fn := range h.P.Funcs {
		o := ir.Outermost(fn)
		if fn != o || o.Signature.Recv() == nil || !ir.TypeIs(o.Signature.Recv().Type(), "server", F) {
			continue
		}
		clears := h.P.CallsIn(fn, walClear)
		loaders := h.P.CallsIn(fn, loaderNew)
		if len(clears) == 0 || len(loaders) == 0 {
			continue
		}
		h.Fn(ir.FuncName(fn))
		req := requirement{"sender term == controller term (or controller has no term)", []func(ir.Cmp) bool{
			termCmp("SnapshotChunk", F, token.EQL),
			func(c ir.Cmp) bool {
				// stream metadata / any request-side term compared with the controller term
				return c.Op == token.EQL && ir.LoadsField(c.R, "server", F, "term") && !ir.LoadsField(c.L, "server", F, "term")
			},
		}}
		e := req.edges(fn)
		for i, cl := range clears {
			ok, path := ir.MustPassEdge(fn, nil, cl, e, nil)
			h.Verdict(ok, rule, fmt.Sprintf("follower snapshot install: Wal.Clear #%d before the sender's term check", i+1), h.pos(cl),
				"after the sender's term check", "the WAL is wiped before the term of the snapshot's sender has been checked against the controller's term", witness(path))
		}
	}
}

func ruleR04b(h *H) {
	const rule = "R04b"
	h.Rule(rule, "K1+K2", "NewTerm reads the head entry after a successful Wal.Sync in the same critical section; the leader's WAL append is in the critical section of the controller lock that checked LEADER and allocated the offset", 3)
	for _, who := range []string{"LeaderController", "FollowerController"} {
		fn := h.implMethod(rule, "server", who, "NewTerm")
		if fn == nil {
			continue
		}
		var headReads []ssa.CallInstruction
		ir.Instrs(fn, func(in ssa.Instruction) {
			if ci, ok := in.(ssa.CallInstruction); ok && h.P.CallStaticallyReaches(ci, h.P.MatchPred(walNewRevRdr)) {
				headReads = append(headReads, ci)
			}
		})
		if len(headReads) == 0 {
			// a head computed from the appended offset is fine too; otherwise unresolved
			h.Anchor(rule, who+".NewTerm: read of the WAL head")
			continue
		}
		syncs := h.P.CallsIn(fn, walSync)
		for i, hr := range headReads {
			name := fmt.Sprintf("%s.NewTerm: head read #%d", who, i+1)
			if len(syncs) == 0 {
				h.Bad(rule, name, h.pos(hr), "the head is read from the synced part of the WAL without syncing first: appended-but-unsynced entries make the log grow after the head was reported")
				continue
			}
			ok := false
			why := ""
			for _, sy := range syncs {
				sd, w, _ := ir.SuccessDominated(sy, hr)
				if !sd {
					why = w
					continue
				}
				if same, lock := ir.SameCriticalSection(fn, sy, hr); same {
					ok = true
					why = "after a successful Wal.Sync in the critical section of " + lock
				} else {
					why = "the sync and the head read are not in one critical section: " + lock
				}
			}
			h.Verdict(ok, rule, name, h.pos(hr), why, "head read not protected by a preceding successful Wal.Sync: "+why)
		}
	}
	ruleWriteCriticalSection(h, rule)
}

// ruleWriteCriticalSection (shared with C08): LEADER check, offset allocation and WAL
// append of the leader write worker happen in one critical section of the controller lock.
func ruleWriteCriticalSection(h *H, rule string) {
	worker := writeWorker(h, rule)
	if worker == nil {
		return
	}
	app := workerAppend(h, rule, worker)
	if app == nil {
		return
	}
	if app.A.Parent() != worker {
		h.Bad(rule, "leader write: WAL append", h.pos(app.A), "the WAL append is not issued by the write worker itself (it runs in a closure, outside the allocating critical section)")
		return
	}
	lt := h.implType(rule, "server", "LeaderController")
	if lt == nil {
		return
	}
	next := h.P.CallsIn(worker, qatNextOffset)
	for i, n := range next {
		same, lock := ir.SameCriticalSection(worker, n, app.A)
		h.Verdict(same, rule, fmt.Sprintf("leader write: offset allocation #%d and WAL append", i+1), h.pos(app.A),
			"one critical section of "+lock, "the offset is allocated and the entry appended in different critical sections ("+lock+"): concurrent writers can reach the WAL out of offset order, and a NewTerm can run in between")
	}
	// the LEADER check: the append must be covered by it and in the same critical section as the status read
	covered, why := leaderCovered(h, worker, lt.Obj().Name(), app.A)
	if !covered {
		h.Bad(rule, "leader write: LEADER check and WAL append", h.pos(app.A), "the append is not preceded by the LEADER check: "+why)
		return
	}
	var statusLoads []ssa.Instruction
	for _, l := range h.P.FieldReads(worker, "server", lt.Obj().Name(), "status") {
		statusLoads = append(statusLoads, l)
	}
	ok := false
	detail := "no status read found"
	for _, l := range statusLoads {
		if !ir.Dominates(l, app.A) {
			continue
		}
		held := ir.HeldAt(worker)
		// same critical section of the controller lock, read or write mode
		hl, ha := held[l], held[app.A]
		for k := range hl {
			base := strings.TrimPrefix(k, "R:")
			if !(ha[k]) {
				continue
			}
			// no release between
			released := false
			for _, o := range ir.LockOps(worker) {
				if o.Lock == base && (o.Op == "Unlock" || o.Op == "RUnlock") && !o.Defer {
					r1, _ := ir.Reach(ir.Search{From: l, Barrier: ir.Is(app.A)}, ir.Is(o.Instr))
					r2, _ := ir.Reach(ir.Search{From: o.Instr}, ir.Is(app.A))
					if r1 && r2 {
						released = true
					}
				}
			}
			if !released {
				ok = true
				detail = "status read and WAL append in one critical section of " + k
			} else {
				detail = "the controller lock is released between the LEADER check and the WAL append"
			}
		}
		if len(hl) == 0 {
			detail = "status read without lock"
		} else if !ok && detail == "no status read found" {
			detail = "the lock held at the LEADER check (" + ir.HeldString(hl) + ") is not held at the WAL append (" + ir.HeldString(ha) + ")"
		}
	}
	h.Verdict(ok, rule, "leader write: LEADER check and WAL append", h.pos(app.A), detail, detail+": a NewTerm can fence the node and report its head between the check and the append")
}

func ruleR04c(h *H) {
	const rule = "R04c"
	h.Rule(rule, "K3", "stores to term/status of the controllers: a term comes from a NewTerm request (not lower, persisted first), the persisted term at start-up or a term-checked snapshot chunk; FENCED follows a persisted term; FOLLOWER only under request.Term == term; LEADER only in BecomeLeader", 12)
	for _, who := range []string{"LeaderController", "FollowerController"} {
		t := h.implType(rule, "server", who)
		if t == nil {
			continue
		}
		tn := t.Obj().Name()
		cnt := map[string]int{}
		// --- term
		for _, w := range h.P.FieldWrites("server", tn, "term") {
			fname := ir.FuncName(ir.Outermost(w.Fn))
			cnt["t"+fname]++
			name := fmt.Sprintf("%s.term store #%d in %s", tn, cnt["t"+fname], fname)
			h.Fn(ir.FuncName(w.Fn))
			if w.Val == nil {
				h.Unknown(rule, name, h.pos(w.Instr), "written through an escaped address")
				continue
			}
			v := ir.Canon(w.Val)
			switch {
			case isMsgField(v, "NewTermRequest", "Term"):
				// must be after a successful DB.UpdateTerm and not lower
				ok := false
				why := "no successful DB.UpdateTerm precedes the store"
				for _, u := range h.P.CallsIn(w.Fn, dbUpdateTerm) {
					if sd, w2, _ := ir.SuccessDominated(u, w.Instr); sd {
						ok = true
					} else {
						why = w2
					}
				}
				if ok {
					e := requirement{"", []func(ir.Cmp) bool{termCmp("NewTermRequest", tn, token.GEQ, token.GTR)}}.edges(w.Fn)
					if okp, _ := ir.MustPassEdge(w.Fn, nil, w.Instr, e, nil); !okp {
						ok, why = false, "the new term may be lower than the current one"
					}
				}
				h.Verdict(ok, rule, name, h.pos(w.Instr), "request term, not lower, persisted first", why)
			case isExtractOf(h, v, ir.Callee{Pkg: "server/kv", Recv: "DB", Name: "ReadTerm"}):
				h.OK(rule, name, h.pos(w.Instr), "persisted term read at start-up")
			case isMsgField(v, "SnapshotChunk", "Term"):
				e := requirement{"", []func(ir.Cmp) bool{
					termCmp("SnapshotChunk", tn, token.EQL),
					func(c ir.Cmp) bool {
						return c.Op == token.EQL && ir.LoadsField(c.L, "server", tn, "term") && isInvalidTerm(h, c.R)
					},
				}}.edges(w.Fn)
				okp, path := ir.MustPassEdge(w.Fn, nil, w.Instr, e, nil)
				h.Verdict(okp, rule, name, h.pos(w.Instr), "snapshot chunk term, equal to the current term or the controller has none", "term taken from a snapshot chunk without comparing it with the current term", witness(path))
			default:
				if _, isConst := v.(*ssa.Const); isConst && w.Kind == "literal" {
					h.OK(rule, name, h.pos(w.Instr), "initial value")
				} else {
					h.Bad(rule, name, h.pos(w.Instr), "term assigned from "+ir.Describe(w.Val))
				}
			}
		}
		// --- status
		for _, w := range h.P.FieldWrites("server", tn, "status") {
			fname := ir.FuncName(ir.Outermost(w.Fn))
			cnt["s"+fname]++
			name := fmt.Sprintf("%s.status store #%d in %s", tn, cnt["s"+fname], fname)
			h.Fn(ir.FuncName(w.Fn))
			if w.Val == nil {
				h.Unknown(rule, name, h.pos(w.Instr), "written through an escaped address")
				continue
			}
			switch {
			case h.isConst(w.Val, "proto", "ServingStatus_NOT_MEMBER"):
				h.OK(rule, name, h.pos(w.Instr), "NOT_MEMBER (initial / closing)")
			case h.isConst(w.Val, "proto", "ServingStatus_LEADER"):
				bl := h.P.ImplMethods("server", "LeaderController", "BecomeLeader")
				ok := len(bl) == 1 && w.Fn == bl[0]
				h.Verdict(ok, rule, name, h.pos(w.Instr), "in BecomeLeader (ordering checked by R01b)", "LEADER status set outside BecomeLeader")
			case h.isConst(w.Val, "proto", "ServingStatus_FENCED"):
				ok := false
				why := "not preceded by a successful DB.UpdateTerm"
				for _, u := range h.P.CallsIn(w.Fn, dbUpdateTerm) {
					if sd, w2, _ := ir.SuccessDominated(u, w.Instr); sd {
						ok = true
					} else {
						why = w2
					}
				}
				if !ok {
					// constructor: persisted term exists
					e := requirement{"", []func(ir.Cmp) bool{func(c ir.Cmp) bool {
						if c.Op != token.NEQ || !isInvalidTerm(h, c.R) {
							return false
						}
						if ir.LoadsField(c.L, "server", tn, "term") {
							return true
						}
						// the term just read back from the DB, still in a local
						if ex, isEx := ir.Canon(c.L).(*ssa.Extract); isEx && ex.Index == 0 {
							if call, isCall := ex.Tuple.(*ssa.Call); isCall && h.P.Matches(call.Common(), dbReadTerm) {
								return true
							}
						}
						return false
					}}}.edges(w.Fn)
					if len(e) > 0 {
						if okp, _ := ir.MustPassEdge(w.Fn, nil, w.Instr, e, nil); okp {
							ok = true
							why = "start-up with a persisted term"
						}
					}
				} else {
					why = "after the new term was persisted"
				}
				h.Verdict(ok, rule, name, h.pos(w.Instr), why, "FENCED status without a persisted term: "+why)
			case h.isConst(w.Val, "proto", "ServingStatus_FOLLOWER"):
				e := requirement{"", []func(ir.Cmp) bool{termCmp("Append", tn, token.EQL), termCmp("TruncateRequest", tn, token.EQL)}}.edges(w.Fn)
				okp, path := ir.MustPassEdge(w.Fn, nil, w.Instr, e, nil)
				h.Verdict(okp, rule, name, h.pos(w.Instr), "under request.Term == term", "FOLLOWER status set without the request's term matching the controller's", witness(path))
			default:
				h.Bad(rule, name, h.pos(w.Instr), "status assigned from "+ir.Describe(w.Val))
			}
		}
	}
}

func isInvalidTerm(h *H, v ssa.Value) bool {
	cv := ir.Canon(v)
	if c, ok := cv.(*ssa.Const); ok && c.Value != nil && c.Int64() == -1 {
		return true
	}
	if u, ok := cv.(*ssa.UnOp); ok && u.Op == token.MUL {
		if g, ok := u.X.(*ssa.Global); ok && g.Name() == "InvalidTerm" && g.Pkg != nil && ir.RelPkg(g.Pkg.Pkg.Path()) == "server/wal" {
			return true
		}
	}
	return false
}
