package props

import (
	"fmt"
	"go/token"
	"go/types"

	"golang.org/x/tools/go/ssa"

	"oxiaverif/internal/chk"
	"oxiaverif/internal/ir"
)

func init() { register("C14", checkC14) }

var (
	shadowKeyFn   = ir.Callee{Pkg: "server", Recv: "", Name: "ShadowKey"}
	sessionKeyFn  = ir.Callee{Pkg: "server", Recv: "", Name: "SessionKey"}
	lcWriteBlock  = ir.Callee{Pkg: "server", Recv: "LeaderController", Name: "WriteBlock"}
	lcListBlock   = ir.Callee{Pkg: "server", Recv: "LeaderController", Name: "ListBlock"}
	smInitialize  = ir.Callee{Pkg: "server", Recv: "SessionManager", Name: "Initialize"}
	smClose       = ir.Callee{Pkg: "server", Recv: "SessionManager", Name: "Close"}
	cbMethodNames = []string{"OnPut", "OnDelete", "OnDeleteWithEntry", "OnDeleteRange"}
)

func checkC14(c *chk.Ctx) {
	h := newH(c)
	c.Decided = []string{
		"R14h recovered sessions do not share one metadata object (no loop-carried address in the session manager)",
		"R14g within one put the previous owner's ownership entry is removed before the new one is written, never after it (when a session re-writes its own record both are the same key)",
		"R14a a shadow (ownership) entry is only written after the session's key was found in the same batch; a missing session yields SESSION_DOES_NOT_EXIST",
		"R14b every mutation kind (put, delete, delete with entry, range delete) removes the previous owner's shadow; the wrapper callback chains session then index handling for all four kinds; the apply functions invoke the callback before mutating the record",
		"R14c session cleanup is one write request carrying the owned keys, the session key and the shadow range (open finding F17: the owned keys are listed outside the batch and deleted unconditionally)",
		"R14d session timers follow leadership: initialised before LEADER from a DB that already holds the replayed log tail, closed on NewTerm/close; the heartbeat re-arms the timer with the session's own timeout",
		"R14f a session only leaves the session manager's table together with a call that stops it (cancels its context, which ends its expiry goroutine): no removal, clearing or replacement of the table leaves a timer of an old term running",
		"R14e a range delete runs the ownership callback for every key it removes (shared with C12)",
	}
	c.NotDec = []string{
		"interleavings of expiry with other clients beyond the window of F17",
		"timing: that a session only expires after a full timeout without heartbeats",
	}
	ruleR14a(h)
	ruleR14b(h)
	ruleR14c(h)
	ruleR14d(h)
	ruleR12fInto(h, "R14e")
	ruleR14f(h)
	ruleR14g(h)
	ruleNoLoopCarriedAlias(h, "R14h")
}

func isResultOf(h *H, v ssa.Value, spec ir.Callee) *ssa.Call {
	c, ok := ir.Canon(v).(*ssa.Call)
	if ok && h.P.Matches(c.Common(), spec) {
		return c
	}
	return nil
}

func ruleR14a(h *H) {
	const rule = "R14a"
	h.Rule(rule, "K1", "every WriteBatch.Put of a shadow key is success-dominated by WriteBatch.Get of the same session's key; the not-found outcome of that read returns SESSION_DOES_NOT_EXIST without an error", 2)
	n := 0
	for _, s := range h.P.AllCalls(ir.InPkg("server"), batchPut) {
		sk := isResultOf(h, argOf(s.Call.Common(), 0), shadowKeyFn)
		if sk == nil {
			continue
		}
		n++
		h.Fn(ir.FuncName(s.Fn))
		name := fmt.Sprintf("shadow put #%d in %s", n, ir.FuncName(s.Fn))
		ok := false
		why := "no read of the session key precedes the shadow put"
		for _, g := range h.P.CallsIn(s.Fn, batchGet) {
			key := isResultOf(h, argOf(g.Common(), 0), sessionKeyFn)
			if key == nil {
				continue
			}
			if !ir.SameExpr(key.Call.Args[0], sk.Call.Args[0]) {
				why = "the session key that is read belongs to a different session id than the shadow that is written"
				continue
			}
			if sd, w, _ := ir.SuccessDominated(g, s.Call); sd {
				ok = true
			} else {
				why = w
			}
			// not found -> SESSION_DOES_NOT_EXIST, nil
			mapped := false
			ir.Instrs(s.Fn, func(in ssa.Instruction) {
				ret, isRet := in.(*ssa.Return)
				if !isRet {
					return
				}
				vals := ir.ReturnValues(ret)
				if len(vals) == 2 && h.isConst(vals[0], "proto", "Status_SESSION_DOES_NOT_EXIST") && isNilConst(vals[1]) {
					for _, gd := range ir.Guards(in) {
						if gd.Taken && isErrorsIs(gd.Cond, "ErrKeyNotFound") {
							mapped = true
						}
					}
				}
			})
			h.Verdict(mapped, rule, "missing session status in "+ir.FuncName(s.Fn), h.pos(g), "ErrKeyNotFound -> SESSION_DOES_NOT_EXIST", "a put naming a session whose key is absent is not answered with SESSION_DOES_NOT_EXIST")
		}
		h.Verdict(ok, rule, name, h.pos(s.Call), "after a successful read of the session key in the same batch", "an ownership (shadow) entry can be written for a session that was not verified to exist in the replicated state: "+why)
	}
	if n == 0 {
		h.Anchor(rule, "WriteBatch.Put(ShadowKey(...)) in package server")
	}
}

// deleteShadowFns: functions that delete a shadow key.
func deleteShadowFns(h *H) map[*ssa.Function]bool {
	out := map[*ssa.Function]bool{}
	for _, s := range h.P.AllCalls(ir.InPkg("server"), batchDelete) {
		if isResultOf(h, argOf(s.Call.Common(), 0), shadowKeyFn) != nil {
			out[s.Fn] = true
		}
	}
	return out
}

func globalValueType(h *H, pkg, name string) (string, *ssa.Global) {
	sp := h.P.SSAPackage(pkg)
	if sp == nil {
		return "", nil
	}
	g, ok := sp.Members[name].(*ssa.Global)
	if !ok {
		return "", nil
	}
	// the concrete type stored into the global by the package initialiser
	tn := ""
	for _, f := range h.P.Funcs {
		if f.Name() != "init" || f.Pkg != sp {
			continue
		}
		ir.Instrs(f, func(in ssa.Instruction) {
			st, ok := in.(*ssa.Store)
			if !ok || st.Addr != ssa.Value(g) {
				return
			}
			v := st.Val
			if mi, ok := v.(*ssa.MakeInterface); ok {
				v = mi.X
			}
			tn = namedName(v.Type())
		})
	}
	return tn, g
}

func ruleR14b(h *H) {
	const rule = "R14b"
	h.Rule(rule, "K6", "all four callback methods of the session callback reach the shadow removal; all four methods of the wrapper call the session callback and then the index callback; in the apply functions the callback call success-dominates the record mutation", 11)
	dels := deleteShadowFns(h)
	if len(dels) == 0 {
		h.Anchor(rule, "the function deleting a shadow key (WriteBatch.Delete(ShadowKey(...)))")
		return
	}
	reachesDel := func(c *ssa.CallCommon) bool {
		f := c.StaticCallee()
		return f != nil && dels[f]
	}
	sessT, sessG, idxT, idxG, wrapT := callbackSingletons(h)
	if sessT == "" || idxT == "" || wrapT == "" {
		h.Anchor(rule, "the session / index / wrapper callback singletons of package server")
		return
	}
	for _, m := range cbMethodNames {
		fn := h.P.Func("server", sessT, m)
		if fn == nil {
			h.Anchor(rule, sessT+"."+m)
			continue
		}
		h.Fn(ir.FuncName(fn))
		ok := dels[fn]
		if !ok {
			ok, _ = h.P.StaticReaches(fn, reachesDel)
		}
		h.Verdict(ok, rule, "session callback "+m+" removes the previous shadow", h.P.Pos(fn.Pos()), "reaches the shadow removal", "the session callback's "+m+" never removes the shadow entry of the record's previous owner: the old session would still delete the record when it ends")
	}
	ruleWrapperChainWith(h, rule, sessG, idxG, wrapT)
	ruleCallbackBeforeMutation(h, rule)
}

// ruleWrapperChain (shared with C15): the wrapper callback handed to ProcessWrite runs the
// session callback first and the index callback only when the session step accepted the
// operation (no error, status OK).
func ruleWrapperChain(h *H, rule string) {
	sessT, sessG, idxT, idxG, wrapT := callbackSingletons(h)
	if sessT == "" || idxT == "" || wrapT == "" {
		h.Anchor(rule, "the session / index / wrapper callback singletons of package server")
		return
	}
	ruleWrapperChainWith(h, rule, sessG, idxG, wrapT)
}

func ruleWrapperChainWith(h *H, rule string, sessG, idxG *ssa.Global, wrapT string) {
	for _, m := range cbMethodNames {
		fn := h.P.Func("server", wrapT, m)
		if fn == nil {
			h.Anchor(rule, wrapT+"."+m)
			continue
		}
		h.Fn(ir.FuncName(fn))
		var sessCall, idxCall ssa.Instruction
		ir.Instrs(fn, func(in ssa.Instruction) {
			c := ir.CallOf(in)
			if c == nil || !c.IsInvoke() || c.Method.Name() != m {
				return
			}
			if u, ok := ir.Canon(c.Value).(*ssa.UnOp); ok {
				if u.X == ssa.Value(sessG) {
					sessCall = in
				}
				if u.X == ssa.Value(idxG) {
					idxCall = in
				}
			}
		})
		ok := sessCall != nil && idxCall != nil && ir.Dominates(sessCall, idxCall)
		detail := "session callback, then index callback"
		bad := "the wrapper's " + m + " does not call both the session and the index callback (session first)"
		if ok {
			// a failing session step must not run the index step
			if ci, isCI := sessCall.(ssa.CallInstruction); isCI && ir.HasErrResult(ci) {
				if ev := ir.ErrResult(ci); ev != nil {
					if okOnly, _ := ir.OkOnly(fn, ev, sessCall, idxCall); !okOnly {
						ok, bad = false, "the index callback runs although the session callback failed"
					}
				}
			}
		}
		if ok {
			// a session step that answers with a status other than OK (session gone) must not
			// run the index step either
			if call, isCall := sessCall.(*ssa.Call); isCall && call.Type().String() != "error" {
				if tup, isTuple := call.Type().(*types.Tuple); isTuple && tup.Len() == 2 && ir.TypeIs(tup.At(0).Type(), "proto", "Status") {
					guarded := false
					for _, g := range ir.CmpGuards(idxCall) {
						for _, c := range []ir.Cmp{g, g.Flip()} {
							if ex, isEx := ir.Canon(c.L).(*ssa.Extract); isEx && ex.Tuple == ssa.Value(call) && ex.Index == 0 && c.Op == token.EQL && h.isConst(c.R, "proto", "Status_OK") {
								guarded = true
							}
						}
					}
					if !guarded {
						ok, bad = false, "the index callback runs although the session callback rejected the operation with a status: index entries are written for a record that is not stored"
					}
				}
			}
		}
		h.Verdict(ok, rule, "wrapper "+m+" chains both callbacks", h.P.Pos(fn.Pos()), detail, bad)
	}
}

// ruleCallbackBeforeMutation: in the kv apply functions the update callback runs before
// the record is mutated, and its failure stops the mutation.
func ruleCallbackBeforeMutation(h *H, rule string) {
	for _, pair := range []struct {
		cb  string
		mut ir.Callee
	}{{"OnPut", batchPut}, {"OnDelete", batchDelete}, {"OnDeleteWithEntry", batchDelRange}} {
		spec := ir.Callee{Pkg: "server/kv", Recv: "UpdateOperationCallback", Name: pair.cb}
		for _, s := range h.P.AllCalls(ir.InPkg("server/kv"), spec) {
			h.Fn(ir.FuncName(s.Fn))
			// a per-entry step written as a local closure stands at its call site
			hasMutation := func(fn *ssa.Function) bool {
				if pair.cb == "OnDeleteWithEntry" {
					return len(h.callsOrHelpers(fn, pair.mut, batchDelete)) > 0
				}
				return len(h.callsOrHelpers(fn, pair.mut)) > 0
			}
			if up := liftThroughLocalClosure(s.Call, hasMutation); up != s.Call {
				s.Call, s.Fn = up, up.Parent()
				h.Fn(ir.FuncName(s.Fn))
			}
			muts := h.callsOrHelpers(s.Fn, pair.mut)
			if pair.cb == "OnDeleteWithEntry" {
				muts = h.callsOrHelpers(s.Fn, pair.mut, batchDelete)
			}
			if len(muts) == 0 {
				h.Bad(rule, "callback "+pair.cb+" before mutation in "+ir.FuncName(s.Fn), h.pos(s.Call), "no record mutation found after the callback")
				continue
			}
			ok := true
			why := ""
			for _, mu := range muts {
				// every path to the mutation passes the callback, and not via its error edge
				// (for the per-key callback of a range delete "for every key" is R14e's business)
				if pass, _ := ir.MustPass(s.Fn, nil, mu, ir.Is(s.Call)); !pass && pair.cb != "OnDeleteWithEntry" {
					// tolerated: internal puts skip the callback (guarded by the `internal` flag)
					if !guardedByBoolParam(mu, s.Call) {
						ok, why = false, "the record can be mutated on a path that does not invoke the callback"
					}
				}
				if ev := ir.ErrResult(s.Call); ev != nil {
					if okOnly, _ := ir.OkOnly(s.Fn, ev, s.Call, mu); !okOnly {
						ok, why = false, "the record is mutated although the callback failed"
					}
				}
			}
			h.Verdict(ok, rule, "callback "+pair.cb+" before mutation in "+ir.FuncName(s.Fn), h.pos(s.Call), "the callback precedes the record mutation and its failure stops it", why)
		}
	}
}

// guardedByBoolParam: the callback call is only skipped under a boolean parameter of the
// function (internal puts of the DB's own bookkeeping keys).
func guardedByBoolParam(mut, cb ssa.Instruction) bool {
	for _, g := range ir.Guards(cb) {
		c := g.Cond
		if u, ok := c.(*ssa.UnOp); ok {
			c = u.X
		}
		if p, ok := ir.Canon(c).(*ssa.Parameter); ok && p.Type().String() == "bool" {
			return true
		}
	}
	return false
}

func ruleR14c(h *H) {
	const rule = "R14c"
	h.Rule(rule, "K1/K5", "session cleanup issues exactly one write containing the session key delete and the shadow range delete; deletes of keys that were listed outside the batch must be conditional (expected version / ownership re-check inside apply)", 3)
	n := 0
	for _, fn := range h.P.Funcs {
		if fn.Parent() != nil || ir.RelPkg(ir.PkgPathOf(fn)) != "server" {
			continue
		}
		writes := h.P.CallsIn(fn, lcWriteBlock)
		lists := h.P.CallsIn(fn, lcListBlock)
		if len(writes) == 0 || len(lists) == 0 {
			continue
		}
		n++
		h.Fn(ir.FuncName(fn))
		h.Verdict(len(writes) == 1, rule, "one cleanup write in "+ir.FuncName(fn), h.pos(writes[0]), "exactly one WriteBlock", fmt.Sprintf("session cleanup is split into %d writes: the session and its records are not removed atomically", len(writes)))
		req := argOf(writes[0].Common(), 1)
		ranges := compositeFieldValue(req, "DeleteRanges")
		deletes := compositeFieldValue(req, "Deletes")
		h.Verdict(ranges != nil && deletes != nil && !isNilConst(ranges) && !isNilConst(deletes), rule, "cleanup request content in "+ir.FuncName(fn), h.pos(writes[0]), "carries Deletes and DeleteRanges", "the cleanup request lacks the key deletes or the shadow range delete")
		// DeleteRequest literals in this function: those keyed by listed keys must be guarded
		ir.Instrs(fn, func(in ssa.Instruction) {
			al, ok := in.(*ssa.Alloc)
			if !ok || !ir.TypeIs(al.Type(), "proto", "DeleteRequest") {
				return
			}
			key := compositeFieldValue(al, "Key")
			if key == nil {
				return
			}
			fromList := ir.DependsOn(key, func(v ssa.Value) bool {
				for _, l := range lists {
					if v == l.Value() {
						return true
					}
				}
				if ex, ok := v.(*ssa.Extract); ok {
					for _, l := range lists {
						if ex.Tuple == l.Value() {
							return true
						}
					}
				}
				return false
			}) || dependsOnRangeOver(key, lists)
			if !fromList {
				return
			}
			guarded := compositeFieldValue(al, "ExpectedVersionId") != nil
			h.Verdict(guarded, rule, "unconditional delete of a listed key in the session cleanup", h.pos(in), "the delete carries a condition evaluated inside apply",
				"the keys owned by the session are listed outside the batch (ListBlock) and deleted unconditionally: a key that another writer took over between the list and the write is destroyed")
		})
	}
	if n == 0 {
		h.Anchor(rule, "the session cleanup function (ListBlock + WriteBlock)")
	}
}

// dependsOnRangeOver: v derives from an element of a slice returned by one of the calls.
func dependsOnRangeOver(v ssa.Value, calls []ssa.CallInstruction) bool {
	return ir.DependsOn(v, func(x ssa.Value) bool {
		u, ok := x.(*ssa.UnOp)
		if !ok {
			return false
		}
		ia, ok := u.X.(*ssa.IndexAddr)
		if !ok {
			return false
		}
		base := ir.Canon(ia.X)
		if ex, ok := base.(*ssa.Extract); ok {
			for _, c := range calls {
				if ex.Tuple == c.Value() {
					return true
				}
			}
		}
		return false
	})
}

func ruleR14d(h *H) {
	const rule = "R14d"
	h.Rule(rule, "K1", "BecomeLeader initialises the session manager before setting LEADER and after the replay of the log tail; NewTerm and the controller's close path close it; the heartbeat re-arms the expiry timer with the session's timeout", 4)
	lt := h.implType(rule, "server", "LeaderController")
	if lt == nil {
		return
	}
	tn := lt.Obj().Name()
	if bl := h.implMethod(rule, "server", "LeaderController", "BecomeLeader"); bl != nil {
		var initCalls []ssa.CallInstruction
		ir.Instrs(bl, func(in ssa.Instruction) {
			if ci, ok := in.(ssa.CallInstruction); ok && h.P.CallStaticallyReaches(ci, h.P.MatchPred(smInitialize)) {
				initCalls = append(initCalls, ci)
			}
		})
		for i, w := range h.fieldStores(bl, false, "server", tn, "status") {
			if !h.isConst(w.Val, "proto", "ServingStatus_LEADER") {
				continue
			}
			ok := false
			why := "BecomeLeader never initialises the session manager"
			for _, ic := range initCalls {
				if sd, w2, _ := ir.SuccessDominated(ic, w.Instr); sd {
					ok = true
				} else {
					why = w2
				}
			}
			h.Verdict(ok, rule, fmt.Sprintf("sessions initialised before LEADER #%d", i+1), h.pos(w.Instr), "SessionManager.Initialize succeeded first", "the node starts serving as leader without re-arming the sessions stored in the DB: their ephemeral records never expire. "+why)
		}
	}
	// the sessions are read from the DB: the DB must hold everything committed so far,
	// i.e. the replay of the log tail precedes Initialize
	replays := func(ci ssa.CallInstruction) bool {
		return h.P.CallStaticallyReaches(ci, h.P.MatchPred(dbProcessWrite))
	}
	var afterReplay func(fn *ssa.Function, at ssa.Instruction, depth int) (bool, string)
	afterReplay = func(fn *ssa.Function, at ssa.Instruction, depth int) (bool, string) {
		var events []ssa.Instruction
		ir.Instrs(fn, func(in ssa.Instruction) {
			if ci, ok := in.(ssa.CallInstruction); ok && in != at && replays(ci) {
				events = append(events, in)
			}
		})
		before := false
		for _, e := range events {
			if r, _ := ir.Reach(ir.Search{From: at}, ir.Is(e)); r {
				return false, "entries are still replayed into the DB (" + h.pos(e) + ") after it ran"
			}
			if r, _ := ir.Reach(ir.Search{From: e}, ir.Is(at)); r {
				before = true
			}
		}
		if before {
			return true, ""
		}
		if depth >= 3 {
			return false, "no replay of the log tail found before it"
		}
		sites := 0
		for _, e := range h.P.CallersOf(fn) {
			if e.Site == nil || e.Caller == nil || e.Caller.Func == nil || !ir.InRepo(e.Caller.Func) || ir.RelPkg(ir.PkgPathOf(e.Caller.Func)) != "server" {
				continue
			}
			sites++
			if ok, w := afterReplay(e.Caller.Func, e.Site, depth+1); !ok {
				return false, w
			}
		}
		if sites == 0 {
			return false, "in " + ir.FuncName(fn) + " no call that replays the committed log tail into the DB (reaches DB.ProcessWrite) precedes it"
		}
		return true, ""
	}
	ni := 0
	for _, s := range h.P.AllCalls(ir.InPkg("server"), smInitialize) {
		ni++
		ok, why := afterReplay(s.Fn, s.Call, 0)
		h.Verdict(ok, rule, fmt.Sprintf("sessions initialised from a replayed DB #%d", ni), h.pos(s.Call), "the replay of the log tail precedes SessionManager.Initialize and nothing is replayed after it",
			"SessionManager.Initialize reads the sessions from a DB that has not been brought up to the log head yet: a session whose creation is still in the unapplied tail is never registered on the new leader (KeepAlive fails, its ephemeral records never expire). "+why)
	}
	if ni == 0 {
		h.Anchor(rule, "call of SessionManager.Initialize")
	}
	for _, m := range []string{"NewTerm", "Close"} {
		fn := h.implMethod(rule, "server", "LeaderController", m)
		if fn == nil {
			continue
		}
		ok, _ := h.P.StaticReaches(fn, h.P.MatchPred(smClose))
		h.Verdict(ok, rule, "sessions closed on leader "+m, h.P.Pos(fn.Pos()), "reaches SessionManager.Close", "leaving leadership does not stop the session timers: a deposed leader keeps expiring sessions")
	}
	// heartbeat re-arm
	n := 0
	for _, fn := range h.P.Funcs {
		if ir.RelPkg(ir.PkgPathOf(fn)) != "server" {
			continue
		}
		// the expiry timer: created with time.NewTimer(d) and re-armed with Reset(d') in the same function
		var newTimerArg ssa.Value
		ir.Instrs(fn, func(in ssa.Instruction) {
			if c := ir.CallOf(in); c != nil {
				if f := c.StaticCallee(); f != nil && f.Pkg != nil && f.Pkg.Pkg.Path() == "time" && f.Name() == "NewTimer" {
					newTimerArg = c.Args[0]
				}
			}
		})
		if newTimerArg == nil {
			continue
		}
		ir.Instrs(fn, func(in ssa.Instruction) {
			c := ir.CallOf(in)
			if c == nil {
				return
			}
			f := c.StaticCallee()
			if f == nil || f.Pkg == nil || f.Pkg.Pkg.Path() != "time" || f.Name() != "Reset" || f.Signature.Recv() == nil {
				return
			}
			n++
			h.Fn(ir.FuncName(fn))
			ok := ir.SameExpr(c.Args[len(c.Args)-1], newTimerArg)
			h.Verdict(ok, rule, "heartbeat re-arms the timer in "+ir.FuncName(fn), h.pos(in), "timer.Reset(<the timeout the timer was created with>)", "the expiry timer is re-armed with "+ir.Describe(c.Args[len(c.Args)-1])+" instead of the session's timeout")
		})
	}
	if n == 0 {
		h.Anchor(rule, "timer.Reset in the session's heartbeat loop")
	}
}

// callbackSingletons finds the wrapper callback (the exported singleton handed to
// ProcessWrite) and, from the globals its OnPut delegates to, the session callback (its
// OnPut reaches ShadowKey) and the index callback (the other one).
func callbackSingletons(h *H) (sessT string, sessG *ssa.Global, idxT string, idxG *ssa.Global, wrapT string) {
	wrapT, _ = globalValueType(h, "server", "WrapperUpdateOperationCallback")
	if wrapT == "" {
		return
	}
	fn := h.P.Func("server", wrapT, "OnPut")
	if fn == nil {
		return
	}
	var globals []*ssa.Global
	ir.Instrs(fn, func(in ssa.Instruction) {
		c := ir.CallOf(in)
		if c == nil || !c.IsInvoke() || c.Method.Name() != "OnPut" {
			return
		}
		if u, ok := ir.Canon(c.Value).(*ssa.UnOp); ok {
			if g, ok := u.X.(*ssa.Global); ok {
				globals = append(globals, g)
			}
		}
	})
	for _, g := range globals {
		tn, _ := globalValueType(h, "server", g.Name())
		if tn == "" {
			continue
		}
		m := h.P.Func("server", tn, "OnPut")
		if m == nil {
			continue
		}
		if ok, _ := h.P.StaticReaches(m, h.P.MatchPred(shadowKeyFn)); ok {
			sessT, sessG = tn, g
		} else {
			idxT, idxG = tn, g
		}
	}
	return
}

// ruleR14f: the expiry goroutine of a session lives until the session's own context is
// cancelled. The manager's table is the only handle on it, so whoever takes a session out
// of the table (close request, expiry, manager close on fencing) has to stop it on the
// same path; a session that is dropped from the table while its timer runs expires later,
// under a later term, and deletes the records of a client that is still heart-beating.
func ruleR14f(h *H) {
	const rule = "R14f"
	h.Rule(rule, "K1", "every removal from the session manager's table of running sessions (Remove of one session, Clear, replacement of the table) is paired on every path with a call that cancels the context of the removed session(s)", 3)
	mt := h.implType(rule, "server", "SessionManager")
	if mt == nil {
		return
	}
	mst, _ := mt.Underlying().(*types.Struct)
	// the table: the field of the manager whose type is the repository's Map with a pointer-to-struct value
	var tableField string
	var sessT *types.Named
	for i := 0; mst != nil && i < mst.NumFields(); i++ {
		n, ok := types.Unalias(mst.Field(i).Type()).(*types.Named)
		if !ok || n.Obj().Pkg() == nil || ir.RelPkg(n.Obj().Pkg().Path()) != "common/collection" || n.TypeArgs() == nil || n.TypeArgs().Len() != 2 {
			continue
		}
		if pt, isP := n.TypeArgs().At(1).(*types.Pointer); isP {
			if sn, isN := types.Unalias(pt.Elem()).(*types.Named); isN {
				tableField, sessT = mst.Field(i).Name(), sn
			}
		}
	}
	if sessT == nil {
		h.Anchor(rule, "table of running sessions (a collection.Map field of the SessionManager implementation)")
		return
	}
	isCancelType := func(t types.Type) bool {
		n, ok := types.Unalias(t).(*types.Named)
		return ok && n.Obj().Pkg() != nil && n.Obj().Pkg().Path() == "context" && n.Obj().Name() == "CancelFunc"
	}
	// stop functions: methods of the session type that call the session's cancel function, directly or through another such method
	stops := map[*ssa.Function]bool{}
	for round := 0; round < 3; round++ {
		for _, fn := range h.P.Funcs {
			if stops[fn] || fn.Signature.Recv() == nil || !ir.TypeIs(fn.Signature.Recv().Type(), "server", sessT.Obj().Name()) {
				continue
			}
			ir.Instrs(fn, func(in ssa.Instruction) {
				ci, ok := in.(ssa.CallInstruction)
				if !ok {
					return
				}
				if _, isGo := in.(*ssa.Go); isGo {
					return
				}
				if callee := ci.Common().StaticCallee(); callee != nil && stops[callee] {
					stops[fn] = true
				}
				if r, isF := ir.FieldLoadOf(ir.Canon(ci.Common().Value)); isF && r.Struct != nil && r.Struct.Obj() == sessT.Obj() && isCancelType(ci.Common().Value.Type()) {
					stops[fn] = true
				}
			})
		}
	}
	if len(stops) == 0 {
		h.Anchor(rule, "a method of "+sessT.Obj().Name()+" that cancels the session's context")
		return
	}
	isStop := func(in ssa.Instruction) (ssa.Value, bool) {
		ci, ok := in.(ssa.CallInstruction)
		if !ok {
			return nil, false
		}
		if _, isGo := in.(*ssa.Go); isGo {
			return nil, false
		}
		if callee := ci.Common().StaticCallee(); callee != nil && stops[callee] && len(ci.Common().Args) > 0 {
			return ci.Common().Args[0], true
		}
		return nil, false
	}
	onTable := func(v ssa.Value) bool {
		r, ok := ir.FieldLoadOf(ir.Canon(v))
		return ok && r.Struct != nil && r.Struct.Obj() == mt.Obj() && r.Field == tableField
	}
	n := 0
	for _, fn := range h.P.Funcs {
		if ir.RelPkg(ir.PkgPathOf(fn)) != "server" || fn.Blocks == nil {
			continue
		}
		fn := fn
		ir.Instrs(fn, func(in ssa.Instruction) {
			// replacement of the table outside the constructor
			if st, ok := in.(*ssa.Store); ok {
				if r, isF := ir.FieldAddrOf(st.Addr); isF && r.Struct != nil && r.Struct.Obj() == mt.Obj() && r.Field == tableField {
					if _, fresh := ir.Canon(r.Base).(*ssa.Alloc); fresh {
						return // construction of a new manager
					}
					n++
					h.Bad(rule, fmt.Sprintf("session table replaced in %s", ir.FuncName(fn)), h.pos(in), "the table of running sessions is replaced: the sessions of the old table keep running without any handle to stop them")
				}
				return
			}
			ci, ok := in.(ssa.CallInstruction)
			if !ok || !ci.Common().IsInvoke() || !onTable(ci.Common().Value) {
				return
			}
			switch ci.Common().Method.Name() {
			case "Put", "Get", "Keys", "Empty", "Size", "Values", "String":
				return
			case "Remove":
				n++
				h.Fn(ir.FuncName(fn))
				name := fmt.Sprintf("session removed from the table #%d in %s", n, ir.FuncName(fn))
				// the removed session: Remove(<x>.id) — the stop has to be called on that x
				var owner ssa.Value
				arg := ir.Canon(ci.Common().Args[0])
				if r, isF := ir.FieldLoadOf(arg); isF && r.Struct != nil && r.Struct.Obj() == sessT.Obj() {
					owner = ir.Canon(r.Base)
				}
				var paired func(fn *ssa.Function, at ssa.Instruction, owner ssa.Value, idArg ssa.Value, depth int) bool
				paired = func(fn *ssa.Function, at ssa.Instruction, owner ssa.Value, idArg ssa.Value, depth int) bool {
					stopsHere := func(x ssa.Instruction) bool {
						recv, ok := isStop(x)
						return ok && (owner == nil || ir.Canon(recv) == owner || ir.SameExpr(recv, owner))
					}
					found := false
					ir.Instrs(fn, func(x ssa.Instruction) {
						if stopsHere(x) && ir.Dominates(x, at) {
							found = true
						}
					})
					if found {
						return true
					}
					// afterwards, on every path on which the removal happened (a helper that
					// reports an error did not remove anything)
					blocked := map[ir.Edge]bool{}
					if call, isCall := at.(ssa.CallInstruction); isCall && at != in {
						if ev := ir.ErrResult(call); ev != nil {
							for _, t := range ir.NilTests(ev) {
								blocked[ir.Edge{From: t.If.Block(), To: t.NonNil}] = true
							}
						}
					}
					after := true
					ir.Instrs(fn, func(x ssa.Instruction) {
						if _, isRet := x.(*ssa.Return); isRet {
							if r, _ := ir.Reach(ir.Search{From: at, Barrier: stopsHere, Blocked: blocked}, ir.Is(x)); r {
								after = false
							}
						}
					})
					if after {
						return true
					}
					// the pairing may be the caller's job (extracted helper)
					sites := ir.StaticCallSites(fn)
					if depth >= 2 || len(sites) == 0 {
						return false
					}
					for _, site := range sites {
						var owner2, id2 ssa.Value
						// the id (or the session) came in as a parameter
						for pi, pr := range fn.Params {
							if pi >= len(site.Common().Args) {
								continue
							}
							a := ir.Canon(site.Common().Args[pi])
							if idArg != nil && ir.Canon(idArg) == ssa.Value(pr) {
								id2 = a
								if r, isF := ir.FieldLoadOf(a); isF && r.Struct != nil && r.Struct.Obj() == sessT.Obj() {
									owner2 = ir.Canon(r.Base)
								}
							}
							if owner != nil && owner == ssa.Value(pr) {
								owner2 = a
							}
						}
						// or the removed session is handed back to the caller
						if owner2 == nil && owner != nil {
							ir.Instrs(fn, func(x ssa.Instruction) {
								ret, isRet := x.(*ssa.Return)
								if !isRet {
									return
								}
								rvs := ir.ReturnValues(ret)
								for k, rv := range rvs {
									if ir.Canon(rv) != owner {
										continue
									}
									if sv, isV := site.(ssa.Value); isV {
										if len(rvs) == 1 {
											owner2 = sv
										} else if sv.Referrers() != nil {
											for _, u := range *sv.Referrers() {
												if ex, isEx := u.(*ssa.Extract); isEx && ex.Index == k {
													owner2 = ex
												}
											}
										}
									}
								}
							})
						}
						if owner != nil && owner2 == nil {
							return false
						}
						if !paired(site.Parent(), site, owner2, id2, depth+1) {
							return false
						}
					}
					return true
				}
				before, after := paired(fn, in, owner, arg, 0), false
				h.Verdict(before || after, rule, name, h.pos(in), "the removed session is stopped on every path through the removal", "a session is taken out of the manager's table and not stopped on every path: its expiry timer keeps running with no handle left to stop it, fires under a later term and deletes the session and its ephemeral records although the client is heart-beating")
			case "Clear":
				n++
				h.Fn(ir.FuncName(fn))
				// all sessions are dropped: a loop that stops them has to come first
				ok := false
				ir.Instrs(fn, func(x ssa.Instruction) {
					if _, is := isStop(x); is {
						if hd := ir.EnclosingLoopHeader(x.Block()); hd != nil && hd.Dominates(in.Block()) && !ir.LoopBlocks(hd)[in.Block()] {
							ok = true
						}
					}
				})
				// or: the sessions' contexts are children of the manager's context and that one is cancelled first
				if !ok && sessionsInheritManagerContext(h, mt, sessT) {
					ir.Instrs(fn, func(x ssa.Instruction) {
						if c, isCall := x.(*ssa.Call); isCall && isCancelType(c.Call.Value.Type()) && ir.Dominates(x, in) {
							if r, isF := ir.FieldLoadOf(ir.Canon(c.Call.Value)); isF && r.Struct != nil && r.Struct.Obj() == mt.Obj() {
								ok = true
							}
						}
					})
				}
				h.Verdict(ok, rule, fmt.Sprintf("session table cleared #%d in %s", n, ir.FuncName(fn)), h.pos(in), "a loop that stops the sessions precedes the clearing", "the table of running sessions is cleared without stopping them: their expiry timers keep running with no handle left to stop them, fire under a later term and delete sessions whose clients are heart-beating")
			default:
				n++
				h.Unknown(rule, fmt.Sprintf("session table operation %s in %s", ci.Common().Method.Name(), ir.FuncName(fn)), h.pos(in), "operation of the table that this rule does not classify")
			}
		})
	}
}

// sessionsInheritManagerContext: every store to a context.Context field of the session
// type writes the result of a context constructor whose parent is a context.Context field
// of the manager.
func sessionsInheritManagerContext(h *H, mt, sessT *types.Named) bool {
	isCtx := func(t types.Type) bool {
		n, ok := types.Unalias(t).(*types.Named)
		return ok && n.Obj().Pkg() != nil && n.Obj().Pkg().Path() == "context" && n.Obj().Name() == "Context"
	}
	stores, good := 0, 0
	for _, fn := range h.P.Funcs {
		if ir.RelPkg(ir.PkgPathOf(fn)) != "server" {
			continue
		}
		ir.Instrs(fn, func(in ssa.Instruction) {
			st, ok := in.(*ssa.Store)
			if !ok || !isCtx(st.Val.Type()) {
				return
			}
			r, isF := ir.FieldAddrOf(st.Addr)
			if !isF || r.Struct == nil || r.Struct.Obj() != sessT.Obj() {
				return
			}
			stores++
			ex, isEx := ir.Canon(st.Val).(*ssa.Extract)
			if !isEx {
				return
			}
			call, isCall := ex.Tuple.(*ssa.Call)
			if !isCall || call.Call.StaticCallee() == nil || ir.PkgPathOf(call.Call.StaticCallee()) != "context" || len(call.Call.Args) == 0 {
				return
			}
			if pr, isPF := ir.FieldLoadOf(ir.Canon(call.Call.Args[0])); isPF && pr.Struct != nil && pr.Struct.Obj() == mt.Obj() {
				good++
			}
		})
	}
	return stores > 0 && stores == good
}

// ruleR14g: OnPut moves ownership: it deletes the shadow of the record's previous owner and,
// for a session put, writes the shadow of the new one. When a session updates a record it
// already owns the two are the same key, so the delete has to come first: a delete that
// follows the put removes the entry just written, the record keeps its session id but
// drops out of the session's index and survives the session.
func ruleR14g(h *H) {
	const rule = "R14g"
	h.Rule(rule, "K1", "in the put callback of the session manager no deletion of a shadow key is reachable after the shadow key of the new owner was written", 1)
	delFns := deleteShadowFns(h)
	isShadowDelete := func(in ssa.Instruction) bool {
		ci, ok := in.(ssa.CallInstruction)
		if !ok {
			return false
		}
		if h.P.Matches(ci.Common(), batchDelete) && isResultOf(h, argOf(ci.Common(), 0), shadowKeyFn) != nil {
			return true
		}
		if f := ci.Common().StaticCallee(); f != nil && delFns[f] {
			return true
		}
		return false
	}
	n := 0
	for _, s := range h.P.AllCalls(ir.InPkg("server"), batchPut) {
		if isResultOf(h, argOf(s.Call.Common(), 0), shadowKeyFn) == nil {
			continue
		}
		n++
		h.Fn(ir.FuncName(s.Fn))
		bad := ""
		// in the function that writes it, and in every function that statically calls it
		// (the write then stands at the call site)
		at, fn := ssa.Instruction(s.Call), s.Fn
		for level := 0; level < 3 && bad == ""; level++ {
			if r, path := ir.Reach(ir.Search{From: at}, isShadowDelete); r {
				bad = "a shadow key is deleted after the new owner's shadow was written " + witness(path) + ": when a session writes a record it already owns, the entry just written is removed again, the record drops out of the session's index and outlives the session"
			}
			var up ssa.Instruction
			if sites := ir.StaticCallSites(fn); len(sites) == 1 {
				up = sites[0]
			} else {
				// an exported method of the callback object: its (single) static caller in the package
				var cands []ssa.Instruction
				for _, e := range h.P.CallersOf(fn) {
					if e.Site != nil && e.Site.Common().StaticCallee() == fn && ir.InRepo(e.Caller.Func) {
						cands = append(cands, e.Site)
					}
				}
				if len(cands) == 1 {
					up = cands[0]
				}
			}
			if up == nil {
				break
			}
			at, fn = up, up.Parent()
			h.Fn(ir.FuncName(fn))
		}
		h.Verdict(bad == "", rule, fmt.Sprintf("order of ownership entries for shadow put #%d in %s", n, ir.FuncName(s.Fn)), h.pos(s.Call), "the previous owner's entry is removed first", bad)
	}
	if n == 0 {
		h.Anchor(rule, "WriteBatch.Put(ShadowKey(...)) in package server")
	}
}
