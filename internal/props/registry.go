// Package props holds the repository-specific obligation tables, one file per property.
package props

import (
	"sort"

	"oxiaverif/internal/chk"
)

// Check evaluates all obligations of one property.
type Check func(c *chk.Ctx)

var registry = map[string]Check{}

func register(id string, f Check) { registry[id] = f }

func Get(id string) Check { return registry[id] }

func IDs() []string {
	var out []string
	for k := range registry {
		out = append(out, k)
	}
	sort.Strings(out)
	return out
}
