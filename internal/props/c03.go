package props

import (
	"fmt"
	"go/token"

	"golang.org/x/tools/go/ssa"

	"oxiaverif/internal/chk"
	"oxiaverif/internal/ir"
)

func init() { register("C03", checkC03) }

var replicateSend = ir.Callee{Pkg: "proto", Recv: "OxiaLogReplication_ReplicateServer", Name: "Send"}

func checkC03(c *chk.Ctx) {
	h := newH(c)
	c.Decided = []string{
		"R03h the WAL sync loop completes only the sync requests received before it read the appended offset (shared with C01/C08)",
		"R03a a follower sends an Ack only for offsets known to be synced (bounded by Wal.LastOffset or after a successful Wal.Sync)",
		"R03b the term comparison, under the controller lock, precedes every log mutation / ack / bookkeeping update of the append handler",
		"R03c lastAppendedOffset is only assigned from the WAL head, the truncation result, a successfully appended entry or the installed commit offset",
		"R03d/R03f cursors attach at the truncated head; a follower head is accepted untruncated only if the leader log contains it",
		"R03e the cursor resumes from the acknowledged offset, which only acks / the snapshot response / the constructor assign",
		"R03g WAL truncation clears the whole discarded tail of the segment",
	}
	c.NotDec = []string{
		"equality of entries across replicas for every schedule (protocol-level reasoning on top of these mechanisms)",
		"duplicate / re-delivery semantics on the wire",
	}
	ruleR03a(h)
	ruleR03b(h)
	ruleR03c(h)
	ruleR03d(h, "R03d")
	ruleNoTruncateDecision(h, "R03f")
	ruleR03e(h)
	ruleTruncateClearsTail(h, "R03g")
	ruleSyncCompletionsCovered(h, "R03h")
}

// ackSends lists Send(&proto.Ack{...}) calls on the replicate stream in package server.
type ackSend struct {
	Fn     *ssa.Function
	Call   ssa.CallInstruction
	Offset ssa.Value
}

func ackSends(h *H) []ackSend {
	var out []ackSend
	for _, s := range h.P.AllCalls(ir.InPkg("server"), replicateSend) {
		arg := argOf(s.Call.Common(), 0)
		if arg == nil || !ir.TypeIs(arg.Type(), "proto", "Ack") {
			continue
		}
		out = append(out, ackSend{s.Fn, s.Call, compositeFieldValue(arg, "Offset")})
	}
	return out
}

func isCallResultOf(h *H, v ssa.Value, spec ir.Callee) bool {
	c, ok := ir.Canon(v).(*ssa.Call)
	return ok && h.P.Matches(c.Common(), spec)
}

func ruleR03a(h *H) {
	const rule = "R03a"
	h.Rule(rule, "K1/K5", "every Ack sent by a follower carries an offset that every path has bounded by Wal.LastOffset() (the synced offset) or that follows a successful Wal.Sync", 2)
	sends := ackSends(h)
	if len(sends) == 0 {
		h.Anchor(rule, "Send(*proto.Ack) on the replicate server stream in package server")
	}
	count := map[string]int{}
	for _, s := range sends {
		h.Fn(ir.FuncName(s.Fn))
		count[ir.FuncName(s.Fn)]++
		name := fmt.Sprintf("Ack send #%d in %s", count[ir.FuncName(s.Fn)], ir.FuncName(s.Fn))
		if s.Offset == nil {
			h.Unknown(rule, name, h.pos(s.Call), "cannot identify the acknowledged offset (Ack literal without Offset field)")
			continue
		}
		bounded := ir.EdgesWhere(s.Fn, func(c ir.Cmp) bool {
			return (c.Op == token.LEQ || c.Op == token.LSS) && ir.SameExpr(c.L, s.Offset) && isCallResultOf(h, c.R, walLastOffset)
		})
		// A successful Wal.Sync makes everything appended *before it* durable. It is only
		// accepted as the justification of an Ack when no append can slip in between the
		// sync and the send, i.e. both are in one critical section of the controller lock.
		var syncs []ssa.CallInstruction
		for _, sy := range h.P.CallsIn(s.Fn, walSync) {
			if same, _ := ir.SameCriticalSection(s.Fn, sy, s.Call); same {
				syncs = append(syncs, sy)
			}
		}
		isSync := func(in ssa.Instruction) bool {
			for _, x := range syncs {
				if x == in {
					return true
				}
			}
			return false
		}
		if ok, path := ir.MustPassEdge(s.Fn, nil, s.Call, bounded, isSync); !ok {
			h.Bad(rule, name, h.pos(s.Call), "an Ack for "+ir.Describe(s.Offset)+" can be sent on a path that neither bounds the offset by Wal.LastOffset() nor syncs the WAL first inside the same critical section", witness(path))
			continue
		}
		bad := false
		for _, sy := range syncs {
			ev := ir.ErrResult(sy)
			blocked := map[ir.Edge]bool{}
			for e := range bounded {
				blocked[e] = true
			}
			if ev == nil {
				if r, _ := ir.Reach(ir.Search{From: sy, Blocked: blocked, Barrier: isSync}, ir.Is(s.Call)); r {
					h.Bad(rule, name, h.pos(s.Call), "the Ack follows a Wal.Sync whose error is discarded")
					bad = true
				}
				continue
			}
			for _, t := range ir.NilTests(ev) {
				blocked[ir.Edge{From: t.If.Block(), To: t.NilSucc}] = true
			}
			if r, path := ir.Reach(ir.Search{From: sy, Blocked: blocked, Barrier: isSync}, ir.Is(s.Call)); r {
				h.Bad(rule, name, h.pos(s.Call), "the Ack is reachable after a failed Wal.Sync", witness(path))
				bad = true
			}
		}
		if !bad {
			h.OK(rule, name, h.pos(s.Call), fmt.Sprintf("every path bounds %s by Wal.LastOffset() (%d edge(s)) or passes a successful Wal.Sync (%d call(s))", ir.Describe(s.Offset), len(bounded), len(syncs)))
		}
	}
}

// followerAppendHandlers: methods of the follower controller that append to the WAL.
func followerAppendHandlers(h *H, rule string) ([]*ssa.Function, string) {
	ft := h.implType(rule, "server", "FollowerController")
	if ft == nil {
		return nil, ""
	}
	tn := ft.Obj().Name()
	var out []*ssa.Function
	seen := map[*ssa.Function]bool{}
	for _, s := range h.P.AllCalls(ir.InPkg("server"), walAppendAsync, walAppend, walAppendSync) {
		o := ir.Outermost(s.Fn)
		if o.Signature.Recv() != nil && ir.TypeIs(o.Signature.Recv().Type(), "server", tn) && !seen[s.Fn] {
			seen[s.Fn] = true
			out = append(out, s.Fn)
		}
	}
	if len(out) == 0 {
		h.Anchor(rule, "follower method appending to the WAL")
	}
	return out, tn
}

func isMsgField(v ssa.Value, msg, field string) bool {
	c := ir.Canon(v)
	if r, ok := ir.FieldLoadOf(c); ok && r.Is("proto", msg, field) {
		return true
	}
	if call, ok := c.(*ssa.Call); ok {
		if f := call.Call.StaticCallee(); f != nil && f.Name() == "Get"+field && f.Signature.Recv() != nil && ir.TypeIs(f.Signature.Recv().Type(), "proto", msg) {
			return true
		}
	}
	return false
}

func termEqPred(msg, ctrl string) func(ir.Cmp) bool {
	return func(c ir.Cmp) bool {
		return c.Op == token.EQL && isMsgField(c.L, msg, "Term") && ir.LoadsField(c.R, "server", ctrl, "term")
	}
}

func ruleR03b(h *H) {
	const rule = "R03b"
	h.Rule(rule, "K1+K2", "in the follower's append handler the comparison request.Term == controller.term, taken under the controller lock, holds at the WAL append, at every Ack send and at the bookkeeping stores", 4)
	fns, tn := followerAppendHandlers(h, rule)
	for _, fn := range fns {
		h.Fn(ir.FuncName(fn))
		held := ir.HeldAt(fn)
		var targets []ssa.Instruction
		var labels []string
		for _, c := range h.P.CallsIn(fn, walAppendAsync, walAppend, walAppendSync) {
			targets, labels = append(targets, c), append(labels, "WAL append")
		}
		n := 0
		for _, s := range ackSends(h) {
			if s.Fn == fn {
				n++
				targets, labels = append(targets, s.Call), append(labels, fmt.Sprintf("Ack send #%d", n))
			}
		}
		for _, f := range []string{"lastAppendedOffset", "advertisedCommitOffset", "status"} {
			for i, w := range h.fieldStores(fn, false, "server", tn, f) {
				targets, labels = append(targets, w.Instr), append(labels, fmt.Sprintf("store to %s #%d", f, i+1))
			}
		}
		edges := ir.EdgesWhere(fn, termEqPred("Append", tn))
		for i, t := range targets {
			name := fmt.Sprintf("%s: %s", ir.FuncName(fn), labels[i])
			ok, path := ir.MustPassEdge(fn, nil, t, edges, nil)
			if !ok {
				h.Bad(rule, name, h.pos(t), "reachable without the request-term == controller-term comparison", witness(path))
				continue
			}
			if len(held[t]) == 0 {
				h.Bad(rule, name, h.pos(t), "executes without the controller lock (term could change in between)")
				continue
			}
			h.OK(rule, name, h.pos(t), "after Append.Term == term, lock held "+ir.HeldString(held[t]))
		}
	}
}

func ruleR03c(h *H) {
	const rule = "R03c"
	h.Rule(rule, "K3", "every store to the follower's lastAppendedOffset takes its value from Wal.LastOffset, the result of a successful Wal.TruncateLog, the offset of an entry whose WAL append succeeded, or DB.ReadCommitOffset", 4)
	ft := h.implType(rule, "server", "FollowerController")
	if ft == nil {
		return
	}
	tn := ft.Obj().Name()
	ws := h.P.FieldWrites("server", tn, "lastAppendedOffset")
	if len(ws) == 0 {
		h.Anchor(rule, tn+".lastAppendedOffset")
	}
	cnt := map[string]int{}
	for _, w := range ws {
		fname := ir.FuncName(ir.Outermost(w.Fn))
		cnt[fname]++
		name := fmt.Sprintf("lastAppendedOffset store #%d in %s", cnt[fname], fname)
		h.Fn(ir.FuncName(w.Fn))
		if w.Val == nil {
			h.Unknown(rule, name, h.pos(w.Instr), "written through an escaped address")
			continue
		}
		v := ir.Canon(w.Val)
		switch {
		case isCallResultOf(h, v, walLastOffset):
			h.OK(rule, name, h.pos(w.Instr), "from Wal.LastOffset()")
		case isExtractOf(h, v, walTruncate):
			call := v.(*ssa.Extract).Tuple.(*ssa.Call)
			ok, why, path := ir.SuccessDominated(call, w.Instr)
			h.Verdict(ok, rule, name, h.pos(w.Instr), "from a successful Wal.TruncateLog", "truncation result used although TruncateLog may have failed: "+why, witness(path))
		case isExtractOf(h, v, dbReadCommit):
			call := v.(*ssa.Extract).Tuple.(*ssa.Call)
			ok, why, path := ir.SuccessDominated(call, w.Instr)
			h.Verdict(ok, rule, name, h.pos(w.Instr), "from a successful DB.ReadCommitOffset", "commit offset used although ReadCommitOffset may have failed: "+why, witness(path))
		case isLogEntryField(v, "Offset"):
			// the entry must be the one appended successfully in this function
			good := false
			why := "no successful WAL append of that entry precedes the store"
			for _, a := range h.P.CallsIn(w.Fn, walAppendAsync, walAppend) {
				entry := argOf(a.Common(), 0)
				r, _ := ir.FieldLoadOf(v)
				if ir.SameExpr(entry, r.Base) {
					if ok, w2, _ := ir.SuccessDominated(a, w.Instr); ok {
						good = true
					} else {
						why = w2
					}
				}
			}
			h.Verdict(good, rule, name, h.pos(w.Instr), "offset of the entry whose WAL append succeeded", why)
		default:
			// the result of an extracted helper: every value it hands out on success must be
			// the result of a successful DB.ReadCommitOffset / Wal.LastOffset inside the helper
			if call, res := helperSuccessResults(v); call != nil && len(res) > 0 {
				ok, why, _ := ir.SuccessDominated(call, w.Instr)
				for _, r := range res {
					rv := ir.Canon(r.V)
					switch {
					case isCallResultOf(h, rv, walLastOffset):
					case isExtractOf(h, rv, dbReadCommit), isExtractOf(h, rv, walTruncate):
						if sd, w2, _ := ir.SuccessDominated(rv.(*ssa.Extract).Tuple.(*ssa.Call), r.Ret); !sd {
							ok, why = false, "inside "+describeCallee(call.Common())+": "+w2
						}
					default:
						ok, why = false, "inside "+describeCallee(call.Common())+" the value "+ir.Describe(r.V)+" is not one of the allowed sources"
					}
				}
				h.Verdict(ok, rule, name, h.pos(w.Instr), "from the successful result of "+describeCallee(call.Common())+", which hands out an allowed source", why)
				continue
			}
			h.Bad(rule, name, h.pos(w.Instr), "value "+ir.Describe(w.Val)+" is not one of the allowed sources")
		}
	}
}

func isExtractOf(h *H, v ssa.Value, spec ir.Callee) bool {
	ex, ok := v.(*ssa.Extract)
	if !ok {
		return false
	}
	c, ok := ex.Tuple.(*ssa.Call)
	return ok && h.P.Matches(c.Common(), spec)
}

func ruleR03e(h *H) {
	const rule = "R03e"
	h.Rule(rule, "K3", "the follower cursor opens its WAL reader at the acknowledged offset; the acknowledged offset is only assigned from the constructor argument, a received Ack or the snapshot response", 3)
	ct := h.implType(rule, "server", "FollowerCursor")
	if ct == nil {
		return
	}
	tn := ct.Obj().Name()
	n := 0
	for _, s := range h.P.AllCalls(ir.InPkg("server"), walNewReader) {
		o := ir.Outermost(s.Fn)
		if o.Signature.Recv() == nil || !ir.TypeIs(o.Signature.Recv().Type(), "server", tn) {
			continue
		}
		n++
		h.Fn(ir.FuncName(s.Fn))
		arg := argOf(s.Call.Common(), 0)
		ok := isAtomicLoadOfField(arg, "server", tn, "ackOffset")
		h.Verdict(ok, rule, "cursor reader start in "+ir.FuncName(s.Fn), h.pos(s.Call), "Wal.NewReader(ackOffset)", "the cursor's reader starts at "+ir.Describe(arg)+", not at the acknowledged offset")
	}
	if n == 0 {
		h.Anchor(rule, "Wal.NewReader call in the follower cursor")
	}
	cnt := map[string]int{}
	for _, w := range h.P.FieldWrites("server", tn, "ackOffset") {
		fname := ir.FuncName(ir.Outermost(w.Fn))
		cnt[fname]++
		name := fmt.Sprintf("ackOffset write #%d in %s", cnt[fname], fname)
		if w.Val == nil {
			h.Unknown(rule, name, h.pos(w.Instr), "written through an escaped address")
			continue
		}
		v := ir.Canon(w.Val)
		_, isParam := v.(*ssa.Parameter)
		switch {
		case isParam:
			h.OK(rule, name, h.pos(w.Instr), "constructor argument")
		case isMsgField(v, "Ack", "Offset"):
			h.OK(rule, name, h.pos(w.Instr), "offset of a received Ack")
		case isMsgField(v, "SnapshotResponse", "AckOffset"):
			h.OK(rule, name, h.pos(w.Instr), "ack offset of the snapshot response")
		default:
			h.Bad(rule, name, h.pos(w.Instr), "ackOffset assigned from "+ir.Describe(w.Val))
		}
	}
}

// ruleTruncateClearsTail: ReadWriteSegment.Truncate zeroes every byte between the new
// end of the segment and the old write position. Recovery re-scans the file up to the
// first empty header, so leftovers of discarded entries behind a later, shorter log
// would be resurrected after a restart.
func ruleTruncateClearsTail(h *H, rule string) {
	h.Rule(rule, "K1", "the in-segment truncation zeroes the mapped file in a loop bounded by the segment's previous write offset (currentFileOffset), i.e. the whole discarded tail", 1)
	for _, fn := range h.P.ImplMethods("server/wal", "ReadWriteSegment", "Truncate") {
		h.Fn(ir.FuncName(fn))
		tn := ""
		if n := fn.Signature.Recv(); n != nil {
			if nn := namedName(n.Type()); nn != "" {
				tn = nn
			}
		}
		// zero stores into the mapped file: Store of const 0 to IndexAddr(X = load of a []byte-like field)
		found := false
		ok := false
		detail := "no store of zero into the mapped file found"
		ir.Instrs(fn, func(in ssa.Instruction) {
			st, isSt := in.(*ssa.Store)
			if !isSt {
				return
			}
			c, isC := st.Val.(*ssa.Const)
			if !isC || c.Value == nil || c.Int64() != 0 {
				return
			}
			ia, isIA := st.Addr.(*ssa.IndexAddr)
			if !isIA {
				return
			}
			found = true
			// the index must be bounded by `idx < load currentFileOffset` on every path
			edges := ir.EdgesWhere(fn, func(cmp ir.Cmp) bool {
				return (cmp.Op == token.LSS || cmp.Op == token.LEQ) && cmp.L == ia.Index && ir.LoadsField(cmp.R, "server/wal", tn, "currentFileOffset")
			})
			if len(edges) == 0 {
				detail = "the zeroing loop is not bounded by the segment's currentFileOffset"
				return
			}
			if okp, _ := ir.MustPassEdge(fn, nil, st, edges, nil); okp {
				// and the loop variable must advance by one from the new end
				if phi, isPhi := ia.Index.(*ssa.Phi); isPhi {
					step := false
					for _, e := range phi.Edges {
						if bo, isBo := e.(*ssa.BinOp); isBo && bo.Op == token.ADD && bo.X == ssa.Value(phi) {
							if k, isK := bo.Y.(*ssa.Const); isK && k.Int64() == 1 {
								step = true
							}
						}
					}
					if step {
						ok = true
					} else {
						detail = "the zeroing loop does not advance byte by byte"
					}
				} else {
					detail = "the zero store is not inside a loop"
				}
			}
		})
		if !found {
			// idiom: clear(mapped[newEnd:currentFileOffset])
			ir.Instrs(fn, func(in ssa.Instruction) {
				call := ir.CallOf(in)
				if call == nil {
					return
				}
				if b, isB := call.Value.(*ssa.Builtin); isB && b.Name() == "clear" && len(call.Args) == 1 {
					if sl, isSl := call.Args[0].(*ssa.Slice); isSl && sl.High != nil && ir.LoadsField(sl.High, "server/wal", tn, "currentFileOffset") {
						found, ok = true, true
					}
				}
			})
		}
		if !found {
			h.Bad(rule, "Truncate of "+ir.FuncName(fn), h.P.Pos(fn.Pos()), detail)
			continue
		}
		h.Verdict(ok, rule, "Truncate of "+ir.FuncName(fn), h.P.Pos(fn.Pos()), "zeroes [new end, currentFileOffset) byte by byte", detail)
	}
}

func namedName(t interface{ String() string }) string {
	s := t.String()
	for i := len(s) - 1; i >= 0; i-- {
		if s[i] == '.' {
			return s[i+1:]
		}
	}
	return s
}
