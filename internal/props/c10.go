package props

import (
	"fmt"
	"go/token"
	"go/types"
	"strings"

	"golang.org/x/tools/go/ssa"

	"oxiaverif/internal/chk"
	"oxiaverif/internal/ir"
)

func init() { register("C10", checkC10) }

var (
	readIntFn   = ir.Callee{Pkg: "server/wal/codec", Recv: "", Name: "ReadInt"}
	codecHeader = ir.Callee{Pkg: "server/wal/codec", Recv: "Codec", Name: "ReadHeaderWithValidation"}
	walFactory  = ir.Callee{Pkg: "server/wal", Recv: "Factory", Name: "NewWal"}
)

func checkC10(c *chk.Ctx) {
	h := newH(c)
	c.Decided = []string{
		"R10l an empty (zeroed) record ends the recovery scan silently only above the commit offset",
		"R10k the commit offset reaches the recovery scan whenever a provider exists (-1 included)",
		"R10j opening a read-write segment wipes the mapped file behind the entries its recovery accepted: a discarded damaged tail cannot line up again behind a later entry and come back after the next restart",
		"R10i an offset is only reported synced when a flush that started after it was appended has completed (sync-round rules shared with C01/C03/C04/C08/C09)",
		"R10h the list of segment base offsets read from the WAL directory is sorted numerically before it is used positionally (first / last segment at recovery): directory order is by file name, not by offset",
		"R10a lengths read from the file are range-checked in an overflow-safe form before any sum containing them is compared",
		"R10b the chained CRC is compared before a v2 record header is accepted; recovery indexes an entry only after that validation; the v2 index is checksummed before use",
		"R10c recovery leaves the scan silently on a damaged entry only when that entry's offset is above the commit offset",
		"R10d a header / index checksum is only read when the buffer is known to hold it",
		"R10f the controllers initialise what their CommitOffset() reads before they open (recover) the WAL",
		"R10g truncation clears the whole discarded tail, so that recovery (which scans up to the first empty header) cannot resurrect discarded entries",
	}
	c.NotDec = []string{
		"bit-identical round trip; which subset of unsynced pages persisted",
		"behaviour for every corruption value (fuzzing territory); a zeroed length field inside the committed region is indistinguishable from the end of the log in this format",
		"absence of panics beyond the length / offset arithmetic decided here",
	}
	ruleR10a(h)
	ruleR10b(h)
	ruleR10c(h)
	ruleR10d(h)
	ruleR10f(h)
	ruleTruncateClearsTail(h, "R10g")
	ruleSegmentListSorted(h, "R10h")
	ruleSyncCompletionsCovered(h, "R10i")
	ruleR10j(h)
	ruleProviderCommitOffsetReachesRecovery(h, "R10k")
	ruleEmptyRecordBelowCommit(h, "R10l")
}

func codecImplMethods(h *H, rule, method string) []*ssa.Function {
	fns := h.P.ImplMethods("server/wal/codec", "Codec", method)
	if len(fns) == 0 {
		h.Anchor(rule, "implementations of codec.Codec."+method)
	}
	for _, f := range fns {
		h.Fn(ir.FuncName(f))
	}
	return fns
}

func dependsOnReadInt(h *H, v ssa.Value) bool {
	return ir.DependsOn(v, func(x ssa.Value) bool {
		c, ok := x.(*ssa.Call)
		return ok && h.P.Matches(c.Common(), readIntFn)
	})
}

func isCompare(op token.Token) bool {
	switch op {
	case token.LSS, token.LEQ, token.GTR, token.GEQ, token.EQL, token.NEQ:
		return true
	}
	return false
}

func ruleR10a(h *H) {
	const rule = "R10a"
	h.Rule(rule, "K8", "in every codec, a comparison whose operand is a sum/product involving a length read from the buffer is only evaluated after the raw length itself passed a range check", 2)
	for _, fn := range codecImplMethods(h, rule, "ReadHeaderWithValidation") {
		name := "untrusted length arithmetic in " + ir.FuncName(fn)
		// raw checks: comparisons with the ReadInt result itself as an operand (ordering comparisons)
		rawEdges := ir.EdgesWhere(fn, func(c ir.Cmp) bool {
			call, ok := ir.Canon(c.L).(*ssa.Call)
			if !ok || !h.P.Matches(call.Common(), readIntFn) {
				return false
			}
			return (c.Op == token.LEQ || c.Op == token.LSS) && !dependsOnReadInt(h, c.R)
		})
		bad := ""
		var at ssa.Instruction
		ir.Instrs(fn, func(in ssa.Instruction) {
			bo, ok := in.(*ssa.BinOp)
			if !ok || !isCompare(bo.Op) || bad != "" {
				return
			}
			for _, side := range []ssa.Value{bo.X, bo.Y} {
				sum, isSum := ir.Canon(side).(*ssa.BinOp)
				if !isSum || (sum.Op != token.ADD && sum.Op != token.MUL && sum.Op != token.SHL) {
					continue
				}
				if !dependsOnReadInt(h, sum) {
					continue
				}
				// the comparison must only be reached after a raw check passed
				if ok2, _ := ir.MustPassEdge(fn, nil, in, rawEdges, nil); !ok2 {
					bad = "the comparison " + ir.Describe(bo) + " uses a sum containing the unchecked length read from the file: the sum wraps around for lengths near 2^32 and the check passes (slice bounds panic / out-of-range read afterwards)"
					at = in
				}
			}
		})
		if bad != "" {
			h.Bad(rule, name, h.pos(at), bad)
			continue
		}
		if len(rawEdges) == 0 {
			h.Bad(rule, name, h.P.Pos(fn.Pos()), "the length read from the file is never range-checked on its own")
			continue
		}
		// every successful return is behind the raw check
		okAll := true
		ir.Instrs(fn, func(in ssa.Instruction) {
			ret, isRet := in.(*ssa.Return)
			if !isRet || !okAll {
				return
			}
			vals := ir.ReturnValues(ret)
			if c, isC := vals[len(vals)-1].(*ssa.Const); isC && c.IsNil() {
				if ok2, _ := ir.MustPassEdge(fn, nil, in, rawEdges, nil); !ok2 {
					okAll = false
				}
			}
		})
		h.Verdict(okAll, rule, name, h.P.Pos(fn.Pos()), fmt.Sprintf("raw length check on %d edge(s) before any use in a comparison / success", len(rawEdges)), "a header is accepted without the raw length check")
	}
}

func ruleR10b(h *H) {
	const rule = "R10b"
	h.Rule(rule, "K1", "v2: a record header is accepted only under computed CRC == stored CRC; RecoverIndex appends an index entry only after the header validation succeeded; ReadIndex returns an index only under index CRC equality", 3)
	crcValue := func(v ssa.Value) bool {
		return ir.DependsOn(v, func(x ssa.Value) bool {
			c, ok := x.(*ssa.Call)
			if !ok {
				return false
			}
			f := c.Call.StaticCallee()
			if f == nil {
				return false
			}
			isCrc := func(g *ssa.Function) bool {
				return g != nil && (ir.RelPkg(ir.PkgPathOf(g)) == "server/util/crc" || (g.Pkg != nil && g.Pkg.Pkg.Path() == "hash/crc32"))
			}
			if isCrc(f) {
				return true
			}
			// an extracted checksum helper of the codec: returns an integer and (statically) reaches the crc package
			if ir.InRepo(f) && f.Blocks != nil && f.Signature.Results().Len() == 1 {
				if b, isB := f.Signature.Results().At(0).Type().Underlying().(*types.Basic); isB && b.Info()&types.IsInteger != 0 {
					if r, _ := h.P.StaticReaches(f, func(cc *ssa.CallCommon) bool { return isCrc(cc.StaticCallee()) }); r {
						return true
					}
				}
			}
			return false
		})
	}
	for _, fn := range h.P.Funcs {
		if fn.Parent() != nil || fn.Signature.Recv() == nil || !ir.TypeIs(fn.Signature.Recv().Type(), "server/wal/codec", "V2") {
			continue
		}
		switch fn.Name() {
		case "ReadHeaderWithValidation", "ReadIndex":
		default:
			continue
		}
		h.Fn(ir.FuncName(fn))
		edges := ir.EdgesWhere(fn, func(c ir.Cmp) bool {
			return c.Op == token.EQL && crcValue(c.L) && dependsOnReadInt(h, c.R) && !crcValue(c.R)
		})
		n := 0
		okAll := true
		ir.Instrs(fn, func(in ssa.Instruction) {
			ret, isRet := in.(*ssa.Return)
			if !isRet {
				return
			}
			vals := ir.ReturnValues(ret)
			if c, isC := vals[len(vals)-1].(*ssa.Const); !isC || !c.IsNil() {
				return
			}
			n++
			if ok, _ := ir.MustPassEdge(fn, nil, in, edges, nil); !ok {
				okAll = false
			}
		})
		h.Verdict(okAll && n > 0 && len(edges) > 0, rule, "checksum before success in "+ir.FuncName(fn), h.P.Pos(fn.Pos()), fmt.Sprintf("%d success return(s), all behind the CRC equality", n), "a success return is reachable without the checksum comparison: damaged data would be returned as valid")
	}
	for _, fn := range codecImplMethods(h, rule, "RecoverIndex") {
		if !ir.TypeIs(fn.Signature.Recv().Type(), "server/wal/codec", "V2") {
			continue
		}
		var validations []ssa.CallInstruction
		validations = append(validations, h.P.CallsIn(fn, codecHeader)...)
		ir.Instrs(fn, func(in ssa.Instruction) {
			c, ok := in.(*ssa.Call)
			if !ok {
				return
			}
			f := c.Call.StaticCallee()
			if f == nil || f.Name() != "AppendUint32" {
				return
			}
			good := false
			for _, v := range validations {
				if sd, _, _ := ir.SuccessDominated(v, in); sd {
					good = true
				}
			}
			h.Verdict(good, rule, "index entry after validation in "+ir.FuncName(fn), h.pos(in), "success-dominated by ReadHeaderWithValidation", "an entry is added to the recovered index without a successful header/CRC validation")
		})
	}
}

func ruleR10c(h *H) {
	const rule = "R10c"
	h.Rule(rule, "K5", "v2 recovery: a damaged entry ends the scan without error only under commitOffset != nil && entryOffset > *commitOffset, where entryOffset is the absolute offset of the entry being scanned (base offset + entries scanned)", 1)
	for _, fn := range codecImplMethods(h, rule, "RecoverIndex") {
		if !ir.TypeIs(fn.Signature.Recv().Type(), "server/wal/codec", "V2") {
			continue
		}
		var base, commit *ssa.Parameter
		for _, p := range fn.Params {
			if p.Type().String() == "int64" {
				base = p
			}
			if pt, ok := p.Type().(*types.Pointer); ok && pt.Elem().String() == "int64" {
				commit = p
			}
		}
		if base == nil || commit == nil {
			h.Anchor(rule, "baseEntryOffset / commitOffset parameters of "+ir.FuncName(fn))
			continue
		}
		// the entry-offset counter: phi(base, phi+1)
		isCounter := func(v ssa.Value) bool {
			phi, ok := v.(*ssa.Phi)
			if !ok {
				return false
			}
			hasBase, hasInc := false, false
			for _, e := range phi.Edges {
				if ir.Canon(e) == ssa.Value(base) {
					hasBase = true
				}
				if bo, ok := e.(*ssa.BinOp); ok && bo.Op == token.ADD && bo.X == ssa.Value(phi) && isOne(bo.Y) {
					hasInc = true
				}
			}
			return hasBase && hasInc
		}
		var isCommitDeref func(v ssa.Value) bool
		isCommitDeref = func(v ssa.Value) bool {
			if u, ok := v.(*ssa.UnOp); ok && u.Op == token.MUL && ir.Canon(u.X) == ssa.Value(commit) {
				return true
			}
			// the dereference hoisted out of the loop: a local that holds *commitOffset
			// whenever the pointer is not nil (and a constant otherwise)
			if phi, ok := ir.Canon(v).(*ssa.Phi); ok {
				derefs := 0
				for _, e := range phi.Edges {
					if _, isK := e.(*ssa.Const); isK {
						continue
					}
					if !isCommitDeref(e) {
						return false
					}
					derefs++
				}
				return derefs > 0
			}
			return false
		}
		// calls errors.Is(err, ErrOffsetOutOfBounds|ErrDataCorrupted): the "damaged" classification
		damagedEdges := map[ir.Edge]bool{}
		for _, b := range fn.Blocks {
			iff, ok := b.Instrs[len(b.Instrs)-1].(*ssa.If)
			if !ok {
				continue
			}
			if isDamageTest(iff.Cond) {
				damagedEdges[ir.Edge{From: b, To: b.Succs[0]}] = true
			}
		}
		if len(damagedEdges) == 0 {
			h.Anchor(rule, "classification of ErrDataCorrupted / ErrOffsetOutOfBounds in "+ir.FuncName(fn))
			continue
		}
		involvesBase := func(v ssa.Value) bool {
			return isCounter(v) || ir.DependsOn(v, func(x ssa.Value) bool { return x == ssa.Value(base) || isCounter(x) })
		}
		okGuard := ir.EdgesWhere(fn, func(c ir.Cmp) bool {
			return c.Op == token.GTR && involvesBase(c.L) && isCommitDeref(c.R)
		})
		// From a "damaged" edge, every path to a nil-error return must pass the guard edge.
		bad := ""
		var w []int
		for e := range damagedEdges {
			ir.Instrs(fn, func(in ssa.Instruction) {
				ret, isRet := in.(*ssa.Return)
				if !isRet || bad != "" {
					return
				}
				vals := ir.ReturnValues(ret)
				if c, isC := vals[len(vals)-1].(*ssa.Const); !isC || !c.IsNil() {
					return
				}
				// barrier: the next header validation (next loop iteration) ends the influence of this error
				next := func(x ssa.Instruction) bool {
					c := ir.CallOf(x)
					return c != nil && h.P.Matches(c, codecHeader)
				}
				if r, path := ir.Reach(ir.Search{FromBlock: e.To, Blocked: okGuard, Barrier: next}, ir.Is(in)); r {
					bad = "a damaged entry can end recovery successfully without the guard `entry offset > commit offset` (committed data would be dropped silently, or the comparison uses something other than the entry's absolute offset)"
					w = path
				}
			})
		}
		h.Verdict(bad == "" && len(okGuard) > 0, rule, "discard guard in "+ir.FuncName(fn), h.P.Pos(fn.Pos()), "silent discard only under entryOffset > *commitOffset", badOr(bad, "no comparison of the entry-offset counter with *commitOffset found"), witness(w))
		// the nil check of the pointer
		nilOK := false
		for _, t := range ir.NilTests(commit) {
			_ = t
			nilOK = true
		}
		if !nilOK {
			// the test travelled with the dereference into a predicate helper
			ir.Instrs(fn, func(in ssa.Instruction) {
				c, isCall := in.(*ssa.Call)
				if !isCall {
					return
				}
				g := c.Call.StaticCallee()
				if g == nil || !ir.InRepo(g) || g.Blocks == nil {
					return
				}
				for i, a := range c.Call.Args {
					if ir.Canon(a) == ssa.Value(commit) && i < len(g.Params) && len(ir.NilTests(g.Params[i])) > 0 {
						nilOK = true
					}
				}
			})
		}
		h.Verdict(nilOK, rule, "commit offset nil check in "+ir.FuncName(fn), h.P.Pos(fn.Pos()), "commitOffset is tested against nil", "commitOffset is dereferenced without a nil test")
	}
}

func badOr(a, b string) string {
	if a != "" {
		return a
	}
	return b
}

func isDamageTest(cond ssa.Value) bool {
	isCall := func(v ssa.Value) bool {
		c, ok := v.(*ssa.Call)
		if !ok {
			return false
		}
		f := c.Call.StaticCallee()
		if f == nil || f.Name() != "Is" || len(c.Call.Args) != 2 {
			return false
		}
		u, ok := c.Call.Args[1].(*ssa.UnOp)
		if !ok {
			return false
		}
		g, ok := u.X.(*ssa.Global)
		return ok && (g.Name() == "ErrDataCorrupted" || g.Name() == "ErrOffsetOutOfBounds")
	}
	if isCall(cond) {
		return true
	}
	if phi, ok := cond.(*ssa.Phi); ok {
		for _, e := range phi.Edges {
			if isCall(e) {
				return true
			}
		}
	}
	// the classification moved into a predicate helper (`isDamagedRecord(err)`)
	if c, ok := cond.(*ssa.Call); ok {
		if g := c.Call.StaticCallee(); g != nil && ir.InRepo(g) && g.Blocks != nil && g.Signature.Results().Len() == 1 && g.Signature.Results().At(0).Type().String() == "bool" {
			found := false
			ir.Instrs(g, func(in ssa.Instruction) {
				if ret, isRet := in.(*ssa.Return); isRet && len(ret.Results) == 1 {
					if v := ret.Results[0]; v != cond && (isCall(v) || isDamagePhi(v, isCall)) {
						found = true
					}
				}
			})
			return found
		}
	}
	return false
}

func isDamagePhi(v ssa.Value, isCall func(ssa.Value) bool) bool {
	phi, ok := v.(*ssa.Phi)
	if !ok {
		return false
	}
	for _, e := range phi.Edges {
		if isCall(e) {
			return true
		}
	}
	return false
}

func ruleR10d(h *H) {
	const rule = "R10d"
	h.Rule(rule, "K1", "the first field of a record header is read only when offset <= len(buf)-HeaderSize and len(buf) >= HeaderSize were established; the v2 index checksum only when the file holds it", 3)
	for _, fn := range codecImplMethods(h, rule, "ReadHeaderWithValidation") {
		var buf, off *ssa.Parameter
		for _, p := range fn.Params {
			if _, ok := p.Type().Underlying().(*types.Slice); ok {
				buf = p
			}
			if p.Type().String() == "uint32" {
				off = p
			}
		}
		reads := h.P.CallsIn(fn, readIntFn)
		if buf == nil || off == nil || len(reads) == 0 {
			h.Anchor(rule, "buffer/offset parameters and ReadInt calls of "+ir.FuncName(fn))
			continue
		}
		isLen := func(v ssa.Value) bool {
			v = stripConv(ir.Canon(v))
			c, ok := v.(*ssa.Call)
			if !ok {
				return false
			}
			b, ok := c.Call.Value.(*ssa.Builtin)
			return ok && b.Name() == "len" && ir.Canon(c.Call.Args[0]) == ssa.Value(buf)
		}
		isHeaderSize := func(v ssa.Value) bool {
			r, ok := ir.FieldLoadOf(ir.Canon(v))
			if ok && r.Field == "HeaderSize" {
				return true
			}
			c, isC := ir.Canon(v).(*ssa.Const)
			return isC && c.Value != nil && c.Int64() >= 4
		}
		// off <= len - H   (or off < len - H + 1 ...)
		fits := ir.EdgesWhere(fn, func(c ir.Cmp) bool {
			if !(c.Op == token.LEQ || c.Op == token.LSS) || ir.Canon(c.L) != ssa.Value(off) {
				return false
			}
			bo, ok := ir.Canon(c.R).(*ssa.BinOp)
			return ok && bo.Op == token.SUB && isLen(bo.X) && isHeaderSize(bo.Y)
		})
		// len >= H
		room := ir.EdgesWhere(fn, func(c ir.Cmp) bool {
			return (c.Op == token.GEQ || c.Op == token.GTR) && isLen(c.L) && isHeaderSize(c.R)
		})
		first := reads[0]
		ok1, _ := ir.MustPassEdge(fn, nil, first, fits, nil)
		ok2, _ := ir.MustPassEdge(fn, nil, first, room, nil)
		h.Verdict(ok1 && ok2 && len(fits) > 0 && len(room) > 0, rule, "header read bounds in "+ir.FuncName(fn), h.pos(first), "offset <= len(buf)-HeaderSize and len(buf) >= HeaderSize hold at the first read",
			"the header is read although the buffer may not hold a whole header at that offset (offsets in the last HeaderSize-1 bytes, or a buffer shorter than a header, are admitted)")
	}
	// v2 ReadIndex
	for _, fn := range codecImplMethods(h, rule, "ReadIndex") {
		reads := h.P.CallsIn(fn, readIntFn)
		if len(reads) == 0 {
			continue
		}
		room := ir.EdgesWhere(fn, func(c ir.Cmp) bool {
			if !(c.Op == token.GEQ || c.Op == token.GTR) {
				return false
			}
			l := stripConv(ir.Canon(c.L))
			call, ok := l.(*ssa.Call)
			if !ok {
				return false
			}
			b, ok := call.Call.Value.(*ssa.Builtin)
			return ok && b.Name() == "len" && ir.SameExpr(call.Call.Args[0], argOf(reads[0].Common(), 0))
		})
		ok, _ := ir.MustPassEdge(fn, nil, reads[0], room, nil)
		h.Verdict(ok && len(room) > 0, rule, "index checksum read bounds in "+ir.FuncName(fn), h.pos(reads[0]), "the file length is checked before the checksum is read", "the index checksum is read from a file that may be shorter than the checksum (panic on a truncated index file)")
	}
}

func ruleR10f(h *H) {
	const rule = "R10f"
	h.Rule(rule, "K1", "in the constructors that open the WAL, every field that the controller's CommitOffset() reads and that the constructor assigns is assigned before Factory.NewWal is called; CommitOffset() is backed by the DB's stored commit offset", 2)
	n := 0
	for _, s := range h.P.AllCalls(ir.InPkg("server"), walFactory) {
		fn := s.Fn
		if fn.Parent() != nil {
			continue
		}
		// the provider argument: the controller under construction
		prov := argOf(s.Call.Common(), 2)
		nt := provType(prov)
		if nt == nil {
			continue
		}
		n++
		h.Fn(ir.FuncName(fn))
		tn := nt.Obj().Name()
		co := h.P.Func("server", tn, "CommitOffset")
		if co == nil {
			h.Anchor(rule, tn+".CommitOffset")
			continue
		}
		h.Fn(ir.FuncName(co))
		// fields read by CommitOffset()
		fields := map[string]bool{}
		ir.Instrs(co, func(in ssa.Instruction) {
			if fa, ok := in.(*ssa.FieldAddr); ok {
				if ref, ok := ir.FieldAddrOf(fa); ok && ref.Is("server", tn, ref.Field) {
					fields[ref.Field] = true
				}
			}
		})
		name := "WAL opened in " + ir.FuncName(fn)
		bad := ""
		backed := false
		for f := range fields {
			for _, w := range h.P.FieldWrites("server", tn, f) {
				if w.Fn != fn || w.Kind == "literal" && isNilOrZero(w.Val) {
					continue
				}
				if !ir.Dominates(w.Instr, s.Call) {
					bad = fmt.Sprintf("%s.%s, which CommitOffset() reads, is assigned (%s) after the WAL has been opened: recovery sees the zero value and treats every damaged entry as uncommitted", tn, f, h.pos(w.Instr))
				}
				if w.Val != nil && (isExtractOf(h, ir.Canon(w.Val), dbReadCommit) || ir.TypeIs(w.Val.Type(), "server/kv", "DB")) {
					backed = true
				}
			}
		}
		if !backed {
			// or CommitOffset itself reads the DB
			if ok, _ := h.P.StaticReaches(co, h.P.MatchPred(dbReadCommit)); ok {
				backed = true
			}
		}
		if bad == "" && !backed {
			bad = "CommitOffset() of " + tn + " is not backed by the commit offset stored in the DB at the time the WAL is recovered"
		}
		h.Verdict(bad == "", rule, name, h.pos(s.Call), "CommitOffset() inputs initialised from the DB before NewWal", bad)
	}
	if n == 0 {
		h.Anchor(rule, "calls of wal.Factory.NewWal in controller constructors")
	}
}

func provType(v ssa.Value) *types.Named {
	v = ir.Canon(v)
	if mi, ok := v.(*ssa.MakeInterface); ok {
		v = ir.Canon(mi.X)
	}
	t := v.Type()
	if p, ok := t.(*types.Pointer); ok {
		t = p.Elem()
	}
	n, _ := types.Unalias(t).(*types.Named)
	return n
}

func isNilOrZero(v ssa.Value) bool {
	c, ok := v.(*ssa.Const)
	return ok && (c.IsNil() || c.Value == nil || c.Value.String() == "0")
}

// ruleSegmentListSorted (shared with C09): recovery picks the first and the last element of
// the list of segment base offsets. os.ReadDir orders by file name ("16" < "8"), so the
// list must be sorted numerically, either by the function that builds it or by the
// consumer before it indexes it.
func ruleSegmentListSorted(h *H, rule string) {
	h.Rule(rule, "K1", "every []int64 built from os.ReadDir in server/wal is sorted (slices.Sort / sort.*) before it is returned, or before a consumer indexes it", 1)
	isReadDir := func(c *ssa.CallCommon) bool {
		f := c.StaticCallee()
		return f != nil && f.Pkg != nil && f.Pkg.Pkg.Path() == "os" && (f.Name() == "ReadDir" || f.Name() == "Readdir" || f.Name() == "Readdirnames")
	}
	isSort := func(c *ssa.CallCommon) bool {
		f := c.StaticCallee()
		if f == nil {
			return false
		}
		o := f
		if f.Origin() != nil {
			o = f.Origin()
		}
		if o.Pkg == nil {
			return false
		}
		pk := o.Pkg.Pkg.Path()
		return (pk == "slices" || pk == "sort" || strings.HasSuffix(pk, "/slices")) && (strings.HasPrefix(o.Name(), "Sort") || o.Name() == "Slice" || o.Name() == "SliceStable" || o.Name() == "Ints")
	}
	sameSlice := func(a, b ssa.Value) bool {
		ca, cb := ir.Canon(a), ir.Canon(b)
		if ca == cb {
			return true
		}
		ua, oka := ca.(*ssa.UnOp)
		ub, okb := cb.(*ssa.UnOp)
		return oka && okb && ua.Op == token.MUL && ub.Op == token.MUL && ua.X == ub.X
	}
	n := 0
	for _, fn := range h.P.Funcs {
		if fn.Parent() != nil || ir.RelPkg(ir.PkgPathOf(fn)) != "server/wal" {
			continue
		}
		res := fn.Signature.Results()
		if res.Len() == 0 || res.At(0).Type().String() != "[]int64" {
			continue
		}
		direct := false
		ir.Instrs(fn, func(in ssa.Instruction) {
			if c := ir.CallOf(in); c != nil && isReadDir(c) {
				direct = true
			}
		})
		if !direct {
			continue
		}
		n++
		h.Fn(ir.FuncName(fn))
		// (a) sorted before every successful return
		sortedHere := true
		var at ssa.Instruction
		ir.Instrs(fn, func(in ssa.Instruction) {
			ret, ok := in.(*ssa.Return)
			if !ok || in.Block() == fn.Recover || !sortedHere {
				return
			}
			vals := ir.ReturnValues(ret)
			if isNilConst(ir.Canon(vals[0])) || !mayReturnNilError(ret) {
				return
			}
			isSortOfResult := func(x ssa.Instruction) bool {
				c := ir.CallOf(x)
				return c != nil && isSort(c) && len(c.Args) > 0 && sameSlice(c.Args[0], vals[0])
			}
			if r, _ := ir.Reach(ir.Search{Fn: fn, Barrier: isSortOfResult}, ir.Is(in)); r {
				sortedHere = false
				at = in
			}
		})
		if sortedHere {
			h.OK(rule, "segment list built by "+ir.FuncName(fn), h.P.Pos(fn.Pos()), "sorted before every successful return")
			continue
		}
		// (b) otherwise every consumer sorts before indexing
		okAll, why := true, ""
		sites := ir.StaticCallSites(fn)
		if len(sites) == 0 {
			okAll, why = false, "its callers are not all known"
		}
		for _, cs := range sites {
			v, _ := cs.(ssa.Value)
			if v == nil {
				continue
			}
			caller := cs.Parent()
			ir.Instrs(caller, func(x ssa.Instruction) {
				ia, ok := x.(*ssa.IndexAddr)
				if !ok || !okAll {
					return
				}
				if !ir.DependsOn(ia.X, func(y ssa.Value) bool { return y == v }) {
					return
				}
				sorted := false
				ir.Instrs(caller, func(y ssa.Instruction) {
					if c := ir.CallOf(y); c != nil && isSort(c) && len(c.Args) > 0 && sameSlice(c.Args[0], ia.X) && ir.Dominates(y, x) {
						sorted = true
					}
				})
				if !sorted {
					okAll, why = false, ir.FuncName(caller)+" indexes the list at "+h.pos(x)+" without sorting it"
				}
			})
		}
		h.Verdict(okAll, rule, "segment list built by "+ir.FuncName(fn), h.pos(at), "every consumer sorts before indexing",
			"the list of segment base offsets is returned in directory (file name) order and "+why+": with base offsets of different widths (8, 16) recovery takes a middle segment for the last one and the reopened log silently lacks entries")
	}
	if n == 0 {
		h.Anchor(rule, "the function of server/wal building a []int64 from os.ReadDir")
	}
}

// ruleR10j: recovery of the read-write segment discards a damaged uncommitted entry and
// everything behind it by ending the scan there. A record is validated only against the
// previous-CRC stored in its own header, so the discarded bytes have to be wiped: once an
// entry of the same size has been appended over the damaged one, the stale records behind
// it would be accepted by the next recovery as entries of the log.
func ruleR10j(h *H) {
	const rule = "R10j"
	h.Rule(rule, "K1", "the function that opens a read-write segment clears the mapped file from the write position returned by Codec.RecoverIndex onwards (clear() or a zero-store loop over a slice that starts there) before it returns the segment", 1)
	recover := ir.Callee{Pkg: "server/wal/codec", Recv: "Codec", Name: "RecoverIndex"}
	n := 0
	for _, fn := range h.P.Funcs {
		if ir.RelPkg(ir.PkgPathOf(fn)) != "server/wal" || fn.Blocks == nil {
			continue
		}
		recs := h.P.CallsIn(fn, recover)
		if len(recs) == 0 {
			continue
		}
		// only where the result becomes a read-write segment (the read-only path rebuilds an index file)
		rw := false
		root := regionRoot(fn) // the recovery step may be an extracted part of the constructor
		for i := 0; i < root.Signature.Results().Len(); i++ {
			if ir.TypeIs(root.Signature.Results().At(i).Type(), "server/wal", "ReadWriteSegment") {
				rw = true
			}
		}
		if !rw {
			continue
		}
		h.Fn(ir.FuncName(fn))
		for _, rec := range recs {
			n++
			// the write position: result #2 of RecoverIndex, possibly stored into the segment first
			fromWritePos := func(v ssa.Value) bool {
				return ir.DependsOn(v, func(x ssa.Value) bool {
					ex, ok := x.(*ssa.Extract)
					if ok && ex.Tuple == rec.Value() && ex.Index == 2 {
						return true
					}
					// read back from the field it was stored into
					if r, isF := ir.FieldLoadOf(x); isF && r.Struct != nil {
						for _, w := range h.P.FieldWrites("server/wal", r.Struct.Obj().Name(), r.Field) {
							if w.Fn == fn && w.Val != nil {
								if e2, isE := ir.Canon(w.Val).(*ssa.Extract); isE && e2.Tuple == rec.Value() && e2.Index == 2 {
									return true
								}
							}
						}
					}
					return false
				})
			}
			var wipe ssa.Instruction
			ir.Instrs(fn, func(in ssa.Instruction) {
				if wipe != nil || !ir.Dominates(rec, in) {
					return
				}
				var target ssa.Value
				if c := ir.CallOf(in); c != nil {
					if b, isB := c.Value.(*ssa.Builtin); isB && b.Name() == "clear" && len(c.Args) == 1 {
						target = c.Args[0]
					}
				}
				if st, isSt := in.(*ssa.Store); isSt {
					if k, isK := st.Val.(*ssa.Const); isK && k.Value != nil && k.Int64() == 0 {
						if ia, isIA := st.Addr.(*ssa.IndexAddr); isIA {
							target = ia.X
						}
					}
				}
				if target == nil {
					return
				}
				// the wiped slice starts at the recovered write position
				if ir.DependsOn(target, func(x ssa.Value) bool {
					sl, ok := x.(*ssa.Slice)
					return ok && sl.Low != nil && sl.High == nil && fromWritePos(sl.Low)
				}) {
					wipe = in
				}
			})
			ok := wipe != nil
			if ok {
				// and it is on the way to the successful return
				reaches := false
				ir.Instrs(fn, func(x ssa.Instruction) {
					if ret, isRet := x.(*ssa.Return); isRet && mayReturnNilError(ret) {
						if r, _ := ir.Reach(ir.Search{From: wipe}, ir.Is(x)); r {
							reaches = true
						}
					}
				})
				ok = reaches
			}
			h.Verdict(ok, rule, "tail behind the recovered entries in "+ir.FuncName(fn), h.pos(rec), "wiped from the recovered write position to the end of the mapped file", "the bytes behind the entries that recovery accepted stay in the file: a damaged uncommitted entry is discarded by ending the scan, but once an entry of the same size is appended over it the stale records behind it pass validation again and the next recovery brings discarded (possibly superseded) entries back")
		}
	}
	if n == 0 {
		h.Anchor(rule, "the Codec.RecoverIndex call of the function opening a read-write segment")
	}
}
