package props

import (
	"fmt"
	"go/token"
	"sort"
	"strings"

	"golang.org/x/tools/go/ssa"

	"oxiaverif/internal/chk"
	"oxiaverif/internal/ir"
)

func init() { register("C12", checkC12) }

var (
	batchRangeScan = ir.Callee{Pkg: "server/kv", Recv: "WriteBatch", Name: "RangeScan"}
	batchGet       = ir.Callee{Pkg: "server/kv", Recv: "WriteBatch", Name: "Get"}
	cbOnDelEntry   = ir.Callee{Pkg: "server/kv", Recv: "UpdateOperationCallback", Name: "OnDeleteWithEntry"}
)

func checkC12(c *chk.Ctx) {
	h := newH(c)
	c.Decided = []string{
		"R12h the WriteBatch implementation maps Put/Delete/DeleteRange onto the engine's Set/Delete/DeleteRange (a single-delete tombstone is only valid for keys written once and would resurrect overwritten records)",
		"R12a puts are applied before deletes before range deletes",
		"R12b one atomic indexed batch per request (shared with C07)",
		"R12c every read made while applying goes through the request's batch, never the KV directly",
		"R12d the expected-version check implements its decision table (found/absent x nil/-1/equal/different), and its callers map bad-version / absent-on-delete to the documented statuses",
		"R12e version ids come from the shard counter (Add(1), non-internal puts only); modification counts are 0 on creation and previous+1 on update",
		"R12f delete-range: the scan and the range tombstone use the same request bounds, the callback runs for every key of the range, and the two strategies are selected by complementary conditions on one counter",
	}
	c.NotDec = []string{
		"conformance to the sequential specification for every request sequence (value-level)",
		"[start,end) semantics under the slash order",
	}
	ruleR12a(h)
	ruleR07a(h, "R12b")
	ruleR12c(h)
	ruleR12d(h)
	ruleR12e(h)
	ruleR12f(h)
	ruleR06dInto(h, "R12g", false)
	ruleR12h(h)
}

// applyCallFor returns, in the function that builds the WriteResponse, the call whose
// result is appended to res.<field>.
func applyCallFor(h *H, field string) (*ssa.Function, *ssa.Call) {
	for _, w := range h.P.FieldWrites("proto", "WriteResponse", field) {
		if ir.RelPkg(ir.PkgPathOf(w.Fn)) != "server/kv" || w.Val == nil {
			continue
		}
		var found *ssa.Call
		if app, ok := ir.Canon(w.Val).(*ssa.Call); ok && len(app.Call.Args) == 2 {
			if ex, ok := appendedElem(app).(*ssa.Extract); ok {
				if c, ok := ex.Tuple.(*ssa.Call); ok && c.Call.StaticCallee() != nil && ir.InRepo(c.Call.StaticCallee()) {
					found = c
				}
			}
		}
		if found != nil {
			return w.Fn, found
		}
	}
	return nil, nil
}

func ruleR12a(h *H) {
	const rule = "R12a"
	h.Rule(rule, "K1", "within one request the puts are applied before the deletes, and the deletes before the range deletes (no path leads back)", 2)
	_, put := applyCallFor(h, "Puts")
	_, del := applyCallFor(h, "Deletes")
	fn, dr := applyCallFor(h, "DeleteRanges")
	if put == nil || del == nil || dr == nil {
		h.Anchor(rule, "the apply calls whose results fill WriteResponse.Puts/Deletes/DeleteRanges")
		return
	}
	h.Fn(ir.FuncName(fn))
	check := func(name string, first, second *ssa.Call) {
		fwd, _ := ir.Reach(ir.Search{From: first}, ir.Is(second))
		back, path := ir.Reach(ir.Search{From: second}, ir.Is(first))
		ok := fwd && !back
		why := ""
		if !fwd {
			why = "the second kind is never applied after the first"
		}
		if back {
			why = "operations of the later kind can be applied before operations of the earlier kind " + witness(path)
		}
		h.Verdict(ok, rule, name, h.pos(second), "strictly ordered", why)
	}
	check("puts before deletes in "+ir.FuncName(fn), put, del)
	check("deletes before range deletes in "+ir.FuncName(fn), del, dr)
}

func ruleR12c(h *H) {
	const rule = "R12c"
	h.Rule(rule, "K9", "no read method of kv.KV (Get, RangeScan, KeyRangeScan*, KeyIterator, Snapshot) is reachable from ProcessWrite: reads go through the request's indexed batch", 1)
	cl, fns := applyClosure(h, rule)
	reads := map[string]bool{"Get": true, "RangeScan": true, "KeyRangeScan": true, "KeyRangeScanReverse": true, "KeyIterator": true, "Snapshot": true}
	kvImpl := map[string]bool{}
	for _, n := range h.P.Impls("server/kv", "KV") {
		kvImpl[n.Obj().Name()] = true
	}
	bad := 0
	for _, f := range fns {
		ir.Instrs(f, func(in ssa.Instruction) {
			c := ir.CallOf(in)
			if c == nil {
				return
			}
			isRead := false
			if c.IsInvoke() {
				isRead = ir.TypeIs(c.Value.Type(), "server/kv", "KV") && reads[c.Method.Name()]
			} else if sf := c.StaticCallee(); sf != nil && sf.Signature.Recv() != nil && reads[sf.Name()] {
				if n := namedName(sf.Signature.Recv().Type()); kvImpl[n] && ir.RelPkg(ir.PkgPathOf(sf)) == "server/kv" {
					isRead = true
				}
			}
			if isRead {
				bad++
				h.Bad(rule, fmt.Sprintf("KV read %s in %s", describeCallee(c), ir.FuncName(f)), h.pos(in), "a read bypasses the request's batch: operations of one request would not see the effects of the earlier ones ("+ir.PathTo(cl, f)+")")
			}
		})
	}
	if bad == 0 {
		h.OK(rule, "apply closure reads", "", fmt.Sprintf("%d functions, no direct KV read", len(fns)))
	}
}

// ---------------------------------------------------------------------------------

func ruleR12d(h *H) {
	const rule = "R12d"
	h.Rule(rule, "K11", "expected-version check: absent & (nil or -1) -> ok/no entry; absent otherwise -> bad version; present & (nil or equal) -> ok/entry; present & different -> bad version; other read errors are passed on. Callers map bad version to UNEXPECTED_VERSION_ID and an absent key on delete to KEY_NOT_FOUND", 10)
	// the check function: (WriteBatch, string, *int64) (*StorageEntry, error) in server/kv
	var fn *ssa.Function
	for _, f := range h.P.Funcs {
		if f.Parent() != nil || ir.RelPkg(ir.PkgPathOf(f)) != "server/kv" || f.Signature.Recv() != nil || f.Signature.Params().Len() != 3 || f.Signature.Results().Len() != 2 {
			continue
		}
		if ir.TypeIs(f.Signature.Params().At(0).Type(), "server/kv", "WriteBatch") && f.Signature.Params().At(2).Type().String() == "*int64" && ir.TypeIs(f.Signature.Results().At(0).Type(), "proto", "StorageEntry") {
			fn = f
		}
	}
	if fn == nil {
		h.Anchor(rule, "the expected-version check function (WriteBatch, key, *int64) (*StorageEntry, error)")
		return
	}
	h.Fn(ir.FuncName(fn))
	exp := fn.Params[2]
	// the read: first call returning (*StorageEntry, error)
	var read *ssa.Call
	ir.Instrs(fn, func(in ssa.Instruction) {
		if c, ok := in.(*ssa.Call); ok && read == nil && c.Call.Signature().Results().Len() == 2 && ir.TypeIs(c.Call.Signature().Results().At(0).Type(), "proto", "StorageEntry") {
			read = c
		}
	})
	var seV, errV ssa.Value
	if read != nil {
		for _, r := range *read.Referrers() {
			if ex, ok := r.(*ssa.Extract); ok {
				if ex.Index == 0 {
					seV = ex
				} else {
					errV = ex
				}
			}
		}
	} else {
		// the read is written out in the check itself (batch.Get + deserialisation): it must
		// at least go through the request's batch
		if reaches, _ := h.P.StaticReaches(fn, h.P.MatchPred(ir.Callee{Pkg: "server/kv", Recv: "WriteBatch", Name: "Get"})); !reaches {
			h.Anchor(rule, "the read of the current entry in "+ir.FuncName(fn))
			return
		}
	}
	// the outcome of the read as one abstract atom: any error value produced while reading
	// (not a sentinel, not nil) is "the read error"; any non-nil entry is "the entry read"
	isReadErr := func(v ssa.Value) bool {
		if errV != nil {
			return v == errV
		}
		if !ir.IsError(v.Type()) {
			return false
		}
		if _, isC := v.(*ssa.Const); isC {
			return false
		}
		if u, ok := v.(*ssa.UnOp); ok {
			if _, isG := u.X.(*ssa.Global); isG {
				return false
			}
		}
		return true
	}
	isEntry := func(v ssa.Value) bool {
		if seV != nil {
			return v == seV
		}
		if _, isC := v.(*ssa.Const); isC {
			return false
		}
		return ir.TypeIs(v.Type(), "proto", "StorageEntry")
	}
	cls := func(v ssa.Value, path []*ssa.BasicBlock) string {
		v = ir.PhiAlong(v, path)
		if c, ok := v.(*ssa.Const); ok {
			if c.IsNil() {
				return "nil"
			}
			if c.Value != nil {
				return fmt.Sprintf("k%d", c.Int64())
			}
		}
		cv := ir.Canon(v)
		switch {
		case isReadErr(cv):
			return "err"
		case cv == ssa.Value(exp):
			return "exp"
		}
		if u, ok := cv.(*ssa.UnOp); ok && u.Op == token.MUL && ir.Canon(u.X) == ssa.Value(exp) {
			return "expv"
		}
		if r, ok := ir.FieldLoadOf(cv); ok && r.Is("proto", "StorageEntry", "VersionId") {
			return "ver"
		}
		if call, ok := cv.(*ssa.Call); ok {
			if f := call.Call.StaticCallee(); f != nil && f.Name() == "Is" && len(call.Call.Args) == 2 {
				if u, ok := call.Call.Args[1].(*ssa.UnOp); ok {
					if g, ok := u.X.(*ssa.Global); ok && g.Name() == "ErrKeyNotFound" {
						return "isNotFound"
					}
				}
			}
		}
		return ""
	}
	type tcase struct {
		name            string
		found, notFound bool
		expNil          bool
		expv            int64
		want            string
	}
	const ver = 5
	var cases []tcase
	for _, st := range []string{"present", "absent", "ioerror"} {
		for _, e := range []string{"nil", "-1", "equal", "different", "zero"} {
			tc := tcase{name: st + " / expected " + e, found: st == "present", notFound: st == "absent", expNil: e == "nil"}
			switch e {
			case "-1":
				tc.expv = -1
			case "equal":
				tc.expv = ver
			case "different":
				tc.expv = 7
			case "zero":
				tc.expv = 0
			}
			switch {
			case st == "ioerror":
				tc.want = "error:other"
			case st == "absent" && (e == "nil" || e == "-1"):
				tc.want = "ok:none"
			case st == "absent":
				tc.want = "error:badversion"
			case e == "nil" || e == "equal":
				tc.want = "ok:entry"
			default:
				tc.want = "error:badversion"
			}
			cases = append(cases, tc)
		}
	}
	for _, tc := range cases {
		c := ir.AbsCase{Vals: map[string]int64{"nil": 0, "ver": ver, "k-1": -1, "k0": 0, "k5": 5, "k7": 7}, Bool: map[string]bool{"isNotFound": tc.notFound}}
		if tc.found {
			c.Vals["err"] = 0
		} else {
			c.Vals["err"] = 1
		}
		if tc.expNil {
			c.Vals["exp"] = 0
		} else {
			c.Vals["exp"] = 1
			c.Vals["expv"] = tc.expv
		}
		path, ok, why := ir.AbsWalk(fn.Blocks[0], nil, nil, cls, c)
		name := "version check: " + tc.name
		if !ok {
			h.Unknown(rule, name, h.P.Pos(fn.Pos()), "cannot evaluate the check under this case: "+why)
			continue
		}
		last := path[len(path)-1]
		ret, isRet := last.Instrs[len(last.Instrs)-1].(*ssa.Return)
		if !isRet {
			h.Unknown(rule, name, h.P.Pos(fn.Pos()), "path does not end in a return")
			continue
		}
		vals := ir.ReturnValues(ret)
		r0, r1 := ir.PhiAlong(vals[0], path), ir.PhiAlong(vals[1], path)
		got := ""
		switch {
		case isNilConst(r1) && isNilConst(r0):
			got = "ok:none"
		case isNilConst(r1) && isEntry(ir.Canon(r0)):
			got = "ok:entry"
		case isGlobalLoad(r1, "ErrBadVersionId"):
			got = "error:badversion"
		case isReadErr(ir.Canon(r1)):
			got = "error:other"
		default:
			got = "other(" + ir.Describe(r0) + ", " + ir.Describe(r1) + ")"
		}
		h.Verdict(got == tc.want, rule, name, h.pos(ret), got, "got "+got+", the specification requires "+tc.want)
	}
	// callers map the sentinel to the statuses
	for _, s := range h.P.AllCalls(ir.InPkg("server/kv"), ir.Callee{Pkg: "server/kv", Recv: "", Name: fn.Name()}) {
		caller := s.Fn
		// an extracted helper that merely hands the error on: the mapping is its caller's job
		for i := 0; i < 3 && !returnsResponse(caller); i++ {
			site := ir.SingleCallSite(caller)
			if site == nil {
				break
			}
			caller = site.Parent()
		}
		h.Fn(ir.FuncName(caller))
		mapped := false
		keyNotFound := false
		ir.Instrs(caller, func(in ssa.Instruction) {
			ret, ok := in.(*ssa.Return)
			if !ok {
				return
			}
			vals := ir.ReturnValues(ret)
			if len(vals) != 2 || !isNilConst(vals[1]) {
				return
			}
			st := compositeFieldValue(vals[0], "Status")
			if st == nil {
				return
			}
			if h.isConst(st, "proto", "Status_UNEXPECTED_VERSION_ID") {
				for _, g := range ir.Guards(in) {
					if g.Taken && isErrorsIs(g.Cond, "ErrBadVersionId") {
						mapped = true
					}
				}
				// switch { case errors.Is(...) } compiles to the same guards
			}
			if h.isConst(st, "proto", "Status_KEY_NOT_FOUND") {
				keyNotFound = true
			}
		})
		h.Verdict(mapped, rule, "bad version mapped to a status in "+ir.FuncName(caller), h.pos(s.Call), "errors.Is(err, ErrBadVersionId) -> UNEXPECTED_VERSION_ID", "the bad-version sentinel is not converted into the UNEXPECTED_VERSION_ID status by this caller")
		if strings.Contains(strings.ToLower(caller.Name()), "delete") || returnsType(caller, "DeleteResponse") {
			h.Verdict(keyNotFound, rule, "absent key on delete mapped to KEY_NOT_FOUND in "+ir.FuncName(caller), h.pos(s.Call), "KEY_NOT_FOUND status returned", "deleting an absent key does not report KEY_NOT_FOUND")
		}
	}
}

// returnsResponse: the function's first result is one of the proto response messages.
func returnsResponse(f *ssa.Function) bool {
	return returnsType(f, "PutResponse") || returnsType(f, "DeleteResponse") || returnsType(f, "DeleteRangeResponse")
}

func returnsType(f *ssa.Function, name string) bool {
	r := f.Signature.Results()
	return r.Len() > 0 && ir.TypeIs(r.At(0).Type(), "proto", name)
}

func isErrorsIs(v ssa.Value, sentinel string) bool {
	check := func(x ssa.Value) bool {
		call, ok := x.(*ssa.Call)
		if !ok {
			return false
		}
		f := call.Call.StaticCallee()
		if f == nil || f.Name() != "Is" || len(call.Call.Args) != 2 {
			return false
		}
		return isGlobalLoad(call.Call.Args[1], sentinel)
	}
	if check(v) {
		return true
	}
	if phi, ok := v.(*ssa.Phi); ok {
		for _, e := range phi.Edges {
			if check(e) {
				return true
			}
		}
	}
	return false
}

func isGlobalLoad(v ssa.Value, name string) bool {
	u, ok := ir.Canon(v).(*ssa.UnOp)
	if !ok || u.Op != token.MUL {
		return false
	}
	g, ok := u.X.(*ssa.Global)
	return ok && g.Name() == name
}

func isNilConst(v ssa.Value) bool {
	c, ok := v.(*ssa.Const)
	return ok && c.IsNil()
}

// ---------------------------------------------------------------------------------

func ruleR12e(h *H) {
	const rule = "R12e"
	h.Rule(rule, "K3", "the version counter is only set at DB open (from the persisted value) and advanced by Add(1); a stored entry's VersionId is that Add result (or the internal marker); ModificationsCount is 0 for a new entry and previous+1 for an update", 4)
	for _, root := range applyRoots(h, rule) {
		dbt := namedName(root.Signature.Recv().Type())
		cl := h.P.Closure([]*ssa.Function{root}, applyDescend)
		for name, ws := range writerNames(h.P.FieldWrites("server/kv", dbt, "versionIdTracker")) {
			for _, w := range ws {
				_, inApply := cl[w.Fn]
				switch {
				case w.Kind == "atomic.Add" && isOne(w.Val):
					h.OK(rule, "version counter Add(1) in "+name, h.pos(w.Instr), "advance by one")
				case w.Kind == "atomic.Store" && !inApply:
					ok := w.Val != nil && ir.DependsOn(w.Val, func(v ssa.Value) bool {
						c, isC := v.(*ssa.Call)
						return isC && c.Call.StaticCallee() != nil && strings.Contains(strings.ToLower(c.Call.StaticCallee().Name()), "versionid")
					})
					h.Verdict(ok, rule, "version counter Store in "+name, h.pos(w.Instr), "initialised from the persisted last version id", "the version counter is overwritten from "+ir.Describe(w.Val))
				default:
					h.Bad(rule, "version counter "+w.Kind+" in "+name, h.pos(w.Instr), "the version counter is changed by "+w.Kind+" ("+ir.Describe(w.Val)+") — only Add(1) while applying and Store at open are expected")
				}
			}
		}
		// stores into the entry being written
		var fns []*ssa.Function
		for f := range cl {
			if f.Blocks != nil && ir.RelPkg(ir.PkgPathOf(f)) == "server/kv" {
				fns = append(fns, f)
			}
		}
		sort.Slice(fns, func(i, j int) bool { return fns[i].String() < fns[j].String() })
		nv, nm := 0, 0
		for _, f := range fns {
			for _, w := range h.fieldStores(f, false, "proto", "StorageEntry", "VersionId") {
				nv++
				ok := w.Val != nil && ir.DependsOn(w.Val, func(v ssa.Value) bool {
					_, isAdd := isAtomicCallOnField(v, "Add", "server/kv", dbt, "versionIdTracker")
					return isAdd
				})
				h.Verdict(ok, rule, fmt.Sprintf("entry VersionId store #%d in %s", nv, ir.FuncName(f)), h.pos(w.Instr), "from versionIdTracker.Add(1) (internal puts: the marker)", "a stored entry gets a version id that does not come from the shard's counter: "+ir.Describe(w.Val))
			}
			for _, w := range h.fieldStores(f, false, "proto", "StorageEntry", "ModificationsCount") {
				nm++
				v := ir.Canon(w.Val)
				ok := false
				detail := ir.Describe(w.Val)
				if c, isC := v.(*ssa.Const); isC && c.Value != nil && c.Int64() == 0 {
					ok, detail = true, "0 on creation"
				}
				if bo, isBo := v.(*ssa.BinOp); isBo && bo.Op == token.ADD && isOne(bo.Y) && ir.LoadsField(bo.X, "proto", "StorageEntry", "ModificationsCount") {
					ok, detail = true, "previous + 1 on update"
				}
				h.Verdict(ok, rule, fmt.Sprintf("entry ModificationsCount store #%d in %s", nm, ir.FuncName(f)), h.pos(w.Instr), detail, "the modification count is set to "+detail+" (expected 0 on creation, previous+1 on update)")
			}
		}
	}
}

func ruleR12f(h *H) {
	ruleR12fInto(h, "R12f")
}

func ruleR12fInto(h *H, rule string) {
	h.Rule(rule, "K1/K6", "delete-range: scan bounds == tombstone bounds (the request's fields); the per-key callback runs for every key the scan yields (the loop is only left when the scan ends or on error); key collection and range tombstone are chosen by complementary comparisons of one counter with one threshold", 4)
	fn, call := applyCallFor(h, "DeleteRanges")
	if call == nil {
		h.Anchor(rule, "the function applying a delete-range request")
		return
	}
	_ = fn
	f := call.Call.StaticCallee()
	h.Fn(ir.FuncName(f))
	restore := bindRegion(f)
	defer restore()
	scans := h.P.CallsIn(f, batchRangeScan)
	var tombs []ssa.CallInstruction
	for _, hf := range helperFuncs(f) {
		tombs = append(tombs, h.P.CallsIn(hf, batchDelRange)...)
	}
	if len(scans) != 1 || len(tombs) != 1 {
		h.Anchor(rule, fmt.Sprintf("one WriteBatch.RangeScan and one WriteBatch.DeleteRange in %s (found %d/%d)", ir.FuncName(f), len(scans), len(tombs)))
		return
	}
	scan, tomb := scans[0], tombs[0]
	same := ir.SameExpr(argOf(scan.Common(), 0), argOf(tomb.Common(), 0)) && ir.SameExpr(argOf(scan.Common(), 1), argOf(tomb.Common(), 1))
	reqBounds := isMsgField(argOf(scan.Common(), 0), "DeleteRangeRequest", "StartInclusive") && isMsgField(argOf(scan.Common(), 1), "DeleteRangeRequest", "EndExclusive")
	h.Verdict(same && reqBounds, rule, "delete-range bounds in "+ir.FuncName(f), h.pos(tomb), "scan and tombstone both use request.StartInclusive / request.EndExclusive", "the scanned range and the deleted range differ (or are not the request's bounds)")
	// the callback loop
	cbs := h.P.CallsIn(f, cbOnDelEntry)
	if len(cbs) == 0 {
		// the per-entry step may be a local closure of f that is called in place
		var cands []*ssa.Function
		for _, g := range h.P.Funcs {
			if g.Parent() == f {
				cands = append(cands, g)
			}
		}
		cands = append(cands, helperFuncs(f)[1:]...)
		for _, g := range cands {
			for _, c := range h.P.CallsIn(g, cbOnDelEntry) {
				if up := liftThroughLocalClosure(c, func(fn *ssa.Function) bool { return fn == f }); up != c && up.Parent() == f {
					cbs = append(cbs, up)
					h.Fn(ir.FuncName(g))
				}
			}
		}
	}
	if len(cbs) != 1 {
		h.Anchor(rule, "the OnDeleteWithEntry callback call in "+ir.FuncName(f))
		return
	}
	cb := cbs[0]
	// iterator Valid() call controlling the loop
	var valid ssa.CallInstruction
	ir.Instrs(f, func(in ssa.Instruction) {
		if c := ir.CallOf(in); c != nil && c.IsInvoke() && c.Method.Name() == "Valid" && valid == nil {
			if ci, ok := in.(ssa.CallInstruction); ok {
				valid = ci
			}
		}
	})
	if valid == nil {
		h.Anchor(rule, "the iterator's Valid() call")
		return
	}
	header := valid.Block()
	// (a) no way around the loop without the callback
	if r, path := ir.Reach(ir.Search{FromBlock: header.Succs[0], Barrier: ir.Is(cb)}, ir.Is(valid)); r {
		h.Bad(rule, "callback for every key in "+ir.FuncName(f), h.pos(cb), "an iteration can complete without invoking the update callback for its key (session shadows / index entries of that key survive the range delete)", witness(path))
	} else {
		h.OK(rule, "callback for every key in "+ir.FuncName(f), h.pos(cb), "every iteration reaches OnDeleteWithEntry")
	}
	// (b) the loop is left only by the scan ending or by returning: every edge from a loop block to a
	// block outside the loop that is not a return must start at the header
	inLoop := map[*ssa.BasicBlock]bool{}
	for _, b := range f.Blocks {
		if b == header {
			inLoop[b] = true
			continue
		}
		// b is in the loop if header dominates b and b can reach header
		if header.Dominates(b) {
			if len(b.Instrs) > 0 {
				if r, _ := ir.Reach(ir.Search{FromBlock: b}, ir.Is(valid)); r {
					inLoop[b] = true
				}
			}
		}
	}
	early := ""
	for b := range inLoop {
		if b == header {
			continue
		}
		for _, s := range b.Succs {
			if inLoop[s] {
				continue
			}
			// leaving the loop from the body: fine only if that path returns without reaching the tombstone / deletes
			deletes := map[ssa.Instruction]bool{}
			for _, d := range h.callsOrHelpers(f, batchDelRange, batchDelete) {
				deletes[d] = true
			}
			if r, _ := ir.Reach(ir.Search{FromBlock: s}, func(in ssa.Instruction) bool { return deletes[in] }); r {
				early = fmt.Sprintf("the loop can be left from its body (block b%d) and still go on to delete the range: keys after that point are deleted without their callback", b.Index)
			}
		}
	}
	h.Verdict(early == "", rule, "scan loop runs to the end in "+ir.FuncName(f), h.pos(valid), "the loop is only left when the scan ends or by an error return", early)
	// (c) complementary strategy conditions
	var collect ssa.Instruction
	ir.Instrs(f, func(in ssa.Instruction) {
		if c, ok := in.(*ssa.Call); ok {
			if b, isB := c.Call.Value.(*ssa.Builtin); isB && b.Name() == "append" && inLoop[in.Block()] {
				if sl, isSl := c.Type().Underlying().(interface {
					Elem() interface{ String() string }
				}); isSl {
					_ = sl
				}
				if strings.HasPrefix(c.Type().String(), "[]string") {
					collect = in
				}
			}
		}
	})
	if collect == nil {
		h.Unknown(rule, "strategy selection in "+ir.FuncName(f), h.pos(tomb), "cannot find the key collection inside the scan loop")
		return
	}
	var g1, g2 *ir.Cmp
	for _, g := range ir.CmpGuards(collect) {
		if isThresholdCmp(g) {
			gg := g
			g1 = &gg
		}
	}
	for _, g := range ir.CmpGuards(tomb) {
		if isThresholdCmp(g) {
			gg := g
			g2 = &gg
		}
	}
	if g1 == nil || g2 == nil {
		h.Unknown(rule, "strategy selection in "+ir.FuncName(f), h.pos(tomb), "cannot find the threshold comparisons guarding the key collection and the range tombstone")
		return
	}
	// per-key deletes happen on the complement of g2; keys are collected under g1: need g1 == not g2 on the same operands
	comp := ir.SameExpr(stripPhi(g1.L), stripPhi(g2.L)) && ir.SameExpr(g1.R, g2.R) && negateTok(g1.Op) == g2.Op
	h.Verdict(comp, rule, "strategy selection in "+ir.FuncName(f), h.pos(tomb), fmt.Sprintf("keys collected while count %s T, range tombstone when count %s T", g1.Op, g2.Op),
		fmt.Sprintf("keys are collected while count %s T but the range tombstone is used when count %s T: for some count neither (or both) strategies cover a key", g1.Op, g2.Op))
}

func isThresholdCmp(c ir.Cmp) bool {
	k, ok := ir.Canon(c.R).(*ssa.Const)
	if !ok || k.Value == nil || k.Int64() < 2 {
		return false
	}
	return c.Op == token.LEQ || c.Op == token.LSS || c.Op == token.GTR || c.Op == token.GEQ
}

func stripPhi(v ssa.Value) ssa.Value {
	// the counter inside the loop is phi+1; after the loop it is the phi
	if bo, ok := v.(*ssa.BinOp); ok && bo.Op == token.ADD && isOne(bo.Y) {
		return bo.X
	}
	return v
}

func negateTok(op token.Token) token.Token {
	switch op {
	case token.LEQ:
		return token.GTR
	case token.LSS:
		return token.GEQ
	case token.GTR:
		return token.LEQ
	case token.GEQ:
		return token.LSS
	}
	return token.ILLEGAL
}

// appendedElem returns the single element appended by `append(x, elem)`.
func appendedElem(app *ssa.Call) ssa.Value {
	if len(app.Call.Args) != 2 {
		return nil
	}
	sl, ok := app.Call.Args[1].(*ssa.Slice)
	if !ok {
		return nil
	}
	al, ok := sl.X.(*ssa.Alloc)
	if !ok || al.Referrers() == nil {
		return nil
	}
	var elem ssa.Value
	for _, r := range *al.Referrers() {
		if ia, isIA := r.(*ssa.IndexAddr); isIA && ia.Referrers() != nil {
			for _, rr := range *ia.Referrers() {
				if st, isSt := rr.(*ssa.Store); isSt {
					elem = ir.Canon(st.Val)
				}
			}
		}
	}
	return elem
}

// ruleR12h: sibling table between the WriteBatch interface and the storage engine's batch.
func ruleR12h(h *H) {
	const rule = "R12h"
	h.Rule(rule, "K7", "WriteBatch.Put -> Batch.Set, WriteBatch.Delete -> Batch.Delete, WriteBatch.DeleteRange -> Batch.DeleteRange; no SingleDelete anywhere in the repository", 3)
	table := map[string]string{"Put": "Set", "Delete": "Delete", "DeleteRange": "DeleteRange"}
	engineOps := func(fn *ssa.Function) []string {
		var out []string
		ir.Instrs(fn, func(in ssa.Instruction) {
			if c := ir.CallOf(in); c != nil {
				if f := c.StaticCallee(); f != nil && f.Signature.Recv() != nil && f.Pkg != nil && strings.HasPrefix(f.Pkg.Pkg.Path(), "github.com/cockroachdb/pebble") && namedName(f.Signature.Recv().Type()) == "Batch" {
					out = append(out, f.Name())
				}
			}
		})
		return out
	}
	for _, m := range []string{"Put", "Delete", "DeleteRange"} {
		for _, fn := range h.P.ImplMethods("server/kv", "WriteBatch", m) {
			h.Fn(ir.FuncName(fn))
			ops := engineOps(fn)
			ok := len(ops) == 1 && ops[0] == table[m]
			h.Verdict(ok, rule, "engine operation of WriteBatch."+m, h.P.Pos(fn.Pos()), "Batch."+table[m],
				fmt.Sprintf("WriteBatch.%s is implemented with engine operation(s) %v instead of Batch.%s: for Delete, a SingleDelete tombstone only hides the newest version of a key, an overwritten record re-appears after the next flush / compaction", m, ops, table[m]))
		}
	}
	for _, fn := range h.P.Funcs {
		ir.Instrs(fn, func(in ssa.Instruction) {
			if c := ir.CallOf(in); c != nil {
				if f := c.StaticCallee(); f != nil && f.Name() == "SingleDelete" && f.Pkg != nil && strings.HasPrefix(f.Pkg.Pkg.Path(), "github.com/cockroachdb/pebble") {
					h.Bad(rule, "SingleDelete in "+ir.FuncName(fn), h.pos(in), "the engine's SingleDelete is used, but records are overwritten in place (several versions of one key exist in the LSM): the tombstone removes only one of them")
				}
			}
		})
	}
}
