package props

import (
	"fmt"
	"go/token"
	"go/types"
	"sort"
	"strings"

	"golang.org/x/tools/go/ssa"

	"oxiaverif/internal/chk"
	"oxiaverif/internal/ir"
)

func init() { register("C15", checkC15) }

func checkC15(c *chk.Ctx) {
	h := newH(c)
	c.Decided = []string{
		"R15h the update callback (index entries) sees the same record key as the batch write, on every path of the put",
		"R15g an index comparison-get answers with the secondary key of the entry it chose (the client merges the per-shard answers of floor/ceiling/lower/higher by that key)",
		"R15a index maintenance: an overwrite removes every index entry of the existing record before the new ones are written; a put writes every declared index entry; delete / delete-with-entry / range delete remove the entries of the record they delete; the apply functions call the callback before the record mutation (shared with C14)",
		"R15b the key format written, the range-prefix format used by queries and the parsing regular expression are derived from each other (checked on the compile-time constant values)",
		"R15c a comparison get only returns a record whose index key carries the requested index's prefix; list / range-scan bound their scan inside that prefix",
		"R15f a range delete runs the per-record callback (which removes the record's index entries) for every key it removes, whichever deletion strategy it picks (shared with C12/C14)",
		"R15e index entries are only staged for operations the session callback accepted (wrapper order: session first, index only on OK)",
		"R15d the comparison-type switch of the index get handles every declared comparison type",
	}
	c.NotDec = []string{
		"agreement with a sorted reference for every write sequence",
		"index names or secondary keys containing '/' or the separator byte",
	}
	ruleR15a(h)
	ruleCallbackBeforeMutation(h, "R15a")
	ruleR15b(h)
	ruleR15c(h)
	ruleR15d(h)
	ruleR15g(h)
	ruleRecordKeyAgreement(h, "R15h")
	h.Rule("R15e", "K6", "the wrapper callback runs the index callback only after the session callback accepted the operation (no error, status OK) — shared with R14b", 4)
	ruleWrapperChain(h, "R15e")
	ruleR12fInto(h, "R15f")
}

// indexKeyFn: the function building index keys: its result is the key of both a
// WriteBatch.Put and a WriteBatch.Delete in package server (and it is not ShadowKey).
func indexKeyFn(h *H) *ssa.Function {
	puts, dels := map[*ssa.Function]bool{}, map[*ssa.Function]bool{}
	for _, s := range h.P.AllCalls(ir.InPkg("server"), batchPut) {
		if c, ok := ir.Canon(argOf(s.Call.Common(), 0)).(*ssa.Call); ok {
			if f := c.Call.StaticCallee(); f != nil && ir.InRepo(f) {
				puts[f] = true
			}
		}
	}
	for _, s := range h.P.AllCalls(ir.InPkg("server"), batchDelete) {
		if c, ok := ir.Canon(argOf(s.Call.Common(), 0)).(*ssa.Call); ok {
			if f := c.Call.StaticCallee(); f != nil && ir.InRepo(f) {
				dels[f] = true
			}
		}
	}
	for f := range puts {
		if dels[f] && f.Name() != "ShadowKey" && takesSecondaryIndex(f) {
			return f
		}
	}
	return nil
}

func takesSecondaryIndex(f *ssa.Function) bool {
	for i := 0; i < f.Signature.Params().Len(); i++ {
		if ir.TypeIs(f.Signature.Params().At(i).Type(), "proto", "SecondaryIndex") {
			return true
		}
	}
	return false
}

// loopCallsForEveryElement: fn ranges over a []*proto.SecondaryIndex and on every
// iteration calls `mut` with the key built from the element.
func loopCallsForEveryElement(h *H, fn, keyFn *ssa.Function, mut ir.Callee) (bool, string) {
	calls := h.P.CallsIn(fn, mut)
	var ok bool
	why := "no " + mut.Name + " of an index key found"
	for _, c := range calls {
		kc, isCall := ir.Canon(argOf(c.Common(), 0)).(*ssa.Call)
		if !isCall || kc.Call.StaticCallee() != keyFn {
			continue
		}
		// the element: argument of keyFn that is loaded from an IndexAddr over a slice of SecondaryIndex
		var ia *ssa.IndexAddr
		for _, a := range kc.Call.Args {
			if x := indexedFrom(a); x != nil {
				ia = x
			}
		}
		if ia == nil {
			why = "the index key is not built from the element of a loop over the record's indexes"
			continue
		}
		// loop: from the element load back to itself without the mutation => an element is skipped
		elemLoad := ir.Instrs0(ia)
		if elemLoad == nil {
			continue
		}
		if r, path := ir.Reach(ir.Search{From: elemLoad, Barrier: ir.Is(c)}, ir.Is(elemLoad)); r {
			why = "an index entry of the record can be skipped " + witness(path)
			continue
		}
		ok = true
	}
	return ok, why
}

func ruleR15a(h *H) {
	const rule = "R15a"
	h.Rule(rule, "K1", "index callback: OnPut with an existing entry passes it to the function that deletes all of its index entries, then writes all declared entries; the three delete callbacks reach the same deletion; both helpers cover every element of the index list", 7)
	keyFn := indexKeyFn(h)
	if keyFn == nil {
		h.Anchor(rule, "the function building secondary-index keys (used as key of both a batch Put and a batch Delete)")
		return
	}
	h.Fn(ir.FuncName(keyFn))
	var delFns, putFns []*ssa.Function
	for _, fn := range h.P.Funcs {
		if ir.RelPkg(ir.PkgPathOf(fn)) != "server" {
			continue
		}
		for _, c := range h.P.CallsIn(fn, batchDelete) {
			if kc, ok := ir.Canon(argOf(c.Common(), 0)).(*ssa.Call); ok && kc.Call.StaticCallee() == keyFn {
				delFns = append(delFns, fn)
				break
			}
		}
		for _, c := range h.P.CallsIn(fn, batchPut) {
			if kc, ok := ir.Canon(argOf(c.Common(), 0)).(*ssa.Call); ok && kc.Call.StaticCallee() == keyFn {
				putFns = append(putFns, fn)
				break
			}
		}
	}
	isIn := func(fs []*ssa.Function, f *ssa.Function) bool {
		for _, x := range fs {
			if x == f {
				return true
			}
		}
		return false
	}
	for _, f := range delFns {
		h.Fn(ir.FuncName(f))
		ok, why := loopCallsForEveryElement(h, f, keyFn, batchDelete)
		h.Verdict(ok, rule, "index deletion covers every entry in "+ir.FuncName(f), h.P.Pos(f.Pos()), "every element of the index list is deleted", why)
	}
	for _, f := range putFns {
		h.Fn(ir.FuncName(f))
		ok, why := loopCallsForEveryElement(h, f, keyFn, batchPut)
		h.Verdict(ok, rule, "index write covers every entry in "+ir.FuncName(f), h.P.Pos(f.Pos()), "every element of the index list is written", why)
	}
	_, _, idxT, _, _ := callbackSingletons(h)
	if idxT == "" {
		h.Anchor(rule, "the secondary index callback singleton")
		return
	}
	// whole-list helpers: delete helper takes the existing *StorageEntry; write helper takes the []*SecondaryIndex
	callTo := func(fn *ssa.Function, targets []*ssa.Function, argOK func(ssa.Value) bool) ssa.CallInstruction {
		var out ssa.CallInstruction
		ir.Instrs(fn, func(in ssa.Instruction) {
			ci, ok := in.(ssa.CallInstruction)
			if !ok || out != nil {
				return
			}
			f := ci.Common().StaticCallee()
			if f == nil {
				return
			}
			if !isIn(targets, f) {
				// an extracted helper (only called here) that makes the call on every successful path
				if ir.SingleCallSite(f) == ci && f.Blocks != nil {
					var inner ssa.CallInstruction
					ir.Instrs(f, func(x ssa.Instruction) {
						if c2, ok := x.(ssa.CallInstruction); ok && inner == nil {
							if g := c2.Common().StaticCallee(); g != nil && isIn(targets, g) {
								for _, a := range c2.Common().Args {
									if argOK(a) {
										inner = c2
									}
								}
							}
						}
					})
					if inner != nil {
						skips := false
						ir.Instrs(f, func(x ssa.Instruction) {
							if ret, isRet := x.(*ssa.Return); isRet && len(ret.Results) > 0 && mayReturnNilError(ret) && ir.Canon(ir.ReturnValues(ret)[len(ret.Results)-1]) != inner.(ssa.Value) {
								if r, _ := ir.Reach(ir.Search{Fn: f, Barrier: ir.Is(inner)}, ir.Is(x)); r {
									skips = true
								}
							}
						})
						if !skips {
							out = ci
						}
					}
				}
				return
			}
			for _, a := range ci.Common().Args {
				if argOK(a) {
					out = ci
				}
			}
		})
		return out
	}
	if fn := h.P.Func("server", idxT, "OnPut"); fn != nil {
		h.Fn(ir.FuncName(fn))
		var existing *ssa.Parameter
		for _, p := range fn.Params {
			if ir.TypeIs(p.Type(), "proto", "StorageEntry") {
				existing = p
			}
		}
		del := callTo(fn, delFns, func(a ssa.Value) bool { return existing != nil && ir.Canon(a) == ssa.Value(existing) })
		wr := callTo(fn, putFns, func(a ssa.Value) bool { return isMsgField(a, "PutRequest", "SecondaryIndexes") })
		// (i) with an existing entry, every successful exit passes the whole-entry deletion
		okDel := del != nil
		whyDel := "OnPut does not hand the existing entry to the function that removes all of its index entries (an index-diff that is not recognised is reported here too: stale entries of the old record may survive)"
		if okDel {
			nilEdges := ir.EdgesWhere(fn, func(c ir.Cmp) bool {
				return c.Op == token.EQL && ir.Canon(c.L) == ssa.Value(existing) && isNilConst(c.R)
			})
			ir.Instrs(fn, func(in ssa.Instruction) {
				ret, isRet := in.(*ssa.Return)
				if !isRet || !okDel || !returnErrMayBeNil(ret) {
					return
				}
				if r, path := ir.Reach(ir.Search{Fn: fn, Blocked: nilEdges, Barrier: ir.Is(del)}, ir.Is(in)); r {
					okDel = false
					whyDel = "an overwrite can complete without removing the existing record's index entries " + witness(path)
				}
			})
		}
		h.Verdict(okDel, rule, "overwrite removes the old index entries ("+ir.FuncName(fn)+")", h.P.Pos(fn.Pos()), "existing entry -> delete all of its index entries on every path", whyDel)
		okWr := wr != nil
		whyWr := "OnPut does not write the request's declared index entries"
		if okWr {
			ir.Instrs(fn, func(in ssa.Instruction) {
				ret, isRet := in.(*ssa.Return)
				if !isRet || !okWr || !returnErrMayBeNil(ret) {
					return
				}
				if r, path := ir.Reach(ir.Search{Fn: fn, Barrier: ir.Is(wr)}, ir.Is(in)); r {
					okWr = false
					whyWr = "a put can complete without writing its index entries " + witness(path)
				}
			})
			if del != nil {
				if !ir.Dominates(del, wr) {
					if r, _ := ir.Reach(ir.Search{From: wr}, ir.Is(del)); r {
						okWr, whyWr = false, "the new index entries are written before the old ones are deleted (an unchanged entry would be removed)"
					}
				}
			}
		}
		h.Verdict(okWr, rule, "put writes the declared index entries ("+ir.FuncName(fn)+")", h.P.Pos(fn.Pos()), "request.SecondaryIndexes -> write all, after the deletion", whyWr)
	} else {
		h.Anchor(rule, idxT+".OnPut")
	}
	for _, m := range []string{"OnDelete", "OnDeleteWithEntry", "OnDeleteRange"} {
		fn := h.P.Func("server", idxT, m)
		if fn == nil {
			h.Anchor(rule, idxT+"."+m)
			continue
		}
		h.Fn(ir.FuncName(fn))
		del := callTo(fn, delFns, func(a ssa.Value) bool { return ir.TypeIs(a.Type(), "proto", "StorageEntry") })
		h.Verdict(del != nil, rule, "index callback "+m+" removes the record's index entries", h.P.Pos(fn.Pos()), "calls the whole-entry deletion", "the index callback's "+m+" does not remove the index entries of the deleted record")
	}
}

func ruleR15b(h *H) {
	const rule = "R15b"
	h.Rule(rule, "K7", "write format == range-prefix format + separator + \"%s\"; the parsing regexp is ^<prefix>/[^/]+/([^<sep>]+)<sep>(.+)$ for the same prefix and separator (compile-time constants)", 2)
	keyFn := indexKeyFn(h)
	if keyFn == nil {
		h.Anchor(rule, "index key function")
		return
	}
	sprintfFormat := func(fn *ssa.Function) []string {
		var out []string
		ir.Instrs(fn, func(in ssa.Instruction) {
			c := ir.CallOf(in)
			if c == nil {
				return
			}
			f := c.StaticCallee()
			if f == nil || f.Name() != "Sprintf" || f.Pkg == nil || f.Pkg.Pkg.Path() != "fmt" {
				return
			}
			if k, ok := c.Args[0].(*ssa.Const); ok && k.Value != nil {
				out = append(out, constString(k))
			}
		})
		return out
	}
	W := indexWriteFormat(keyFn)
	if W == "" {
		h.Anchor(rule, "the format of the keys built by the index key function")
		return
	}
	// range prefix formats used by the query side: Sprintf formats in package server that are a proper prefix of W
	rset := map[string]bool{}
	for _, fn := range h.P.Funcs {
		if ir.RelPkg(ir.PkgPathOf(fn)) != "server" || fn == keyFn {
			continue
		}
		for _, f := range sprintfFormat(fn) {
			if strings.Contains(f, "idx") && f != W {
				rset[f] = true
			}
		}
		// ... or a helper that builds the prefix by concatenation
		if fn.Signature.Results().Len() == 1 && fn.Signature.Results().At(0).Type().String() == "string" && len(fn.Blocks) > 0 {
			if f := indexWriteFormat(fn); f != "" && f != W && strings.Contains(f, "idx") && strings.Contains(f, "%s") {
				rset[f] = true
			}
		}
	}
	var rs []string
	for r := range rset {
		rs = append(rs, r)
	}
	sort.Strings(rs)
	if len(rs) == 0 {
		h.Anchor(rule, "the range-prefix format used by index queries")
		return
	}
	sep := ""
	for _, R := range rs {
		ok := strings.HasPrefix(W, R) && strings.HasSuffix(W, "%s") && len(W)-len(R)-2 == 1
		if ok {
			sep = W[len(R) : len(R)+1]
		}
		h.Verdict(ok, rule, fmt.Sprintf("query format %q vs write format", R), h.P.Pos(keyFn.Pos()), fmt.Sprintf("write format %q = query format + 1-byte separator + %%s", W), fmt.Sprintf("the query-side format %q is not the write format %q minus separator and primary key: queries and stored entries disagree on the key layout", R, W))
	}
	// the regexp
	var rx []string
	for _, fn := range h.P.Funcs {
		if ir.RelPkg(ir.PkgPathOf(fn)) != "server" {
			continue
		}
		ir.Instrs(fn, func(in ssa.Instruction) {
			c := ir.CallOf(in)
			if c == nil {
				return
			}
			f := c.StaticCallee()
			if f != nil && f.Pkg != nil && f.Pkg.Pkg.Path() == "regexp" && (f.Name() == "MustCompile" || f.Name() == "Compile") {
				if k, ok := c.Args[0].(*ssa.Const); ok && k.Value != nil && strings.Contains(constString(k), "idx") {
					rx = append(rx, constString(k))
				}
			}
		})
	}
	if len(rx) == 0 || sep == "" {
		h.Anchor(rule, "the regular expression parsing index keys")
		return
	}
	prefix := strings.TrimSuffix(rs[0], "/%s/%s")
	want := "^" + prefix + "/[^/]+/([^" + sep + "]+)" + sep + "(.+)$"
	for _, x := range rx {
		h.Verdict(x == want, rule, "index key regexp", h.P.Pos(keyFn.Pos()), "matches the layout of the write format", fmt.Sprintf("the parsing regexp %q does not correspond to the write format (expected %q): stored index entries are not parsed back into (secondary key, primary key)", x, want))
	}
}

// indexWriteFormat: the layout of the strings a key-building function returns, as a
// format ("%s" for every non-literal part), whether it is written with Sprintf, with
// concatenation or through a helper; "" when the function has several returns or the
// value cannot be evaluated symbolically.
func indexWriteFormat(fn *ssa.Function) string {
	var rets []*ssa.Return
	ir.Instrs(fn, func(in ssa.Instruction) {
		if r, ok := in.(*ssa.Return); ok {
			rets = append(rets, r)
		}
	})
	if len(rets) != 1 || len(ir.ReturnValues(rets[0])) != 1 {
		return ""
	}
	f, ok := ir.SymFormat(ir.ReturnValues(rets[0])[0])
	if !ok || !strings.Contains(f, "%s") {
		return ""
	}
	return f
}

// tailCallee: `return g(...)` — every result of the return is the corresponding result of
// one call; the callee (nil otherwise).
func tailCallee(ret *ssa.Return) *ssa.Function {
	vals := ir.ReturnValues(ret)
	if len(vals) == 0 {
		return nil
	}
	var call *ssa.Call
	for i, v := range vals {
		switch x := ir.Canon(v).(type) {
		case *ssa.Extract:
			c, ok := x.Tuple.(*ssa.Call)
			if !ok || x.Index != i || (call != nil && c != call) {
				return nil
			}
			call = c
		case *ssa.Call:
			if len(vals) != 1 {
				return nil
			}
			call = x
		default:
			return nil
		}
	}
	if call == nil || call.Block() != ret.Block() {
		return nil // the results are inspected before they are returned: not a plain hand-through
	}
	return call.Call.StaticCallee()
}

func constString(k *ssa.Const) string {
	s := k.Value.ExactString()
	if u, err := unquote(s); err == nil {
		return u
	}
	return s
}

func unquote(s string) (string, error) {
	var out string
	_, err := fmt.Sscanf(s, "%q", &out)
	return out, err
}

// takesGetRequest: fn, or (for a walk whose request fields are handed in one by one) its
// only static caller, takes the *proto.GetRequest of an index comparison-get.
func takesGetRequest(fn *ssa.Function) (bool, func()) {
	has := func(f *ssa.Function) bool {
		for _, p := range f.Params {
			if ir.TypeIs(p.Type(), "proto", "GetRequest") {
				return true
			}
		}
		return false
	}
	if has(fn) {
		return true, func() {}
	}
	if site := ir.SingleCallSite(fn); site != nil && has(site.Parent()) {
		b := ir.Binding{}
		for i, p := range fn.Params {
			if i < len(site.Common().Args) {
				b[p] = site.Common().Args[i]
			}
		}
		return true, ir.Bind(b)
	}
	return false, func() {}
}

func ruleR15c(h *H) {
	const rule = "R15c"
	h.Rule(rule, "K5", "index comparison get: every return that hands out a primary key is guarded by strings.HasPrefix(iterator key, prefix of the requested index); index list / range-scan pass bounds built from the requested index name", 3)
	dbKeyIter := ir.Callee{Pkg: "server/kv", Recv: "DB", Name: "KeyIterator"}
	n := 0
	for _, s := range h.P.AllCalls(ir.InPkg("server"), dbKeyIter) {
		fn := s.Fn
		// only the index walk: takes a *proto.GetRequest
		isGet, unbind := takesGetRequest(fn)
		if !isGet {
			continue
		}
		defer unbind()
		n++
		h.Fn(ir.FuncName(fn))
		i := 0
		root := fn
		region := helperFuncs(root)
		restore := bindRegion(root)
		inRegion := map[*ssa.Function]bool{}
		for _, g := range region {
			inRegion[g] = true
		}
		// the parts of the walk whose results the root hands through unchanged
		delegated := map[*ssa.Function]bool{root: true}
		for pass := 0; pass < 3; pass++ {
			for _, g := range region {
				if !delegated[g] {
					continue
				}
				ir.Instrs(g, func(in ssa.Instruction) {
					if ret, ok := in.(*ssa.Return); ok {
						if g2 := tailCallee(ret); g2 != nil && inRegion[g2] {
							delegated[g2] = true
						}
					}
				})
			}
		}
		for _, fn := range region {
			fn := fn
			if !delegated[fn] {
				continue
			}
			if fn != root {
				h.Fn(ir.FuncName(fn))
			}
			ir.Instrs(fn, func(in ssa.Instruction) {
				ret, ok := in.(*ssa.Return)
				if !ok || in.Block() == fn.Recover {
					return
				}
				v := ir.ReturnValues(ret)[0]
				if k, isK := v.(*ssa.Const); isK && k.Value != nil && constString(k) == "" {
					return
				}
				// a result handed through from an extracted part of the walk is judged there
				if g := tailCallee(ret); g != nil && inRegion[g] && g != fn {
					return
				}
				// error returns hand out nothing
				vals := ir.ReturnValues(ret)
				if !valueMayBeNilAt(vals[len(vals)-1], in) {
					return
				}
				i++
				good := false
				bad := "a primary key can be returned for an iterator position that was not checked to lie inside the requested index: the walk over the whole key space leaks records of neighbouring indexes"
				for _, g := range ir.Guards(in) {
					cond, taken := g.Cond, g.Taken
					for {
						if u, isU := cond.(*ssa.UnOp); isU && u.Op == token.NOT {
							cond, taken = u.X, !taken
							continue
						}
						break
					}
					call, isCall := cond.(*ssa.Call)
					if !isCall || !taken {
						continue
					}
					f := call.Call.StaticCallee()
					if f == nil || f.Name() != "HasPrefix" || f.Pkg == nil || f.Pkg.Pkg.Path() != "strings" {
						continue
					}
					fromIter := ir.DependsOn(call.Call.Args[0], func(x ssa.Value) bool {
						c, ok := x.(*ssa.Call)
						return ok && c.Call.IsInvoke() && c.Call.Method.Name() == "Key"
					})
					fromIndexName := ir.DependsOn(call.Call.Args[1], func(x ssa.Value) bool { return isMsgField(x, "GetRequest", "SecondaryIndexName") })
					if fromIter && fromIndexName {
						if ok, w := indexPrefixTerminated(h, call.Call.Args[1]); ok {
							good = true
						} else {
							bad = w
						}
					}
				}
				h.Verdict(good, rule, fmt.Sprintf("index get return #%d in %s", i, ir.FuncName(root)), h.pos(in), "guarded by HasPrefix(iterator key, requested index prefix ending in the delimiter that follows the index name in stored keys)", bad)
			})
		}
		restore()
	}
	if n == 0 {
		h.Anchor(rule, "the index comparison-get walk (DB.KeyIterator in a function taking *proto.GetRequest)")
	}
	// list / range scan: bounds derive from the index name
	dbList := ir.Callee{Pkg: "server/kv", Recv: "DB", Name: "List"}
	for _, s := range h.P.AllCalls(ir.InPkg("server"), dbList) {
		fn := ir.Outermost(s.Fn)
		if fn.Signature.Recv() != nil {
			continue
		}
		takesIdx := false
		for _, p := range fn.Params {
			if ir.TypeIs(p.Type(), "proto", "ListRequest") || ir.TypeIs(p.Type(), "proto", "RangeScanRequest") {
				takesIdx = true
			}
		}
		if !takesIdx {
			continue
		}
		h.Fn(ir.FuncName(fn))
		req := argOf(s.Call.Common(), 0)
		ok := true
		for _, f := range []string{"StartInclusive", "EndExclusive"} {
			v := compositeFieldValue(req, f)
			if v == nil || !ir.DependsOn(v, func(x ssa.Value) bool {
				return isMsgField(x, "ListRequest", "SecondaryIndexName") || isMsgField(x, "RangeScanRequest", "SecondaryIndexName")
			}) {
				ok = false
			}
		}
		h.Verdict(ok, rule, "index scan bounds in "+ir.FuncName(fn), h.pos(s.Call), "both bounds are built from the requested index name", "an index list/range-scan is not bounded inside the requested index")
	}
}

func ruleR15d(h *H) {
	const rule = "R15d"
	h.Rule(rule, "K7", "the index get handles every value of proto.KeyComparisonType", 1)
	dbKeyIter := ir.Callee{Pkg: "server/kv", Recv: "DB", Name: "KeyIterator"}
	for _, s := range h.P.AllCalls(ir.InPkg("server"), dbKeyIter) {
		fn := s.Fn
		isGet, unbind := takesGetRequest(fn)
		if !isGet {
			continue
		}
		defer unbind()
		declared := map[int64]string{}
		sc := h.P.Package("proto").Types.Scope()
		for _, nm := range sc.Names() {
			if c, ok := sc.Lookup(nm).(*types.Const); ok && ir.TypeIs(c.Type(), "proto", "KeyComparisonType") {
				if v, exact := constantInt64(c); exact {
					declared[v] = nm
				}
			}
		}
		handled := map[int64]bool{}
		for _, g := range helperFuncs(fn) {
			for _, c := range ir.EdgeCmps(g) {
				for _, cc := range []ir.Cmp{c, c.Flip()} {
					if cc.Op == token.EQL && isMsgField(cc.L, "GetRequest", "ComparisonType") {
						if k, ok := ir.Canon(cc.R).(*ssa.Const); ok && k.Value != nil {
							handled[k.Int64()] = true
						}
					}
				}
			}
		}
		var missing []string
		for v, nm := range declared {
			if !handled[v] {
				missing = append(missing, nm)
			}
		}
		sort.Strings(missing)
		h.Verdict(len(missing) == 0 && len(declared) > 0, rule, "comparison switch of "+ir.FuncName(fn), h.P.Pos(fn.Pos()), fmt.Sprintf("%d comparison types handled", len(declared)), "comparison types without a case in the index get: "+strings.Join(missing, ", "))
	}
}

// indexPrefixTerminated: the symbolic value of the membership prefix is
// <literal head of the write format> <index name> <delimiter...>: the index name must be
// closed by the delimiter that follows it in stored keys, otherwise an index whose name
// merely starts with the requested name passes the prefix test.
func indexPrefixTerminated(h *H, prefix ssa.Value) (bool, string) {
	keyFn := indexKeyFn(h)
	if keyFn == nil {
		return false, "index key function not found"
	}
	W := indexWriteFormat(keyFn)
	first := strings.Index(W, "%s")
	if first < 0 || first+2 >= len(W) {
		return false, "cannot read the layout of stored index keys"
	}
	head, delim := W[:first], W[first+2:first+3]
	parts, ok := ir.SymString(prefix)
	if !ok {
		return false, "cannot evaluate the membership prefix symbolically"
	}
	for i, p := range parts {
		if p.Val == nil || !ir.DependsOn(p.Val, func(x ssa.Value) bool { return isMsgField(x, "GetRequest", "SecondaryIndexName") }) {
			continue
		}
		if i == 0 || parts[i-1].Val != nil || parts[i-1].Lit != head {
			return false, fmt.Sprintf("the membership prefix does not start with %q, the head of stored index keys", head)
		}
		if i+1 >= len(parts) || parts[i+1].Val != nil || !strings.HasPrefix(parts[i+1].Lit, delim) {
			return false, fmt.Sprintf("the membership prefix ends with the index name without the %q that follows it in stored keys: entries of any index whose name starts with the requested name pass the test and are returned", delim)
		}
		return true, ""
	}
	return false, "the membership prefix does not contain the requested index name"
}

// ruleR15g: a comparison get on an index without partition key goes to every shard; the
// client keeps the best candidate by comparing GetResponse.SecondaryIndexKey and falls
// back to the primary key when the field is absent. The server-side index get therefore
// has to set that field from the secondary key of the entry its walk selected.
func ruleR15g(h *H) {
	const rule = "R15g"
	h.Rule(rule, "K6", "the function that answers an index comparison-get stores GetResponse.SecondaryIndexKey from the secondary key returned by the index walk", 1)
	dbKeyIter := ir.Callee{Pkg: "server/kv", Recv: "DB", Name: "KeyIterator"}
	n := 0
	for _, s := range h.P.AllCalls(ir.InPkg("server"), dbKeyIter) {
		walk := s.Fn
		isGet, unbind := takesGetRequest(walk)
		if !isGet {
			continue
		}
		defer unbind()
		for _, site := range ir.StaticCallSites(walk) {
			caller := site.Parent()
			n++
			h.Fn(ir.FuncName(caller))
			// stores to the field anywhere in the caller's region
			ok := false
			for _, g := range helperFuncs(caller) {
				ir.Instrs(g, func(in ssa.Instruction) {
					st, isSt := in.(*ssa.Store)
					if !isSt {
						return
					}
					r, isF := ir.FieldAddrOf(st.Addr)
					if !isF || !r.Is("proto", "GetResponse", "SecondaryIndexKey") {
						return
					}
					fromWalk := func(v ssa.Value) bool {
						ex, isEx := v.(*ssa.Extract)
						return isEx && ex.Tuple == site.Value() && ex.Index == 1
					}
					if ir.DependsOn(st.Val, fromWalk) {
						ok = true
					}
					// `&secondaryKey`: the address of the local that holds it
					if al, isAl := st.Val.(*ssa.Alloc); isAl {
						for _, s2 := range ir.AllStores(al) {
							if ir.DependsOn(s2.Val, fromWalk) {
								ok = true
							}
						}
					}
				})
			}
			h.Verdict(ok, rule, "secondary key in the answer of "+ir.FuncName(caller), h.pos(site), "GetResponse.SecondaryIndexKey = the secondary key of the selected entry", "the index get does not report the secondary key of the entry it selected: the client then merges the per-shard candidates of floor / ceiling / lower / higher by primary key and returns the wrong record whenever the two orders differ")
		}
	}
	if n == 0 {
		h.Anchor(rule, "the caller of the index comparison-get walk")
	}
}
