package props

import (
	"fmt"
	"go/token"
	"go/types"
	"sort"
	"strings"

	"golang.org/x/tools/go/ssa"

	"oxiaverif/internal/chk"
	"oxiaverif/internal/ir"
)

func init() { register("C06", checkC06) }

func checkC06(c *chk.Ctx) {
	h := newH(c)
	c.Decided = []string{
		"R06j no zero-copy decoded request reaches DB.ProcessWrite (pooled storage entries would overwrite the operations still to be applied)",
		"R06i every DB a controller opens (constructor, re-open in NewTerm, snapshot installation) is given the notification setting of the term before the function succeeds: whether batches are recorded is part of the replicated state",
		"R06h once an entry is committed the leader applies it on every path of the commit continuation, as every follower does",
		"R06a nothing reachable from applying a logged request reads the clock, random sources, the environment or generates ids",
		"R06b the apply code reads no re-assignable package-level variable and only the frozen set of db fields",
		"R06g the leader applies every committed entry: a request popped from the commit queue always gets its success continuation (never an error that depends on the caller's context)",
		"R06c every apply site passes the offset and timestamp of the very log entry and the same callback chain",
		"R06d the persisted last-version-id is read from the counter after the request was applied; the in-memory counter must not run ahead of an uncommitted batch (open finding F15)",
		"R06e snapshot: sender flushes before the checkpoint; the receiver takes commit offset and head from the installed DB",
		"R06f a decode target reused across the entries of an apply pass is reset before each entry is decoded",
	}
	c.NotDec = []string{
		"equality of two replicas' state for every request mix (value-level)",
		"Pebble's own determinism",
		"notification trimming by local wall-clock (outside the log by design)",
	}
	ruleR06a(h)
	ruleR06b(h)
	ruleR06c(h, "R06c")
	ruleR06d(h)
	ruleR06e(h)
	ruleCommittedContinuationsSucceed(h, "R06g")
	ruleCommittedEntryAlwaysApplied(h, "R06h")
	ruleR06i(h)
	ruleNoZeroCopyDecodeApplied(h, "R06j")
	ruleReusedDecodeTargetReset(h, "R06f")
}

// applyRoots returns the implementations of kv.DB.ProcessWrite.
func applyRoots(h *H, rule string) []*ssa.Function {
	fns := h.P.ImplMethods("server/kv", "DB", "ProcessWrite")
	if len(fns) == 0 {
		h.Anchor(rule, "implementation of kv.DB.ProcessWrite")
	}
	return fns
}

func applyDescend(f *ssa.Function) bool {
	if !ir.InRepo(f) {
		return false
	}
	switch ir.RelPkg(ir.PkgPathOf(f)) {
	case "proto", "common/metric", "common/process":
		return false
	}
	return true
}

// applyClosure: every repository function that may run while a logged request is applied.
func applyClosure(h *H, rule string) (map[*ssa.Function]*ssa.Function, []*ssa.Function) {
	roots := applyRoots(h, rule)
	cl := h.P.Closure(roots, applyDescend)
	var fns []*ssa.Function
	for f := range cl {
		if f.Blocks != nil && applyDescend(f) {
			fns = append(fns, f)
		}
	}
	sort.Slice(fns, func(i, j int) bool { return fns[i].String() < fns[j].String() })
	for _, f := range fns {
		h.Fn(ir.FuncName(f))
	}
	return cl, fns
}

func calleePkgAndName(c *ssa.CallCommon) (string, string) {
	if c.IsInvoke() {
		if c.Method.Pkg() != nil {
			return c.Method.Pkg().Path(), c.Method.Name()
		}
		return "", c.Method.Name()
	}
	f := c.StaticCallee()
	if f == nil {
		return "", ""
	}
	if o := f.Object(); o != nil && o.Pkg() != nil {
		return o.Pkg().Path(), f.Name()
	}
	return ir.PkgPathOf(f), f.Name()
}

var nondetPkgs = map[string]string{
	"math/rand":              "random source",
	"math/rand/v2":           "random source",
	"crypto/rand":            "random source",
	"github.com/google/uuid": "id generator",
}

var nondetFuncs = map[string]string{
	"time.Now":       "wall clock",
	"time.Since":     "wall clock",
	"time.Until":     "wall clock",
	"os.Getenv":      "environment",
	"os.LookupEnv":   "environment",
	"os.Hostname":    "environment",
	"os.Getpid":      "environment",
	"runtime.NumCPU": "environment",
	"os.ReadFile":    "file system",
	"os.Open":        "file system",
	"net.LookupHost": "network",
	"time.NewTimer":  "wall clock",
	"time.After":     "wall clock",
}

func ruleR06a(h *H) {
	const rule = "R06a"
	h.Rule(rule, "K9", "no wall-clock, random, environment or id-generator call is reachable from kv.DB.ProcessWrite (through the update callbacks of sessions and secondary indexes)", 1)
	cl, fns := applyClosure(h, rule)
	bad := 0
	for _, f := range fns {
		ir.Instrs(f, func(in ssa.Instruction) {
			c := ir.CallOf(in)
			if c == nil {
				return
			}
			pkg, name := calleePkgAndName(c)
			why := ""
			if w, ok := nondetPkgs[pkg]; ok {
				why = w
			}
			if w, ok := nondetFuncs[pkg+"."+name]; ok {
				why = w
			}
			if why == "" {
				return
			}
			bad++
			h.Bad(rule, fmt.Sprintf("%s.%s called in %s", pkg, name, ir.FuncName(f)), h.pos(in),
				fmt.Sprintf("%s (%s.%s) is reachable while applying a logged request: %s", why, pkg, name, ir.PathTo(cl, f)))
		})
	}
	if bad == 0 {
		h.OK(rule, "apply closure", "", fmt.Sprintf("%d functions reachable from ProcessWrite, none uses a nondeterministic source", len(fns)))
	}
}

// dbFieldsReadable: fields of the db object the apply code may read, with the reason.
var dbFieldsReadable = map[string]string{
	"kv":                     "the replicated store itself",
	"versionIdTracker":       "replicated counter (persisted in every batch, R07a)",
	"notificationsEnabled":   "term option, replicated through NewTerm",
	"shardId":                "immutable identity",
	"sequenceWaiterTracker":  "local subscribers only (not state)",
	"notificationsTracker":   "local subscribers only (not state)",
	"log":                    "logging",
	"putCounter":             "metric",
	"deleteCounter":          "metric",
	"deleteRangesCounter":    "metric",
	"batchWriteLatencyHisto": "metric",
}

// classifyDbField sorts a field of the db object by its type: the replicated store, harmless
// infrastructure (metrics, logger), a local helper object, or plain data.
func classifyDbField(t types.Type) string {
	if p, ok := t.(*types.Pointer); ok {
		t = p.Elem()
	}
	n, ok := types.Unalias(t).(*types.Named)
	if !ok || n.Obj().Pkg() == nil {
		return "data"
	}
	pk := n.Obj().Pkg().Path()
	switch {
	case strings.HasSuffix(pk, "server/kv") && n.Obj().Name() == "KV":
		return "store"
	case strings.HasSuffix(pk, "common/metric"), pk == "log/slog", strings.Contains(pk, "opentelemetry"):
		return "harmless"
	case pk == "sync/atomic", pk == "sync", pk == "time":
		return "data"
	}
	if _, isIface := n.Underlying().(*types.Interface); isIface {
		return "local-object"
	}
	if _, isStruct := n.Underlying().(*types.Struct); isStruct {
		return "local-object"
	}
	return "data"
}

// consumedResult: a method call on the loaded object whose result is used.
func consumedResult(obj ssa.Value) ssa.CallInstruction {
	if obj.Referrers() == nil {
		return nil
	}
	for _, r := range *obj.Referrers() {
		ci, ok := r.(ssa.CallInstruction)
		if !ok {
			continue
		}
		isRecv := ci.Common().IsInvoke() && ci.Common().Value == obj
		if !isRecv && len(ci.Common().Args) > 0 && ci.Common().Args[0] == obj && ci.Common().StaticCallee() != nil && ci.Common().StaticCallee().Signature.Recv() != nil {
			isRecv = true
		}
		if !isRecv {
			continue
		}
		v, isVal := ci.(ssa.Value)
		if !isVal || v.Referrers() == nil {
			continue
		}
		for _, rr := range *v.Referrers() {
			if _, dbg := rr.(*ssa.DebugRef); !dbg {
				return ci
			}
		}
	}
	return nil
}

func ruleR06b(h *H) {
	const rule = "R06b"
	h.Rule(rule, "K9", "functions reachable from ProcessWrite read no package-level variable that is ever re-assigned after initialisation, and only the frozen set of fields of the db object", 2)
	_, fns := applyClosure(h, rule)
	// globals with stores outside package initialisers
	mutable := map[*ssa.Global]string{}
	for _, f := range h.P.Funcs {
		if f.Name() == "init" || strings.HasPrefix(f.Name(), "init#") {
			continue
		}
		ir.Instrs(f, func(in ssa.Instruction) {
			if st, ok := in.(*ssa.Store); ok {
				if g, ok := st.Addr.(*ssa.Global); ok {
					mutable[g] = ir.FuncName(f)
				}
			}
		})
	}
	dbt := ""
	for _, r := range applyRoots(h, rule) {
		if r.Signature.Recv() != nil {
			dbt = namedName(r.Signature.Recv().Type())
		}
	}
	badG, badF := 0, 0
	fieldsSeen := map[string]bool{}
	for _, f := range fns {
		ir.Instrs(f, func(in ssa.Instruction) {
			u, ok := in.(*ssa.UnOp)
			if !ok || u.Op != token.MUL {
				return
			}
			if g, ok := u.X.(*ssa.Global); ok {
				if where, isMut := mutable[g]; isMut && ir.InRepoPkg(g.Pkg) {
					badG++
					h.Bad(rule, fmt.Sprintf("read of mutable global %s in %s", g.Name(), ir.FuncName(f)), h.pos(in),
						fmt.Sprintf("package-level variable %s (re-assigned in %s) is read while applying a logged request: replicas may see different values", g.Name(), where))
				}
				return
			}
			if ref, ok := ir.FieldAddrOf(u.X); ok && ref.Struct != nil && ref.Struct.Obj().Name() == dbt && ir.RelPkg(ref.Struct.Obj().Pkg().Path()) == "server/kv" {
				fieldsSeen[ref.Field] = true
				class := classifyDbField(u.Type())
				_, listed := dbFieldsReadable[ref.Field]
				switch {
				case class == "store" || class == "harmless":
				case class == "local-object":
					// subscriber trackers and the like are local, not replicated state: the apply
					// code may notify them, but nothing they hand back may influence the result
					if used := consumedResult(u); used != nil {
						badF++
						h.Bad(rule, fmt.Sprintf("value read from db.%s in %s", ref.Field, ir.FuncName(f)), h.pos(used), "the result of "+describeCallee(used.Common())+" on db."+ref.Field+" is used while applying a logged request: that object is local to the node (not part of the replicated store, empty after a restart or a snapshot install), so replicas compute different results")
					}
				case listed:
				default:
					badF++
					h.Bad(rule, fmt.Sprintf("read of db.%s in %s", ref.Field, ir.FuncName(f)), h.pos(in), "field db."+ref.Field+" is read while applying a logged request but is not in the frozen table of replicated / harmless fields")
				}
			}
		})
	}
	var fs []string
	for k := range fieldsSeen {
		fs = append(fs, k)
	}
	sort.Strings(fs)
	if badG == 0 {
		h.OK(rule, "globals read by the apply closure", "", fmt.Sprintf("%d mutable globals in the program, none read by the %d apply functions", len(mutable), len(fns)))
	}
	if badF == 0 {
		h.OK(rule, "db fields read by the apply closure", "", "fields read: "+strings.Join(fs, ", "))
	}
}

// ruleR06c: arguments of the apply sites.
func ruleR06c(h *H, rule string) {
	h.Rule(rule, "K6", "at every ProcessWrite call site of the server the offset and timestamp are those of the log entry being applied (in the leader write path: the very values placed in the LogEntry), and all sites pass the same update callback", 3)
	worker := writeWorker(h, rule)
	var app *appendSite
	if worker != nil {
		app = workerAppend(h, rule, worker)
	}
	var cbs []ssa.Value
	for _, s := range h.P.AllCalls(ir.InPkg("server"), dbProcessWrite) {
		h.Fn(ir.FuncName(s.Fn))
		name := "ProcessWrite arguments in " + ir.FuncName(ir.Outermost(s.Fn))
		off, ts, cb := argOf(s.Call.Common(), 1), argOf(s.Call.Common(), 2), argOf(s.Call.Common(), 3)
		cbs = append(cbs, ir.Canon(cb))
		if worker != nil && regionRoot(s.Fn) == worker && app != nil {
			ok := ir.CanonX(off) == ir.CanonX(app.Offset) && ir.CanonX(ts) == ir.CanonX(app.Stamp)
			h.Verdict(ok, rule, name, h.pos(s.Call), "offset and timestamp are the values placed in the appended LogEntry",
				fmt.Sprintf("applies with offset %s / timestamp %s, but the log entry carries %s / %s: replicas replaying the log would apply different values", ir.Describe(off), ir.Describe(ts), ir.Describe(app.Offset), ir.Describe(app.Stamp)))
			continue
		}
		ro, ok1 := ir.FieldLoadOf(ir.Canon(off))
		rt, ok2 := ir.FieldLoadOf(ir.Canon(ts))
		ok := ok1 && ok2 && ro.Is("proto", "LogEntry", "Offset") && rt.Is("proto", "LogEntry", "Timestamp") && ir.SameExpr(ro.Base, rt.Base)
		h.Verdict(ok, rule, name, h.pos(s.Call), "entry.Offset and entry.Timestamp of one log entry",
			fmt.Sprintf("applies with offset %s / timestamp %s instead of the Offset and Timestamp of the entry read from the log", ir.Describe(off), ir.Describe(ts)))
	}
	same := true
	for _, c := range cbs {
		if !sameGlobalLoad(c, cbs[0]) {
			same = false
		}
	}
	if len(cbs) > 0 {
		h.Verdict(same, rule, "one callback chain at all apply sites", "", fmt.Sprintf("%d sites pass %s", len(cbs), ir.Describe(cbs[0])), "leader and follower apply sites pass different update callbacks")
	}
}

func sameGlobalLoad(a, b ssa.Value) bool {
	if a == b {
		return true
	}
	ua, ok1 := a.(*ssa.UnOp)
	ub, ok2 := b.(*ssa.UnOp)
	if ok1 && ok2 {
		ga, ok3 := ua.X.(*ssa.Global)
		gb, ok4 := ub.X.(*ssa.Global)
		return ok3 && ok4 && ga == gb
	}
	return false
}

func isAtomicCallOnField(v ssa.Value, method, pkg, typ, field string) (*ssa.Call, bool) {
	c, ok := v.(*ssa.Call)
	if !ok {
		return nil, false
	}
	f := c.Call.StaticCallee()
	if f == nil || f.Pkg == nil || f.Pkg.Pkg.Path() != "sync/atomic" || f.Name() != method || len(c.Call.Args) == 0 {
		return nil, false
	}
	ref, ok := ir.FieldAddrOf(c.Call.Args[0])
	return c, ok && ref.Is(pkg, typ, field)
}

func ruleR06d(h *H) {
	ruleR06dInto(h, "R06d", true)
}

// ruleR06dInto: withRollback=false evaluates only the ordering clause (shared with the
// properties that rely on version ids never being re-issued); the rollback clause, which
// has an open known finding, belongs to C06 alone.
func ruleR06dInto(h *H, rule string, withRollback bool) {
	min := 1
	if withRollback {
		min = 2
	}
	h.Rule(rule, "K1", "ProcessWrite persists the version counter as read after the request's operations were applied; a ProcessWrite that fails after the counter was advanced must restore it (C06 only)", min)
	for _, fn := range applyRoots(h, rule) {
		dbt := namedName(fn.Signature.Recv().Type())
		// the apply call: static call reaching versionIdTracker.Add
		var applyCalls []ssa.CallInstruction
		ir.Instrs(fn, func(in ssa.Instruction) {
			ci, ok := in.(ssa.CallInstruction)
			if !ok {
				return
			}
			if h.P.CallStaticallyReaches(ci, func(c *ssa.CallCommon) bool {
				f := c.StaticCallee()
				if f == nil || f.Pkg == nil || f.Pkg.Pkg.Path() != "sync/atomic" || f.Name() != "Add" || len(c.Args) == 0 {
					return false
				}
				ref, ok := ir.FieldAddrOf(c.Args[0])
				return ok && ref.Is("server/kv", dbt, "versionIdTracker")
			}) {
				if f := ci.Common().StaticCallee(); f != nil && f.Pkg != nil && f.Pkg.Pkg.Path() != "sync/atomic" {
					// the call(s) that apply the logged request or one of its operations
					for _, a := range ci.Common().Args {
						if ir.DependsOn(a, func(x ssa.Value) bool {
							if p, isP := x.(*ssa.Parameter); isP && ir.TypeIs(p.Type(), "proto", "WriteRequest") {
								return true
							}
							r, ok := ir.FieldLoadOf(x)
							return ok && r.Struct != nil && r.Struct.Obj().Name() == "WriteRequest"
						}) {
							applyCalls = append(applyCalls, ci)
							break
						}
					}
				}
			}
		})
		if len(applyCalls) == 0 {
			h.Anchor(rule, "the call in ProcessWrite that applies the operations (reaches versionIdTracker.Add)")
			continue
		}
		// loads of the counter whose value is persisted
		n := 0
		for _, hf := range helperFuncs(fn) {
			ir.Instrs(hf, func(in ssa.Instruction) {
				c, ok := in.(*ssa.Call)
				if !ok {
					return
				}
				if _, isLoad := isAtomicCallOnField(c, "Load", "server/kv", dbt, "versionIdTracker"); !isLoad {
					return
				}
				// only reads whose value is persisted (handed to a call that reaches WriteBatch.Put)
				persisted := false
				if c.Referrers() != nil {
					for _, r := range *c.Referrers() {
						if ci, isCall := r.(ssa.CallInstruction); isCall && h.P.CallStaticallyReaches(ci, h.P.MatchPred(ir.Callee{Pkg: "server/kv", Recv: "WriteBatch", Name: "Put"})) {
							persisted = true
						}
					}
				}
				if !persisted {
					return
				}
				n++
				good := true
				at := liftToRoot(fn, in)
				for _, a := range applyCalls {
					// no operation of the request may be applied after the counter was read
					if at == nil {
						good = false
					} else if r, _ := ir.Reach(ir.Search{From: at}, ir.Is(a)); r {
						good = false
					}
				}
				h.Verdict(good, rule, fmt.Sprintf("version counter read #%d in %s", n, ir.FuncName(fn)), h.pos(in), "read after the operations were applied",
					"the version counter is read before the request is applied: the persisted last-version-id lags behind the ids handed out, a restarted replica re-issues them")
			})
		}
		if n == 0 {
			h.Bad(rule, "version counter persisted in "+ir.FuncName(fn), h.P.Pos(fn.Pos()), "ProcessWrite does not read versionIdTracker: the counter is not persisted with the batch")
		}
		if !withRollback {
			continue
		}
		// error returns after the apply call must restore the counter
		restores := func(in ssa.Instruction) bool {
			c, ok := in.(*ssa.Call)
			if !ok {
				return false
			}
			_, isStore := isAtomicCallOnField(c, "Store", "server/kv", dbt, "versionIdTracker")
			return isStore
		}
		leak := false
		var at ssa.Instruction
		ir.Instrs(fn, func(in ssa.Instruction) {
			ret, ok := in.(*ssa.Return)
			if !ok || leak {
				return
			}
			if c, isC := ir.ReturnValues(ret)[len(ret.Results)-1].(*ssa.Const); isC && c.IsNil() {
				return
			}
			for _, a := range applyCalls {
				if r, _ := ir.Reach(ir.Search{From: a, Barrier: restores}, ir.Is(in)); r {
					leak = true
					at = in
				}
			}
		})
		if leak {
			h.Bad(rule, "version counter on failed apply in the kv.DB.ProcessWrite implementation", h.pos(at), "ProcessWrite can fail after versionIdTracker.Add without restoring the counter: the in-memory counter runs ahead of the persisted one, so a replica that restarts assigns different version ids than one that does not")
		} else {
			h.OK(rule, "version counter on failed apply in the kv.DB.ProcessWrite implementation", h.P.Pos(fn.Pos()), "every failing path restores the counter")
		}
	}
}

func ruleR06e(h *H) {
	const rule = "R06e"
	h.Rule(rule, "K1", "the snapshot sender flushes the KV before taking the checkpoint; the follower's applied commit offset is only assigned from DB.ReadCommitOffset or from the offset of an entry it has just applied", 3)
	// sender
	flush := ir.Callee{Pkg: "github.com/cockroachdb/pebble", Recv: "DB", Name: "Flush"}
	checkpoint := ir.Callee{Pkg: "github.com/cockroachdb/pebble", Recv: "DB", Name: "Checkpoint"}
	n := 0
	for _, s := range h.P.AllCalls(ir.InPkg("server/kv"), checkpoint) {
		n++
		h.Fn(ir.FuncName(s.Fn))
		ok := false
		why := "no Flush precedes the checkpoint"
		for _, f := range h.P.CallsIn(s.Fn, flush) {
			if sd, w, _ := ir.SuccessDominated(f, s.Call); sd {
				ok = true
			} else {
				why = w
			}
		}
		h.Verdict(ok, rule, "checkpoint in "+ir.FuncName(s.Fn), h.pos(s.Call), "success-dominated by Flush", "snapshot checkpoint without a preceding successful flush (memtable contents would be missing: Pebble's WAL is disabled): "+why)
	}
	if n == 0 {
		h.Anchor(rule, "pebble Checkpoint call in server/kv")
	}
	ruleAppliedOffsetProvenance(h, rule)
}

// ruleAppliedOffsetProvenance (shared with C07): the follower's applied commit offset is
// only assigned from the installed DB or from the offset of an entry just applied.
func ruleAppliedOffsetProvenance(h *H, rule string) {
	// receiver: followerController.commitOffset writers
	ft := h.implType(rule, "server", "FollowerController")
	if ft == nil {
		return
	}
	tn := ft.Obj().Name()
	cnt := map[string]int{}
	for _, w := range h.P.FieldWrites("server", tn, "commitOffset") {
		fname := ir.FuncName(ir.Outermost(w.Fn))
		cnt[fname]++
		name := fmt.Sprintf("commitOffset write #%d in %s", cnt[fname], fname)
		h.Fn(ir.FuncName(w.Fn))
		if w.Val == nil {
			h.Unknown(rule, name, h.pos(w.Instr), "written through an escaped address")
			continue
		}
		v := ir.Canon(w.Val)
		switch {
		case isExtractOf(h, v, dbReadCommit):
			call := v.(*ssa.Extract).Tuple.(*ssa.Call)
			ok, why, _ := ir.SuccessDominated(call, w.Instr)
			h.Verdict(ok, rule, name, h.pos(w.Instr), "from a successful DB.ReadCommitOffset", "commit offset used although ReadCommitOffset may have failed: "+why)
		case isLogEntryField(v, "Offset"):
			// success-dominated by the apply of that entry
			r, _ := ir.FieldLoadOf(v)
			ok := false
			why := "no successful apply of that entry precedes the store"
			ir.Instrs(w.Fn, func(in ssa.Instruction) {
				ci, isCall := in.(ssa.CallInstruction)
				if !isCall || !h.P.CallStaticallyReaches(ci, h.P.MatchPred(dbProcessWrite)) {
					return
				}
				passesEntry := false
				for _, a := range ci.Common().Args {
					if ir.SameExpr(a, r.Base) {
						passesEntry = true
					}
					// the apply helper inlined: ProcessWrite gets the entry's own offset
					if ar, isF := ir.FieldLoadOf(ir.Canon(a)); isF && ar.Is("proto", "LogEntry", "Offset") && ir.SameExpr(ar.Base, r.Base) {
						passesEntry = true
					}
				}
				if !passesEntry {
					return
				}
				if sd, w2, _ := ir.SuccessDominated(ci, w.Instr); sd {
					ok = true
				} else {
					why = w2
					// the apply call sits in an inner loop over the entry's requests (zero or more
					// iterations): the store must not be reachable after a failed apply
					if hi := ir.EnclosingLoopHeader(in.Block()); hi != nil && ir.ErrResult(ci) != nil && !ir.LoopBlocks(hi)[w.Instr.Block()] && hi.Dominates(w.Instr.Block()) {
						ev := ir.ErrResult(ci)
						if r, _ := ir.Reach(ir.Search{From: in}, ir.Is(w.Instr)); r {
							if okOnly, _ := ir.OkOnly(w.Fn, ev, in, w.Instr); okOnly {
								ok = true
							}
						}
					}
				}
			})
			h.Verdict(ok, rule, name, h.pos(w.Instr), "offset of the entry that was just applied successfully", why)
		default:
			if call, res := helperSuccessResults(v); call != nil && len(res) > 0 {
				ok, why, _ := ir.SuccessDominated(call, w.Instr)
				for _, r := range res {
					rv := ir.Canon(r.V)
					if !isExtractOf(h, rv, dbReadCommit) {
						ok, why = false, "inside "+describeCallee(call.Common())+" the value "+ir.Describe(r.V)+" is handed out"
						continue
					}
					if sd, w2, _ := ir.SuccessDominated(rv.(*ssa.Extract).Tuple.(*ssa.Call), r.Ret); !sd {
						ok, why = false, "inside "+describeCallee(call.Common())+": "+w2
					}
				}
				h.Verdict(ok, rule, name, h.pos(w.Instr), "from the successful result of "+describeCallee(call.Common())+", which hands out a successful DB.ReadCommitOffset", "the applied commit offset does not come from the installed DB: "+why)
				continue
			}
			h.Bad(rule, name, h.pos(w.Instr), "the applied commit offset is assigned from "+ir.Describe(w.Val))
		}
	}
}

// ruleR06i: kv.NewDB starts with notifications enabled; whether a shard records them is an
// option of the term. A controller that opens a DB and goes on to apply entries without
// telling it the term's setting records batches its peers do not (or the reverse).
func ruleR06i(h *H) {
	const rule = "R06i"
	h.Rule(rule, "K1", "in package server every path from a kv.NewDB call to a return, along which no error check failed, passes DB.EnableNotifications", 2)
	newDB := ir.Callee{Pkg: "server/kv", Recv: "", Name: "NewDB"}
	enable := ir.Callee{Pkg: "server/kv", Recv: "DB", Name: "EnableNotifications"}
	n := 0
	// the places where a controller obtains a freshly opened DB: the kv.NewDB calls, or the
	// calls of a private helper that opens one and hands it back
	type openPoint struct {
		Fn   *ssa.Function
		Call ssa.CallInstruction
	}
	var opens []openPoint
	var expand func(fn *ssa.Function, call ssa.CallInstruction, depth int)
	expand = func(fn *ssa.Function, call ssa.CallInstruction, depth int) {
		res := fn.Signature.Results()
		handsBack := false
		for i := 0; i < res.Len(); i++ {
			if ir.TypeIs(res.At(i).Type(), "server/kv", "DB") {
				handsBack = true
			}
		}
		if sites := ir.StaticCallSites(fn); handsBack && len(sites) > 0 && depth < 2 && len(h.P.CallsIn(fn, enable)) == 0 {
			h.Fn(ir.FuncName(fn))
			for _, cs := range sites {
				expand(cs.Parent(), cs, depth+1)
			}
			return
		}
		opens = append(opens, openPoint{fn, call})
	}
	for _, s := range h.P.AllCalls(ir.InPkg("server"), newDB) {
		expand(s.Fn, s.Call, 0)
	}
	for _, s := range opens {
		fn := s.Fn
		n++
		h.Fn(ir.FuncName(fn))
		// the success paths: no `err != nil` branch taken
		blocked := map[ir.Edge]bool{}
		ir.Instrs(fn, func(in ssa.Instruction) {
			ci, ok := in.(ssa.CallInstruction)
			if !ok {
				return
			}
			if ev := ir.ErrResult(ci); ev != nil {
				for _, t := range ir.NilTests(ev) {
					blocked[ir.Edge{From: t.If.Block(), To: t.NonNil}] = true
				}
			}
		})
		isEnable := func(in ssa.Instruction) bool {
			c := ir.CallOf(in)
			return c != nil && h.P.Matches(c, enable)
		}
		bad := ""
		var w []int
		ir.Instrs(fn, func(in ssa.Instruction) {
			if _, isRet := in.(*ssa.Return); isRet && bad == "" && in.Block() != fn.Recover {
				if r, path := ir.Reach(ir.Search{From: s.Call, Blocked: blocked, Barrier: isEnable}, ir.Is(in)); r {
					bad = "a DB is opened and the function succeeds without DB.EnableNotifications(term options): the replica records (or omits) notification batches contrary to the term's setting, so replicas with the same committed prefix hold different batches"
					w = path
				}
			}
		})
		h.Verdict(bad == "", rule, fmt.Sprintf("DB opened #%d in %s", n, ir.FuncName(fn)), h.pos(s.Call), "the term's notification setting is applied before the function succeeds", bad, witness(w))
	}
	if n == 0 {
		h.Anchor(rule, "kv.NewDB calls in package server")
	}
}
