package props

import (
	"fmt"
	"go/token"

	"golang.org/x/tools/go/ssa"

	"oxiaverif/internal/chk"
	"oxiaverif/internal/ir"
)

func init() { register("C08", checkC08) }

var segAppend = ir.Callee{Pkg: "server/wal", Recv: "ReadWriteSegment", Name: "Append"}

func checkC08(c *chk.Ctx) {
	h := newH(c)
	c.Decided = []string{
		"R08l ack table entries are created only once the leader's own copy is durable (constructor / head advance), never by an ack",
		"R08k the leader's commit continuation applies the committed entry on every path, so that effects follow offset order without gaps",
		"R08a LEADER check, offset allocation and WAL append happen in one exclusive critical section of the controller lock",
		"R08i a request popped from the commit queue is always completed successfully (the commit no longer depends on the caller)",
		"R08j the already-committed test and the enqueue of a commit waiter are one critical section of the tracker mutex",
		"R08h the WAL sync loop completes only the sync requests received before it read the appended offset (a write's local-durability completion is never ahead of LastOffset())",
		"R08b the WAL appends to a segment only after the contiguity check of the entry's offset succeeded",
		"R08c the apply function answers every request element exactly once, in element order, with the result of that very element; the client callback gets the response of its own request and offset",
		"R08d the tracker's commit offset is only moved by the guarded commit rule; offsets are only allocated by the write worker",
		"R08e callbacks handed to the tracker are complete-once wrappers; Close fails the waiting ones; queued continuations run under the tracker mutex",
		"R08g quorum arithmetic (shared with C01)",
	}
	c.NotDec = []string{
		"commit monotonicity and 'never passes the head' for arbitrary ack orders (relies on per-follower ack order at run time)",
		"liveness: that all concurrent writers succeed with a healthy quorum",
	}
	h.Rule("R08a", "K2", "leader write: LEADER check, offset allocation and WAL append in one critical section of the controller lock", 2)
	ruleWriteCriticalSection(h, "R08a")
	ruleR08b(h)
	ruleR08c(h)
	ruleR08d(h)
	ruleR08e(h)
	ruleQueuedContinuationsUnderLock(h, "R08f")
	h.Rule("R08g", "K11", "quorum arithmetic (shared with R01c)", 3)
	ruleR01cShared(h, "R08g")
	ruleSyncCompletionsCovered(h, "R08h")
	ruleCommittedContinuationsSucceed(h, "R08i")
	ruleCommittedEntryAlwaysApplied(h, "R08k")
	ruleCommitCheckUnderLock(h, "R08j")
	ruleAckTableWriters(h, "R08l")
}

// ruleR01cShared re-evaluates the quorum arithmetic under another rule id.
func ruleR01cShared(h *H, rule string) {
	ruleR01cInto(h, rule)
}

func ruleR08b(h *H) {
	h.Rule("R08b", "K1", "every ReadWriteSegment.Append in the WAL is success-dominated by the check that the entry's offset is exactly lastAppendedOffset+1 (or the log is empty)", 2)
	ruleR08bInto(h, "R08b")
}

func ruleR08bInto(h *H, rule string) {
	wt := h.implType(rule, "server/wal", "Wal")
	if wt == nil {
		return
	}
	tn := wt.Obj().Name()
	n := 0
	for _, s := range h.P.AllCalls(ir.InPkg("server/wal"), segAppend) {
		o := ir.Outermost(s.Fn)
		if o.Signature.Recv() == nil || !ir.TypeIs(o.Signature.Recv().Type(), "server/wal", tn) {
			continue
		}
		n++
		h.Fn(ir.FuncName(s.Fn))
		name := fmt.Sprintf("segment append #%d in %s", n, ir.FuncName(s.Fn))
		offArg := argOf(s.Call.Common(), 0)
		// contiguity checks: static calls in this function whose callee compares its parameter with lastAppendedOffset+1
		ok := false
		why := "no contiguity check of the entry offset precedes the append"
		// look in the appending function and, when it is an extracted single-call-site
		// helper, in its caller(s) above the call
		cur, at, off := s.Fn, ssa.Instruction(s.Call), offArg
		for level := 0; level < 4 && !ok && cur != nil; level++ {
			ir.Instrs(cur, func(in ssa.Instruction) {
				c, isCall := in.(*ssa.Call)
				if !isCall {
					return
				}
				f := c.Call.StaticCallee()
				if f == nil || !isContiguityCheck(h, f, tn) {
					return
				}
				// it must check the same offset that is appended
				same := false
				for _, a := range c.Call.Args {
					if ir.SameExpr(a, off) {
						same = true
					}
				}
				if !same {
					why = "the contiguity check is applied to a different value than the appended offset"
					return
				}
				if sd, w, _ := ir.SuccessDominated(c, at); sd {
					ok = true
				} else {
					why = w
				}
			})
			site := ir.SingleCallSite(cur)
			if site == nil {
				break
			}
			off = ir.CanonX(off)
			cur, at = site.Parent(), site
		}
		h.Verdict(ok, rule, name, h.pos(s.Call), "after the contiguity check of the same offset succeeded", "an entry can be appended at a non-contiguous offset: "+why)
	}
	if n == 0 {
		h.Anchor(rule, "ReadWriteSegment.Append calls in the WAL implementation")
	}
}

// isContiguityCheck: f(next) error returns an error when next != lastAppendedOffset+1.
func isContiguityCheck(h *H, f *ssa.Function, walType string) bool {
	if f.Blocks == nil || f.Signature.Results().Len() != 1 || !ir.IsError(f.Signature.Results().At(0).Type()) {
		return false
	}
	var param *ssa.Parameter
	for _, p := range f.Params {
		if p.Type().String() == "int64" {
			param = p
		}
	}
	if param == nil {
		return false
	}
	found := false
	ir.Instrs(f, func(in ssa.Instruction) {
		ret, ok := in.(*ssa.Return)
		if !ok || found {
			return
		}
		if c, isC := ir.ReturnValues(ret)[0].(*ssa.Const); isC && c.IsNil() {
			return
		}
		for _, g := range ir.CmpGuards(in) {
			for _, cmp := range []ir.Cmp{g, g.Flip()} {
				if cmp.Op != token.NEQ || ir.Canon(cmp.L) != ssa.Value(param) {
					continue
				}
				bo, isBo := ir.Canon(cmp.R).(*ssa.BinOp)
				if !isBo || bo.Op != token.ADD || !isOne(bo.Y) {
					continue
				}
				if isAtomicLoadOfField(bo.X, "server/wal", walType, "lastAppendedOffset") {
					found = true
				}
			}
		}
	})
	return found
}

func ruleR08c(h *H) {
	const rule = "R08c"
	h.Rule(rule, "K1/K6", "the apply function appends exactly one response per request element on every path that continues, built from the result of that element; the leader's commit continuation completes the client with the response of its own request", 4)
	// the function storing into WriteResponse.{Puts,Deletes,DeleteRanges}
	for _, field := range []string{"Puts", "Deletes", "DeleteRanges"} {
		ws := h.P.FieldWrites("proto", "WriteResponse", field)
		var inKv []ir.FieldWrite
		for _, w := range ws {
			if ir.RelPkg(ir.PkgPathOf(w.Fn)) == "server/kv" && (w.Kind == "store" || w.Kind == "literal") {
				inKv = append(inKv, w)
			}
		}
		if len(inKv) != 1 {
			h.Anchor(rule, fmt.Sprintf("the single store to WriteResponse.%s in server/kv (found %d)", field, len(inKv)))
			continue
		}
		w := inKv[0]
		fn := w.Fn
		h.Fn(ir.FuncName(fn))
		name := fmt.Sprintf("responses for %s in %s", field, ir.FuncName(fn))
		app, ok := ir.Canon(w.Val).(*ssa.Call)
		if !ok {
			h.Bad(rule, name, h.pos(w.Instr), "WriteResponse."+field+" is not built by appending")
			continue
		}
		b, isB := app.Call.Value.(*ssa.Builtin)
		if !isB || b.Name() != "append" || len(app.Call.Args) != 2 {
			h.Bad(rule, name, h.pos(w.Instr), "WriteResponse."+field+" is not built by appending")
			continue
		}
		first, isField := ir.FieldLoadOf(ir.Canon(app.Call.Args[0]))
		if !isField || !first.Is("proto", "WriteResponse", field) {
			h.Bad(rule, name, h.pos(w.Instr), "the response list is not extended from itself (responses could be dropped or reordered)")
			continue
		}
		// the appended element: result of the apply call of this iteration
		var elem ssa.Value
		if sl, isSl := app.Call.Args[1].(*ssa.Slice); isSl {
			if al, isAl := sl.X.(*ssa.Alloc); isAl && al.Referrers() != nil {
				for _, r := range *al.Referrers() {
					if ia, isIA := r.(*ssa.IndexAddr); isIA && ia.Referrers() != nil {
						for _, rr := range *ia.Referrers() {
							if st, isSt := rr.(*ssa.Store); isSt {
								elem = ir.Canon(st.Val)
							}
						}
					}
				}
			}
		}
		ex, isEx := elem.(*ssa.Extract)
		var applyCall *ssa.Call
		if isEx {
			applyCall, _ = ex.Tuple.(*ssa.Call)
		}
		if applyCall == nil {
			h.Bad(rule, name, h.pos(w.Instr), "the appended response is not the result of applying the element: "+ir.Describe(elem))
			continue
		}
		// the apply call consumes an element of the request's same-named list
		consumes := false
		for _, a := range applyCall.Call.Args {
			if ia := indexedFrom(a); ia != nil {
				if r, isF := ir.FieldLoadOf(ir.Canon(ia.X)); isF && r.Is("proto", "WriteRequest", field) {
					consumes = true
				}
			}
		}
		if !consumes {
			h.Bad(rule, name, h.pos(applyCall), "the response appended to "+field+" does not come from applying an element of request."+field)
			continue
		}
		// no way around the loop without appending: from the apply call back to itself avoiding the store
		if r, path := ir.Reach(ir.Search{From: applyCall, Barrier: ir.Is(w.Instr)}, ir.Is(applyCall)); r {
			h.Bad(rule, name, h.pos(w.Instr), "an element can be applied without a response being appended (positional matching on the client breaks)", witness(path))
			continue
		}
		// and not twice: from the store back to the store without passing the apply call
		if r, path := ir.Reach(ir.Search{From: w.Instr, Barrier: ir.Is(applyCall)}, ir.Is(w.Instr)); r {
			h.Bad(rule, name, h.pos(w.Instr), "a response can be appended twice for one element", witness(path))
			continue
		}
		h.OK(rule, name, h.pos(w.Instr), "one response per element, from the result of applying that element")
	}
	// the leader continuation hands the result of ProcessWrite(request of this invocation) to the client
	worker := writeWorker(h, rule)
	if worker == nil {
		return
	}
	cb := clientCallbackParam(worker)
	for _, f := range regionOf(worker) {
		ir.Instrs(f, func(in ssa.Instruction) {
			call := ir.CallOf(in)
			if call == nil || !call.IsInvoke() || call.Method.Name() != "OnComplete" || ir.CanonX(call.Value) != ssa.Value(cb) {
				return
			}
			arg := ir.Canon(call.Args[0])
			ok := false
			detail := "the client is completed with " + ir.Describe(arg) + ", not with the response of ProcessWrite"
			var pw *ssa.Call
			if ex, isEx := arg.(*ssa.Extract); isEx {
				pw, _ = ex.Tuple.(*ssa.Call)
			}
			if pw == nil {
				// response kept in a cell assigned from ProcessWrite in the same closure
				ir.DependsOn(call.Args[0], func(v ssa.Value) bool {
					if c, isC := v.(*ssa.Call); isC && h.P.Matches(c.Common(), dbProcessWrite) {
						pw = c
						return true
					}
					return false
				})
			}
			if pw != nil && h.P.Matches(pw.Common(), dbProcessWrite) {
				// its request argument is the one produced for this invocation's offset
				req := ir.CanonX(argOf(pw.Common(), 0))
				if rc, isCall := req.(*ssa.Call); isCall && len(rc.Call.Args) == 1 {
					ok = true
					detail = "completed with the result of ProcessWrite(request built for this invocation)"
				} else if _, isParam := req.(*ssa.Parameter); isParam {
					ok = true
					detail = "completed with the result of ProcessWrite(request parameter)"
				} else {
					detail = "ProcessWrite is applied to " + ir.Describe(req) + ", not to the request of this invocation"
				}
			}
			h.Verdict(ok, rule, "client completion in "+ir.FuncName(f), h.pos(in), detail, detail)
		})
	}
}

func indexedFrom(v ssa.Value) *ssa.IndexAddr {
	c := ir.Canon(v)
	if u, ok := c.(*ssa.UnOp); ok && u.Op == token.MUL {
		if ia, ok := u.X.(*ssa.IndexAddr); ok {
			return ia
		}
	}
	return nil
}

func ruleR08d(h *H) {
	const rule = "R08d"
	h.Rule(rule, "K3", "the tracker's commitOffset is stored only by its constructor and by the commit-advance function, which is only called under the zero-acks guard or the ack-count guard; nextOffset only by the constructor and NextOffset", 4)
	qt := h.implType(rule, "server", "QuorumAckTracker")
	if qt == nil {
		return
	}
	tn := qt.Obj().Name()
	ctor := "server.NewQuorumAckTracker"
	var advance []*ssa.Function
	for name, ws := range writerNames(h.P.FieldWrites("server", tn, "commitOffset")) {
		if name == ctor {
			h.OK(rule, "commitOffset writer "+name, h.pos(ws[0].Instr), "constructor")
			continue
		}
		advance = append(advance, ws[0].Fn)
		h.Fn(name)
	}
	if len(advance) != 1 {
		h.Bad(rule, "commitOffset writers", "", fmt.Sprintf("%d functions besides the constructor store the commit offset; expected exactly the commit-advance function", len(advance)))
		return
	}
	adv := advance[0]
	// callers of the advance function
	for _, e := range h.P.CallersOf(adv) {
		if e.Site == nil {
			continue
		}
		caller := e.Caller.Func
		h.Fn(ir.FuncName(caller))
		name := "commit advance called from " + ir.FuncName(caller)
		okGuard := false
		detail := "the commit offset is advanced without the ack-count guard or the zero-required-acks guard"
		for _, g := range ir.CmpGuards(e.Site) {
			for _, cmp := range []ir.Cmp{g, g.Flip()} {
				if ir.LoadsField(stripConv(cmp.L), "server", tn, "requiredAcks") && cmp.Op == token.EQL && isZero(cmp.R) {
					okGuard, detail = true, "under requiredAcks == 0 (no followers required)"
				}
				if ir.LoadsField(stripConv(cmp.R), "server", tn, "requiredAcks") && isBitsetCount(stripConv(cmp.L)) && (cmp.Op == token.EQL || cmp.Op == token.GEQ) {
					okGuard, detail = true, "under ack count "+cmp.Op.String()+" requiredAcks"
				}
			}
		}
		h.Verdict(okGuard, rule, name, h.pos(e.Site), detail, detail)
	}
	for name, ws := range writerNames(h.P.FieldWrites("server", tn, "nextOffset")) {
		ok := name == ctor
		why := "constructor"
		if !ok {
			for _, w := range ws {
				if w.Kind == "atomic.Add" && isOne(w.Val) && h.P.FuncMatches(w.Fn, qatNextOffset) {
					ok, why = true, "NextOffset: Add(1)"
				}
			}
		}
		h.Verdict(ok, rule, "nextOffset writer "+name, h.pos(ws[0].Instr), why, name+" changes the offset allocator outside NextOffset/constructor")
	}
}

func ruleR08e(h *H) {
	const rule = "R08e"
	h.Rule(rule, "K6", "every callback handed to WaitForCommitOffsetAsync is a complete-once wrapper (concurrent.NewOnce); the tracker's Close fails the waiting requests", 2)
	for _, s := range h.P.AllCalls(ir.InPkg("server"), qatWaitAsync) {
		h.Fn(ir.FuncName(s.Fn))
		cb := argOf(s.Call.Common(), 2)
		c, ok := ir.Canon(throughFactory(cb)).(*ssa.Call)
		isOnce := ok && h.P.Matches(c.Common(), newOnce)
		h.Verdict(isOnce, rule, "WaitForCommitOffsetAsync callback in "+ir.FuncName(s.Fn), h.pos(s.Call), "concurrent.NewOnce(...)", "the commit callback is not a complete-once wrapper: it can be completed both by the commit and by Close")
	}
	for _, fn := range h.P.ImplMethods("server", "QuorumAckTracker", "Close") {
		h.Fn(ir.FuncName(fn))
		fails := false
		ir.Instrs(fn, func(in ssa.Instruction) {
			c := ir.CallOf(in)
			if c != nil && c.IsInvoke() && c.Method.Name() == "OnCompleteError" {
				if r, ok := ir.FieldLoadOf(ir.Canon(c.Value)); ok && r.Struct != nil {
					fails = true
				}
			}
		})
		h.Verdict(fails, rule, "Close fails waiting requests in "+ir.FuncName(fn), h.P.Pos(fn.Pos()), "waiting callbacks receive OnCompleteError", "Close does not fail the waiting commit callbacks: writers blocked on a closed tracker never complete")
	}
}
