package props

import (
	"fmt"
	"go/constant"
	"go/token"
	"go/types"
	"sort"
	"strings"

	"golang.org/x/tools/go/ssa"

	"oxiaverif/internal/chk"
	"oxiaverif/internal/ir"
)

func init() { register("C11", checkC11) }

const pebblePkg = "github.com/cockroachdb/pebble"

func checkC11(c *chk.Ctx) {
	h := newH(c)
	c.Decided = []string{
		"R11e list and range-scan hand the request's own bounds to the engine: no substituted end of range (under the slash order there is no key that closes the user key space)",
		"R11a every pebble.Comparer literal with a custom Compare pairs it with Separator/Successor functions that are order-agnostic by shape (return the lower key itself)",
		"R11b every ordering decision on keys outside the engine resolves to the slash comparator (heap Less methods, response selection, index walks); no bytewise string ordering of keys in the client/server packages",
		"R11c the comparator is antisymmetric: mirrored inputs give the negated result in every abstract case of its branch atoms",
		"R11d the comparison-type switch of the engine wrapper is exhaustive and each lookup has the bound/seek shape its semantics needs",
	}
	c.NotDec = []string{
		"transitivity / totality of the comparator beyond antisymmetry",
		"engine behaviour across flushes and compactions for every data set (R11a is the necessary condition Pebble documents, not a proof about Pebble)",
	}
	ruleR11a(h)
	ruleR11b(h)
	ruleR11c(h)
	ruleR11d(h)
	ruleR11e(h)
}

// isDefaultComparerField: v loads pebble.DefaultComparer.<field>
func isDefaultComparerField(v ssa.Value) (string, bool) {
	r, ok := ir.FieldLoadOf(ir.Canon(v))
	if !ok || r.Struct == nil || r.Struct.Obj().Pkg() == nil || !strings.HasPrefix(r.Struct.Obj().Pkg().Path(), pebblePkg) || r.Struct.Obj().Name() != "Comparer" {
		return "", false
	}
	return r.Field, true
}

// returnsFirstKey: every return of f is append(dst, a...) of its first two parameters and
// f calls nothing else.
func returnsFirstKey(f *ssa.Function) (bool, string) {
	if f == nil || f.Blocks == nil || len(f.Params) < 2 {
		return false, "not a function literal / declared function with (dst, a, ...) parameters"
	}
	why := ""
	ok := true
	rets := 0
	ir.Instrs(f, func(in ssa.Instruction) {
		switch x := in.(type) {
		case *ssa.Call:
			b, isB := x.Call.Value.(*ssa.Builtin)
			if !isB || b.Name() != "append" {
				ok, why = false, "calls "+describeCallee(x.Common())+": its result may not be ordered like the comparer"
			}
		case *ssa.Return:
			rets++
			v := ir.ReturnValues(x)[0]
			call, isCall := v.(*ssa.Call)
			if !isCall {
				ok, why = false, "returns "+ir.Describe(v)
				return
			}
			b, isB := call.Call.Value.(*ssa.Builtin)
			if !isB || b.Name() != "append" || len(call.Call.Args) != 2 || ir.Canon(call.Call.Args[0]) != ssa.Value(f.Params[0]) || ir.Canon(call.Call.Args[1]) != ssa.Value(f.Params[1]) {
				ok, why = false, "returns something other than append(dst, a...)"
			}
		}
	})
	if rets == 0 {
		return false, "no return"
	}
	return ok, why
}

func ruleR11a(h *H) {
	const rule = "R11a"
	h.Rule(rule, "K7", "pebble.Comparer literals: a non-bytewise Compare must come with Separator and Successor that are not Pebble's bytewise ones and are order-agnostic by shape", 2)
	// group the stores by comparer object
	type lit struct {
		fields map[string]ssa.Value
		pos    ssa.Instruction
		fn     *ssa.Function
	}
	lits := map[ssa.Value]*lit{}
	for _, f := range []string{"Compare", "Separator", "Successor", "AbbreviatedKey", "Name"} {
		for _, w := range append(h.P.FieldWrites(pebblePkg, "Comparer", f), h.P.FieldWrites(pebblePkg+"/internal/base", "Comparer", f)...) {
			fa, ok := w.Instr.(*ssa.Store)
			if !ok {
				continue
			}
			ref, ok := ir.FieldAddrOf(fa.Addr)
			if !ok {
				continue
			}
			l := lits[ref.Base]
			if l == nil {
				l = &lit{fields: map[string]ssa.Value{}, pos: w.Instr, fn: w.Fn}
				lits[ref.Base] = l
			}
			l.fields[f] = w.Val
		}
	}
	if len(lits) == 0 {
		h.Anchor(rule, "pebble.Comparer composite literal in the repository")
		return
	}
	var keys []ssa.Value
	for k := range lits {
		keys = append(keys, k)
	}
	sort.Slice(keys, func(i, j int) bool { return lits[keys[i]].pos.Pos() < lits[keys[j]].pos.Pos() })
	for i, k := range keys {
		l := lits[k]
		h.Fn(ir.FuncName(l.fn))
		name := fmt.Sprintf("Comparer literal #%d in %s", i+1, ir.RelPkg(ir.PkgPathOf(l.fn)))
		cmp := l.fields["Compare"]
		custom := false
		if cmp != nil {
			if _, isDefault := isDefaultComparerField(cmp); !isDefault {
				custom = true
			}
		}
		if !custom {
			h.OK(rule, name, h.pos(l.pos), "bytewise Compare: Pebble's defaults are coherent")
			continue
		}
		for _, f := range []string{"Separator", "Successor"} {
			v := l.fields[f]
			cname := name + ": " + f
			if v == nil {
				h.Bad(rule, cname, h.pos(l.pos), f+" is not set although Compare is custom: Pebble falls back to bytewise behaviour")
				continue
			}
			if fld, isDefault := isDefaultComparerField(v); isDefault {
				h.Bad(rule, cname, h.pos(l.pos), "Pebble's bytewise "+fld+" is combined with a custom Compare: the key it returns can sort after the upper key under the custom order (Pebble requires a <= Separator(a,b) < b), index blocks then route lookups to the wrong data block")
				continue
			}
			fn, _ := ir.Canon(v).(*ssa.Function)
			if fn == nil {
				if mc, isMC := ir.Canon(v).(*ssa.MakeClosure); isMC {
					fn, _ = mc.Fn.(*ssa.Function)
				}
			}
			ok, why := returnsFirstKey(fn)
			if ok {
				h.OK(rule, cname, h.pos(l.pos), "returns the lower key itself (valid under any order)")
			} else {
				h.Bad(rule, cname, h.pos(l.pos), f+" is not order-agnostic by shape ("+why+"); its result must satisfy a <= result < b under the custom Compare, which cannot be established statically")
			}
		}
		// AbbreviatedKey: keys containing the separator byte map to the maximum, others to the bytewise abbreviation
		if v := l.fields["AbbreviatedKey"]; v != nil {
			if _, isDefault := isDefaultComparerField(v); isDefault {
				h.Bad(rule, name+": AbbreviatedKey", h.pos(l.pos), "bytewise AbbreviatedKey with a custom Compare: abbreviations would order keys differently from Compare")
			} else if fn, isFn := ir.Canon(v).(*ssa.Function); isFn && fn.Blocks != nil {
				h.Fn(ir.FuncName(fn))
				good, why := abbreviatedKeyCoherent(fn)
				h.Verdict(good, rule, name+": AbbreviatedKey", h.pos(l.pos), "keys with '/' anywhere map to MaxUint64, keys without any '/' to the bytewise abbreviation",
					"the abbreviated key function is not coherent with the slash order: "+why)
			}
		}
	}
}

func ruleR11b(h *H) {
	h.Rule("R11b", "K6", "key-ordering decisions outside the engine use compare.CompareWithSlash: heap Less methods and the response selection of the client, the secondary-index walk of the server; no bytewise ordering of strings in those packages", 4)
	ruleR11bInto(h, "R11b")
}

func ruleR11bInto(h *H, rule string) {
	cmpSlash := ir.Callee{Pkg: "common/compare", Recv: "", Name: "CompareWithSlash"}
	// (1) Less methods in the client package
	n := 0
	for _, fn := range h.P.Funcs {
		pkg := ir.RelPkg(ir.PkgPathOf(fn))
		if fn.Parent() != nil || fn.Name() != "Less" || fn.Signature.Recv() == nil || !(pkg == "oxia" || strings.HasPrefix(pkg, "oxia/") || pkg == "server") {
			continue
		}
		n++
		h.Fn(ir.FuncName(fn))
		ok, _ := h.P.StaticReaches(fn, h.P.MatchPred(cmpSlash))
		h.Verdict(ok, rule, "ordering of "+ir.FuncName(fn), h.P.Pos(fn.Pos()), "uses CompareWithSlash", "a heap/sort ordering over keys does not use the slash comparator: merged results come out in a different order than the engine's")
	}
	if n == 0 {
		h.Anchor(rule, "Less method of the client's result heap")
	}
	// (2) no bytewise ordering of strings / byte slices in client + server packages (outside the comparator itself)
	type site struct {
		fn *ssa.Function
		in ssa.Instruction
		w  string
	}
	var sites []site
	for _, fn := range h.P.Funcs {
		pkg := ir.RelPkg(ir.PkgPathOf(fn))
		if !(pkg == "oxia" || pkg == "server" || pkg == "server/kv") {
			continue
		}
		ir.Instrs(fn, func(in ssa.Instruction) {
			switch x := in.(type) {
			case *ssa.BinOp:
				if x.Op == token.LSS || x.Op == token.GTR || x.Op == token.LEQ || x.Op == token.GEQ {
					if b, ok := x.X.Type().Underlying().(*types.Basic); ok && b.Info()&types.IsString != 0 {
						sites = append(sites, site{fn, in, "string " + x.Op.String()})
					}
				}
			case *ssa.Call:
				if f := x.Call.StaticCallee(); f != nil && f.Pkg != nil && f.Name() == "Compare" && (f.Pkg.Pkg.Path() == "strings" || f.Pkg.Pkg.Path() == "bytes") {
					sites = append(sites, site{fn, in, f.Pkg.Pkg.Path() + ".Compare"})
				}
			}
		})
	}
	for i, s := range sites {
		h.Bad(rule, fmt.Sprintf("bytewise ordering #%d in %s", i+1, ir.FuncName(s.fn)), h.pos(s.in), s.w+" orders strings bytewise in a package whose key order is the slash order")
	}
	if len(sites) == 0 {
		h.OK(rule, "no bytewise string ordering in oxia, server, server/kv", "", "0 sites")
	}
	// (3) the functions that pick among candidate keys call the comparator: response selection and index walk
	for _, spec := range [][2]string{{"oxia", "compareGetResponse"}, {"server", "doSecondaryGet"}} {
		fn := h.P.Func(spec[0], "", spec[1])
		if fn == nil {
			// discovered by role instead of name: any function in the package calling CompareWithSlash
			continue
		}
		h.Fn(ir.FuncName(fn))
	}
	users := 0
	for _, s := range h.P.AllCalls(ir.InPkg("oxia", "server"), cmpSlash) {
		users++
		h.OK(rule, "CompareWithSlash used in "+ir.FuncName(ir.Outermost(s.Fn)), h.pos(s.Call), "key comparison through the engine's comparator")
	}
	if users < 3 {
		h.Anchor(rule, fmt.Sprintf("uses of CompareWithSlash in the client and server packages (found %d, expected the heap, the response selection and the index walk)", users))
	}
}

// ---------------------------------------------------------------------------------
// R11c antisymmetry by exhaustive abstract evaluation

func ruleR11c(h *H) {
	const rule = "R11c"
	h.Rule(rule, "K12", "CompareWithSlash(a,b) == -CompareWithSlash(b,a) in every abstract case of its branch atoms (emptiness, presence of '/', span and whole-key byte order, remaining lengths)", 1)
	fn := h.fn(rule, "common/compare", "", "CompareWithSlash")
	if fn == nil {
		return
	}
	a, b := fn.Params[0], fn.Params[1]
	// root: which parameter a byte-slice value derives from (through phis and re-slicing)
	var root func(v ssa.Value, seen map[ssa.Value]bool) string
	root = func(v ssa.Value, seen map[ssa.Value]bool) string {
		if seen[v] {
			return ""
		}
		seen[v] = true
		switch x := v.(type) {
		case *ssa.Parameter:
			if x == a {
				return "A"
			}
			if x == b {
				return "B"
			}
		case *ssa.Slice:
			return root(x.X, seen)
		case *ssa.Extract:
			// before / after of bytes.Cut(key, sep) derive from key
			if c := cutCall(x); c != nil && x.Index < 2 {
				return root(c.Call.Args[0], seen)
			}
		case *ssa.Phi:
			r := ""
			for _, e := range x.Edges {
				if rr := root(e, seen); rr != "" {
					if r != "" && r != rr {
						return ""
					}
					r = rr
				}
			}
			return r
		}
		return ""
	}
	rootOf := func(v ssa.Value) string { return root(v, map[ssa.Value]bool{}) }
	isSpan := func(v ssa.Value) bool { // a[:idx], or the part before the separator returned by bytes.Cut
		if ex, ok := v.(*ssa.Extract); ok && ex.Index == 0 && cutCall(ex) != nil {
			return true
		}
		s, ok := v.(*ssa.Slice)
		return ok && s.High != nil && s.Low == nil
	}
	cls := func(v ssa.Value, path []*ssa.BasicBlock) string {
		if ex, ok := v.(*ssa.Extract); ok && ex.Index == 2 {
			if c := cutCall(ex); c != nil {
				if r := rootOf(c.Call.Args[0]); r != "" {
					return "hasSlash" + r
				}
			}
			return ""
		}
		if c, ok := v.(*ssa.Const); ok && c.Value != nil {
			if c.Int64() == 0 {
				return "0"
			}
			return ""
		}
		call, ok := v.(*ssa.Call)
		if !ok {
			return ""
		}
		if bi, isB := call.Call.Value.(*ssa.Builtin); isB && bi.Name() == "len" {
			if r := rootOf(call.Call.Args[0]); r != "" {
				return "len" + r
			}
			return ""
		}
		f := call.Call.StaticCallee()
		if f == nil || f.Pkg == nil || f.Pkg.Pkg.Path() != "bytes" {
			return ""
		}
		switch f.Name() {
		case "IndexByte":
			if r := rootOf(call.Call.Args[0]); r != "" {
				return "idx" + r
			}
		case "Compare":
			x, y := call.Call.Args[0], call.Call.Args[1]
			rx, ry := rootOf(x), rootOf(y)
			kind := "whole"
			if isSpan(x) && isSpan(y) {
				kind = "span"
			}
			if rx == "A" && ry == "B" {
				return kind + "AB"
			}
			if rx == "B" && ry == "A" {
				return kind + "BA"
			}
		}
		return ""
	}
	// loop header: the block both reached from the entry and by a back edge
	var header *ssa.BasicBlock
	for _, blk := range fn.Blocks {
		for _, p := range blk.Preds {
			if blk.Dominates(p) && header == nil {
				header = blk
			}
		}
	}
	signs := []int{-1, 0, 1}
	type outcome struct {
		kind string // "ret", "loop"
		val  int
	}
	eval := func(c ir.AbsCase) (outcome, string) {
		path, ok, why := ir.AbsWalk(fn.Blocks[0], nil, func(blk *ssa.BasicBlock) bool { return header != nil && blk == header }, cls, c)
		// the first arrival at the header is the loop entry: continue once more from it
		if ok && header != nil && path[len(path)-1] == header && countBlock(path, header) == 1 {
			path2, ok2, why2 := ir.AbsWalk(header, path[:len(path)-1], func(blk *ssa.BasicBlock) bool { return blk == header }, cls, c)
			path, ok, why = path2, ok2, why2
		}
		if !ok {
			return outcome{}, why
		}
		last := path[len(path)-1]
		if header != nil && last == header && countBlock(path, header) >= 2 {
			return outcome{kind: "loop"}, ""
		}
		ret, isRet := last.Instrs[len(last.Instrs)-1].(*ssa.Return)
		if !isRet {
			return outcome{}, "path does not end in a return"
		}
		v := ir.PhiAlong(ir.ReturnValues(ret)[0], path)
		if k, isK := v.(*ssa.Const); isK && k.Value != nil {
			s := 0
			if k.Int64() < 0 {
				s = -1
			} else if k.Int64() > 0 {
				s = 1
			}
			return outcome{"ret", s}, ""
		}
		// cmp.Compare(x, y): the sign of the order of its (classified) operands
		if call, isCall := v.(*ssa.Call); isCall {
			f := call.Call.StaticCallee()
			o := f
			if f != nil && f.Origin() != nil {
				o = f.Origin()
			}
			if o != nil && o.Pkg != nil && o.Pkg.Pkg.Path() == "cmp" && o.Name() == "Compare" && len(call.Call.Args) == 2 {
				x, y := cls(call.Call.Args[0], path), cls(call.Call.Args[1], path)
				if ord, has := c.Order[[2]string{x, y}]; has && x != "" && y != "" {
					return outcome{"ret", ord}, ""
				}
				if ord, has := c.Order[[2]string{y, x}]; has && x != "" && y != "" {
					return outcome{"ret", -ord}, ""
				}
				return outcome{}, "cmp.Compare over unclassified operands"
			}
		}
		n := cls(v, path)
		if n == "" {
			return outcome{}, "unclassified return value " + ir.Describe(v)
		}
		ord, has := c.Order[[2]string{n, "0"}]
		if !has {
			return outcome{}, "no sign for " + n
		}
		return outcome{"ret", ord}, ""
	}
	cases, asym := 0, 0
	firstBad := ""
	undec := ""
	for _, la := range []int{0, 1} { // len(a) == 0 / > 0
		for _, lb := range []int{0, 1} {
			for _, ia := range []int{-1, 1} { // idxA < 0 / >= 0
				for _, ib := range []int{-1, 1} {
					for _, whole := range signs {
						for _, span := range signs {
							for _, tail := range signs {
								mk := func(la, lb, ia, ib, whole, span, tail int) ir.AbsCase {
									return ir.AbsCase{Order: map[[2]string]int{
										{"lenA", "0"}: la, {"lenB", "0"}: lb, {"idxA", "0"}: ia, {"idxB", "0"}: ib,
										{"wholeAB", "0"}: whole, {"wholeBA", "0"}: -whole, {"spanAB", "0"}: span, {"spanBA", "0"}: -span,
										{"lenA", "lenB"}: tail,
									}, Bool: map[string]bool{"hasSlashA": ia > 0, "hasSlashB": ib > 0}}
								}
								cases++
								o1, w1 := eval(mk(la, lb, ia, ib, whole, span, tail))
								// mirrored call f(b,a): the code's "a" is now b
								o2, w2 := eval(mk(lb, la, ib, ia, -whole, -span, -tail))
								if w1 != "" || w2 != "" {
									if undec == "" {
										undec = w1 + w2
									}
									continue
								}
								okc := o1.kind == o2.kind && (o1.kind == "loop" || o1.val == -o2.val)
								if !okc {
									asym++
									if firstBad == "" {
										firstBad = fmt.Sprintf("case len(a)>0=%v len(b)>0=%v '/' in a=%v '/' in b=%v bytes.Compare(a,b)=%d span compare=%d len(a)?len(b)=%d: f(a,b)=%s%d but f(b,a)=%s%d",
											la == 1, lb == 1, ia > 0, ib > 0, whole, span, tail, o1.kind, o1.val, o2.kind, o2.val)
									}
								}
							}
						}
					}
				}
			}
		}
	}
	switch {
	case undec != "":
		h.Unknown(rule, "antisymmetry of "+ir.FuncName(fn), h.P.Pos(fn.Pos()), "the comparator's branches are not all comparisons over recognised atoms (refactored behind helpers?): "+undec)
	case asym > 0:
		h.Bad(rule, "antisymmetry of "+ir.FuncName(fn), h.P.Pos(fn.Pos()), fmt.Sprintf("%d of %d abstract cases are not mirror-symmetric, e.g. %s", asym, cases, firstBad))
	default:
		h.OK(rule, "antisymmetry of "+ir.FuncName(fn), h.P.Pos(fn.Pos()), fmt.Sprintf("%d abstract cases, all mirror-symmetric", cases))
	}
}

func countBlock(path []*ssa.BasicBlock, b *ssa.BasicBlock) int {
	n := 0
	for _, x := range path {
		if x == b {
			n++
		}
	}
	return n
}

// ---------------------------------------------------------------------------------

func ruleR11d(h *H) {
	const rule = "R11d"
	h.Rule(rule, "K7", "KV.Get: the comparison-type switch covers every declared ComparisonType; ceiling = lower bound + First; higher = lower bound + First + skip-equal; lower = upper bound + Last; floor = exact get, else lower", 5)
	for _, fn := range h.P.ImplMethods("server/kv", "KV", "Get") {
		h.Fn(ir.FuncName(fn))
		var ct *ssa.Parameter
		for _, p := range fn.Params {
			if ir.TypeIs(p.Type(), "server/kv", "ComparisonType") {
				ct = p
			}
		}
		if ct == nil {
			h.Anchor(rule, "ComparisonType parameter of "+ir.FuncName(fn))
			continue
		}
		// declared constants of the type
		declared := map[int64]string{}
		sc := h.P.Package("server/kv").Types.Scope()
		for _, nm := range sc.Names() {
			if c, ok := sc.Lookup(nm).(*types.Const); ok && ir.TypeIs(c.Type(), "server/kv", "ComparisonType") {
				if v, exact := constantInt64(c); exact {
					declared[v] = nm
				}
			}
		}
		handled := map[int64]*ssa.BasicBlock{}
		for e, c := range ir.EdgeCmps(fn) {
			for _, cc := range []ir.Cmp{c, c.Flip()} {
				if cc.Op == token.EQL && ir.Canon(cc.L) == ssa.Value(ct) {
					if k, ok := ir.Canon(cc.R).(*ssa.Const); ok && k.Value != nil {
						handled[k.Int64()] = e.To
					}
				}
			}
		}
		var missing []string
		for v, nm := range declared {
			if _, ok := handled[v]; !ok {
				missing = append(missing, nm)
			}
		}
		sort.Strings(missing)
		h.Verdict(len(missing) == 0 && len(declared) > 0, rule, "comparison switch of "+ir.FuncName(fn), h.P.Pos(fn.Pos()), fmt.Sprintf("all %d comparison types handled", len(declared)), "comparison types without a case: "+strings.Join(missing, ", "))
		// per case: the helper called in the case block
		helper := func(constName string) *ssa.Function {
			for v, nm := range declared {
				if nm != constName {
					continue
				}
				blk := handled[v]
				if blk == nil {
					return nil
				}
				var out *ssa.Function
				for _, in := range blk.Instrs {
					if c, ok := in.(*ssa.Call); ok {
						if f := c.Call.StaticCallee(); f != nil && ir.InRepo(f) {
							out = f
						}
					}
					// the case only selects a method value that is called after the switch
					if mc, ok := in.(*ssa.MakeClosure); ok {
						if f := ir.BoundMethod(mc); f != nil && ir.InRepo(f) {
							out = f
						}
					}
				}
				return out
			}
			return nil
		}
		shape := func(f *ssa.Function) (lower, upper, first, last, next, eqSkip bool, callsDbGet bool, callees []*ssa.Function) {
			if f == nil {
				return
			}
			ir.Instrs(f, func(in ssa.Instruction) {
				switch x := in.(type) {
				case *ssa.Store:
					if ref, ok := ir.FieldAddrOf(x.Addr); ok && ref.Struct != nil && ref.Struct.Obj().Name() == "IterOptions" {
						if ref.Field == "LowerBound" {
							lower = true
						}
						if ref.Field == "UpperBound" {
							upper = true
						}
					}
				case *ssa.Call:
					if c := x.Call.StaticCallee(); c != nil {
						switch c.Name() {
						case "First":
							first = true
						case "Last":
							last = true
						case "Next":
							next = true
							for _, g := range ir.CmpGuards(in) {
								if g.Op == token.EQL {
									eqSkip = true
								}
							}
						case "Get":
							if c.Pkg != nil && strings.HasPrefix(c.Pkg.Pkg.Path(), pebblePkg) {
								callsDbGet = true
							}
						}
						if ir.InRepo(c) {
							callees = append(callees, c)
						}
					}
				}
			})
			return
		}
		type want struct {
			c    string
			desc string
			ok   func(*ssa.Function) bool
		}
		wants := []want{
			{"ComparisonCeiling", "lower bound + First, no upper bound / Last", func(f *ssa.Function) bool {
				lo, up, fi, la, _, _, _, _ := shape(f)
				return lo && !up && fi && !la
			}},
			{"ComparisonHigher", "lower bound + First + skip of the equal key", func(f *ssa.Function) bool {
				lo, up, fi, la, nx, eq, _, _ := shape(f)
				return lo && !up && fi && !la && nx && eq
			}},
			{"ComparisonLower", "upper bound + Last, no lower bound / First", func(f *ssa.Function) bool {
				lo, up, fi, la, _, _, _, _ := shape(f)
				return up && !lo && la && !fi
			}},
			{"ComparisonFloor", "exact get first, otherwise the 'lower' lookup", func(f *ssa.Function) bool {
				_, _, _, _, _, _, dbGet, callees := shape(f)
				if !dbGet {
					return false
				}
				lowerFn := helper("ComparisonLower")
				for _, c := range callees {
					if c == lowerFn {
						return true
					}
				}
				lo, up, fi, la, _, _, _, _ := shape(f)
				return up && !lo && la && !fi
			}},
		}
		for _, w := range wants {
			f := helper(w.c)
			if f == nil {
				h.Unknown(rule, "lookup shape for "+w.c, h.P.Pos(fn.Pos()), "cannot find the helper called for this comparison type")
				continue
			}
			h.Fn(ir.FuncName(f))
			h.Verdict(w.ok(f), rule, "lookup shape for "+w.c+" ("+ir.FuncName(f)+")", h.P.Pos(f.Pos()), w.desc, "the lookup does not have the shape its semantics needs: "+w.desc)
		}
	}
}

func constantInt64(c *types.Const) (int64, bool) {
	s := c.Val().ExactString()
	var v int64
	_, err := fmt.Sscanf(s, "%d", &v)
	return v, err == nil
}

// abbreviatedKeyCoherent: every result of the abbreviated-key function is either the
// maximum (valid for any key: nothing sorts after it by abbreviation) or the bytewise
// abbreviation of the whole key, and the latter only where it is established that the
// *whole* key holds no separator byte (only there the slash order is the bytewise order).
func abbreviatedKeyCoherent(fn *ssa.Function) (bool, string) {
	if len(fn.Params) != 1 {
		return false, "unexpected signature"
	}
	key := fn.Params[0]
	isKey := func(v ssa.Value) bool { return ir.Canon(v) == ssa.Value(key) }
	// separator search over the whole key: IndexByte(key, '/') / Index / IndexRune / IndexAny
	isWholeKeySearch := func(v ssa.Value) (bool, string) {
		call, ok := ir.Canon(v).(*ssa.Call)
		if !ok {
			return false, ""
		}
		f := call.Call.StaticCallee()
		if f == nil || f.Pkg == nil || f.Pkg.Pkg.Path() != "bytes" || !strings.HasPrefix(f.Name(), "Index") || len(call.Call.Args) != 2 {
			return false, ""
		}
		if !isKey(call.Call.Args[0]) {
			return false, "the separator is searched in " + ir.Describe(call.Call.Args[0]) + ", not in the whole key: a key whose first '/' lies outside the searched part gets a bytewise abbreviation although it sorts after every key without '/'"
		}
		if c, ok := call.Call.Args[1].(*ssa.Const); ok && c.Value != nil && c.Value.Kind() == constant.Int && c.Int64() == '/' {
			return true, ""
		}
		return false, "the searched byte is not the separator"
	}
	nRet, nDefault := 0, 0
	res, why := true, ""
	fail := func(w string) {
		if res {
			res, why = false, w
		}
	}
	ir.Instrs(fn, func(in ssa.Instruction) {
		r, ok := in.(*ssa.Return)
		if !ok {
			return
		}
		nRet++
		v := ir.Canon(ir.ReturnValues(r)[0])
		if c, ok := v.(*ssa.Const); ok {
			if c.Value == nil || c.Uint64() != ^uint64(0) {
				fail("a constant other than MaxUint64 is returned")
			}
			return
		}
		call, ok := v.(*ssa.Call)
		if !ok {
			fail("a result is neither MaxUint64 nor the bytewise abbreviation (" + ir.Describe(v) + ")")
			return
		}
		if fld, isD := isDefaultComparerField(call.Call.Value); !isD || fld != "AbbreviatedKey" {
			fail("a result is computed by " + describeCallee(call.Common()) + ", whose order cannot be related to the slash order")
			return
		}
		nDefault++
		if len(call.Call.Args) != 1 || !isKey(call.Call.Args[0]) {
			fail("the bytewise abbreviation is taken of " + ir.Describe(call.Call.Args[0]) + ", not of the key")
			return
		}
		guarded, gwhy := false, "the bytewise abbreviation is returned without establishing that the key holds no '/'"
		for _, g := range ir.CmpGuards(r) {
			for _, c := range []ir.Cmp{g, g.Flip()} {
				isSearch, w := isWholeKeySearch(c.L)
				if w != "" {
					gwhy = w
				}
				if !isSearch {
					continue
				}
				k, isC := ir.Canon(c.R).(*ssa.Const)
				if !isC || k.Value == nil {
					continue
				}
				if (c.Op == token.EQL && k.Int64() == -1) || (c.Op == token.LSS && k.Int64() == 0) || (c.Op == token.LEQ && k.Int64() == -1) {
					guarded = true
				}
			}
		}
		if !guarded {
			fail(gwhy)
		}
	})
	if nRet == 0 {
		return false, "no return found"
	}
	return res, why
}

// cutCall: ex is a result of bytes.Cut(s, sep).
func cutCall(ex *ssa.Extract) *ssa.Call {
	c, ok := ex.Tuple.(*ssa.Call)
	if !ok {
		return nil
	}
	f := c.Call.StaticCallee()
	if f == nil || f.Pkg == nil || f.Pkg.Pkg.Path() != "bytes" || f.Name() != "Cut" || len(c.Call.Args) != 2 {
		return nil
	}
	return c
}

// ruleR11e: DB.List and DB.RangeScan scan exactly [StartInclusive, EndExclusive) of the
// request. An open end is an open end: under the hierarchical order user keys lie on both
// sides of every "sentinel" one might substitute for it, so a replaced bound silently
// drops keys that exact gets and floor/ceiling lookups still see.
func ruleR11e(h *H) {
	const rule = "R11e"
	h.Rule(rule, "K6", "the bounds DB.List / DB.RangeScan pass to the KV range scans are the request's StartInclusive / EndExclusive fields themselves", 2)
	n := 0
	for _, m := range []struct{ method, msg string }{{"List", "ListRequest"}, {"RangeScan", "RangeScanRequest"}} {
		for _, root := range h.P.ImplMethods("server/kv", "DB", m.method) {
			restore := bindRegion(root)
			for _, fn := range helperFuncs(root) {
				h.Fn(ir.FuncName(fn))
				for _, c := range h.P.CallsIn(fn, ir.Callee{Pkg: "server/kv", Recv: "KV", Name: "KeyRangeScan"}, ir.Callee{Pkg: "server/kv", Recv: "KV", Name: "RangeScan"}, ir.Callee{Pkg: "server/kv", Recv: "KV", Name: "KeyRangeScanReverse"}) {
					n++
					lo, hi := argOf(c.Common(), 0), argOf(c.Common(), 1)
					ok := isMsgField(lo, m.msg, "StartInclusive") && isMsgField(hi, m.msg, "EndExclusive")
					h.Verdict(ok, rule, fmt.Sprintf("scan bounds of DB.%s", m.method), h.pos(c), "request.StartInclusive / request.EndExclusive", "the range handed to the engine is not the request's own [StartInclusive, EndExclusive): keys inside the requested range can be left out (or keys outside it returned) although exact gets still find them")
				}
			}
			restore()
		}
	}
	if n == 0 {
		h.Anchor(rule, "KV range scans in the DB.List / DB.RangeScan implementations")
	}
}
