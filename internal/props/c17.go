package props

import (
	"fmt"
	"go/token"
	"go/types"
	"sort"
	"strings"

	"golang.org/x/tools/go/ssa"

	"oxiaverif/internal/chk"
	"oxiaverif/internal/ir"
)

func init() { register("C17", checkC17) }

var (
	dbEnableNotif  = ir.Callee{Pkg: "server/kv", Recv: "DB", Name: "EnableNotifications"}
	dbReadTerm     = ir.Callee{Pkg: "server/kv", Recv: "DB", Name: "ReadTerm"}
	dbReadNextNotf = ir.Callee{Pkg: "server/kv", Recv: "DB", Name: "ReadNextNotifications"}
)

func checkC17(c *chk.Ctx) {
	h := newH(c)
	c.Decided = []string{
		"R17k a reconnecting subscriber sends the position it was given whenever it has one (also -1, the position on an empty shard)",
		"R17j the notification names the same record key as the batch write, on every path of the put",
		"R17i the reader scans from the resume offset to the END of the notification key space: the upper bound does not depend on the start offset (stored batches have holes: trimmed prefixes, periods with notifications disabled)",
		"R17a the notification batch of a request is written into the request's own write batch before the commit and carries the request's offset (shared with C07)",
		"R17b every insertion into a notification batch is guarded by the internal-key-prefix test of the inserted key",
		"R17c readers are woken (UpdatedCommitOffset) only after the batch was committed",
		"R17d the notification key is fixed-width zero-padded hex so that key order is offset order; the scan format derives from the same prefix; the dispatcher resumes at last delivered offset + 1 and the initial dummy batch carries the commit offset it resumes from",
		"R17e the client maps every notification type",
		"R17h the client asks to resume after the last offset it received whenever it has received one: the request's start offset can only be absent while the stored last offset cannot be a real offset (evaluated for offsets 0, 1, 7, 2^40)",
		"R17g retention trimming deletes notification batches only up to an offset found by a search that starts at an offset whose timestamp was read and found expired",
		"R17f notifications are switched on/off with exactly the options that were just persisted with the term (or read back at start-up)",
	}
	c.NotDec = []string{
		"completeness of the batch contents for every write (value-level)",
		"retention timing; resumption across leaders beyond the offset arithmetic",
	}
	ruleR07a(h, "R17a")
	ruleR17aOffset(h)
	ruleR17b(h)
	ruleR17c(h)
	ruleR17d(h)
	ruleR17e(h)
	ruleR17f(h)
	ruleR17g(h)
	ruleR17h(h)
	ruleR17i(h)
	ruleRecordKeyAgreement(h, "R17j")
	ruleResumePositionNotBySign(h, "R17k")
}

func ruleR17aOffset(h *H) {
	const rule = "R17o"
	h.Rule(rule, "K6", "the Offset and Timestamp stored in a new NotificationBatch are the commit offset and timestamp handed to ProcessWrite", 1)
	n := 0
	for _, w := range h.P.FieldWrites("proto", "NotificationBatch", "Offset") {
		if ir.RelPkg(ir.PkgPathOf(w.Fn)) != "server/kv" || w.Val == nil {
			continue
		}
		n++
		h.Fn(ir.FuncName(w.Fn))
		// value is a parameter of the constructor; follow it to the callers up to ProcessWrite's parameter
		ok := false
		detail := ir.Describe(w.Val)
		if p, isP := ir.Canon(w.Val).(*ssa.Parameter); isP {
			isCommitParam := func(v ssa.Value) bool {
				q, isQ := v.(*ssa.Parameter)
				return isQ && q.Type().String() == "int64" && (h.P.FuncMatches(q.Parent(), dbProcessWrite) || q.Name() == "commitOffset")
			}
			ok2, why := paramFlowsFrom(h, p.Parent(), paramIndex(p), isCommitParam, 0)
			ok, detail = ok2, why
		}
		h.Verdict(ok, rule, "NotificationBatch.Offset in "+ir.FuncName(w.Fn), h.pos(w.Instr), "the request's commit offset", "a notification batch is stamped with "+detail+" instead of the offset of the request that produced it")
	}
	if n == 0 {
		h.Anchor(rule, "store to NotificationBatch.Offset in server/kv")
	}
}

func ruleR17b(h *H) {
	const rule = "R17b"
	h.Rule(rule, "K1", "every insertion into NotificationBatch.Notifications in server/kv is guarded by !strings.HasPrefix(key, internal prefix) for the inserted key", 1)
	n := 0
	for _, fn := range h.P.Funcs {
		if ir.RelPkg(ir.PkgPathOf(fn)) != "server/kv" {
			continue
		}
		ir.Instrs(fn, func(in ssa.Instruction) {
			mu, ok := in.(*ssa.MapUpdate)
			if !ok {
				return
			}
			r, isField := ir.FieldLoadOf(ir.Canon(mu.Map))
			if !isField || !r.Is("proto", "NotificationBatch", "Notifications") {
				return
			}
			n++
			h.Fn(ir.FuncName(fn))
			good := false
			for _, g := range ir.Guards(in) {
				cond, taken := g.Cond, g.Taken
				for {
					if u, isU := cond.(*ssa.UnOp); isU && u.Op == token.NOT {
						cond, taken = u.X, !taken
						continue
					}
					break
				}
				call, isCall := cond.(*ssa.Call)
				if !isCall || taken {
					continue
				}
				f := call.Call.StaticCallee()
				if f == nil || f.Name() != "HasPrefix" || f.Pkg == nil || f.Pkg.Pkg.Path() != "strings" {
					continue
				}
				pref, isConst := call.Call.Args[1].(*ssa.Const)
				if !isConst || pref.Value == nil || !strings.HasPrefix(constString(pref), "__oxia") {
					continue
				}
				if ir.Canon(call.Call.Args[0]) == ir.Canon(mu.Key) {
					good = true
				}
			}
			h.Verdict(good, rule, fmt.Sprintf("notification insertion #%d in %s", n, ir.FuncName(fn)), h.pos(in), "guarded by the internal-prefix test of the inserted key", "a key can be added to a notification batch without the internal-key test: internal keys (sessions, indexes, commit offset) would be delivered to subscribers")
		})
	}
	if n == 0 {
		h.Anchor(rule, "insertions into NotificationBatch.Notifications")
	}
}

func ruleR17c(h *H) {
	const rule = "R17c"
	h.Rule(rule, "K1", "the notification tracker's offset is advanced (UpdatedCommitOffset) only after a successful batch Commit", 1)
	n := 0
	for _, root := range applyRoots(h, rule) {
		cl := h.P.Closure([]*ssa.Function{root}, applyDescend)
		for f := range cl {
			if f.Blocks == nil {
				continue
			}
			ir.Instrs(f, func(in ssa.Instruction) {
				c := ir.CallOf(in)
				if c == nil {
					return
				}
				sf := c.StaticCallee()
				if sf == nil || sf.Name() != "UpdatedCommitOffset" {
					return
				}
				n++
				h.Fn(ir.FuncName(f))
				ok := false
				why := "not in the function that commits the batch"
				for _, cm := range h.P.CallsIn(f, batchCommit) {
					if sd, w, _ := ir.SuccessDominated(cm, in); sd {
						ok = true
					} else {
						why = w
					}
				}
				h.Verdict(ok, rule, "readers woken after commit in "+ir.FuncName(f), h.pos(in), "success-dominated by Commit", "subscribers are told about an offset before its batch is committed (they would read a notification for an uncommitted request, or miss it): "+why)
			})
		}
	}
	if n == 0 {
		h.Anchor(rule, "UpdatedCommitOffset call reachable from ProcessWrite")
	}
}

func ruleR17d(h *H) {
	const rule = "R17d"
	h.Rule(rule, "K7", "notification keys: <prefix>/%016x (fixed width, zero padded); the scan format is the same prefix; the dispatcher asks for offset+1 where offset is the last delivered batch's offset, starting from the commit offset announced in the dummy batch", 4)
	// (1) key format
	var keyFmt, scanFmt []string
	for _, fn := range h.P.Funcs {
		if ir.RelPkg(ir.PkgPathOf(fn)) != "server/kv" {
			continue
		}
		ir.Instrs(fn, func(in ssa.Instruction) {
			c := ir.CallOf(in)
			if c == nil {
				return
			}
			f := c.StaticCallee()
			if f == nil || f.Pkg == nil || f.Pkg.Pkg.Path() != "fmt" || len(c.Args) == 0 {
				return
			}
			k, ok := c.Args[0].(*ssa.Const)
			if !ok || k.Value == nil {
				return
			}
			s := constString(k)
			if f.Name() == "Sprintf" && strings.Contains(s, "%") && strings.Contains(s, "x") {
				// Sprintf("%s/%016x", prefix, offset) or Sprintf("%s/%%016x", prefix)
				var pre string
				if al := sliceArg(c.Args[1]); len(al) > 0 {
					if pk, ok := al[0].(*ssa.Const); ok && pk.Value != nil {
						pre = constString(pk)
					}
				}
				if strings.Contains(pre, "notifications") {
					keyFmt = append(keyFmt, strings.Replace(strings.Replace(s, "%%", "%", 1), "%s", pre, 1))
				} else if strings.Contains(s, "notifications") {
					// the prefix is already part of a composed constant format
					keyFmt = append(keyFmt, strings.Replace(s, "%%", "%", 1))
				}
			}
			if (f.Name() == "Sscanf" || f.Name() == "Sscan") && len(c.Args) > 1 {
				if k2, ok := c.Args[1].(*ssa.Const); ok && k2.Value != nil && strings.Contains(constString(k2), "notifications") {
					keyFmt = append(keyFmt, constString(k2))
				}
			}
		})
	}
	sort.Strings(keyFmt)
	if len(keyFmt) == 0 {
		h.Anchor(rule, "the Sprintf building notification keys")
	}
	seenFmt := map[string]bool{}
	for _, f := range keyFmt {
		if seenFmt[f] {
			continue
		}
		seenFmt[f] = true
		ok := strings.HasSuffix(f, "/%016x") || strings.HasSuffix(f, "/%016X")
		h.Verdict(ok, rule, fmt.Sprintf("notification key format %q", f), "", "fixed-width zero-padded hex: lexicographic order is offset order", "notification keys are not fixed-width zero-padded hex: the ordered scan does not return batches in offset order (and the scan format would not parse them)")
	}
	_ = scanFmt
	h.Verdict(len(seenFmt) == 1, rule, "one notification key layout", "", "writer and scanner use the same layout", fmt.Sprintf("writer and scanner use %d different key layouts: %v", len(seenFmt), keyFmt))
	// (2) dispatcher arithmetic
	n := 0
	for _, s := range h.P.AllCalls(ir.InPkg("server"), dbReadNextNotf) {
		n++
		h.Fn(ir.FuncName(s.Fn))
		arg := argOf(s.Call.Common(), 1)
		bo, ok := ir.Canon(arg).(*ssa.BinOp)
		okArith := ok && bo.Op == token.ADD && isOne(bo.Y)
		var cell *ssa.Alloc
		if okArith {
			if u, isU := bo.X.(*ssa.UnOp); isU && u.Op == token.MUL {
				if al, isAl := cellOfValue(u.X); isAl {
					cell = al
				}
			}
		}
		h.Verdict(okArith, rule, "dispatcher asks for the next offset in "+ir.FuncName(s.Fn), h.pos(s.Call), "ReadNextNotifications(offset+1)", "the dispatcher reads from "+ir.Describe(arg)+": a batch is delivered twice or skipped when a subscriber resumes")
		if cell == nil && okArith {
			// the position is a loop-carried local: inspect the values flowing into it
			seenV := map[ssa.Value]bool{}
			var visit func(v ssa.Value, d int)
			i := 0
			visit = func(v ssa.Value, d int) {
				if pv, isParam := v.(*ssa.Parameter); isParam {
					// the dispatch loop was extracted: continue with the value its only caller passes
					if a := ir.ParamArg(pv); a != nil {
						v = a
					}
				}
				if seenV[v] || d > 6 {
					return
				}
				seenV[v] = true
				if phi, isPhi := v.(*ssa.Phi); isPhi {
					for _, e := range phi.Edges {
						visit(e, d+1)
					}
					return
				}
				i++
				name := fmt.Sprintf("dispatcher position source #%d in %s", i, ir.FuncName(s.Fn))
				if isMsgField(v, "NotificationBatch", "Offset") {
					good := false
					vi, _ := v.(ssa.Instruction)
					ir.Instrs(s.Fn, func(in ssa.Instruction) {
						c, isCall := in.(ssa.CallInstruction)
						if !isCall || !c.Common().IsInvoke() || c.Common().Method.Name() != "OnNext" || vi == nil {
							return
						}
						if sd, _, _ := ir.SuccessDominated(c, vi); sd {
							good = true
						}
					})
					h.Verdict(good, rule, name, h.pos(s.Call), "Offset of a batch that was delivered successfully", "the resume position advances to a batch that was not delivered")
					return
				}
				okInit := ir.DependsOn(v, func(x ssa.Value) bool {
					return isMsgField(x, "NotificationsRequest", "StartOffsetExclusive") || isCallResultOf(h, x, ir.Callee{Pkg: "server", Recv: "QuorumAckTracker", Name: "CommitOffset"})
				})
				h.Verdict(okInit, rule, name, h.pos(s.Call), "initial position: the client's last seen offset or the announced commit offset", "the dispatcher position is fed from "+ir.Describe(v))
			}
			visit(bo.X, 0)
			continue
		}
		if cell == nil {
			continue
		}
		// stores to the offset variable: the initial exclusive offset or the Offset of a delivered batch
		for i, st := range ir.AllStores(cell) {
			v := ir.Canon(st.Val)
			name := fmt.Sprintf("dispatcher offset update #%d in %s", i+1, ir.FuncName(st.Parent()))
			switch {
			case isMsgField(v, "NotificationBatch", "Offset"):
				// must follow a successful delivery (OnNext) of that batch
				good := false
				ir.Instrs(st.Parent(), func(in ssa.Instruction) {
					c, isCall := in.(ssa.CallInstruction)
					if !isCall || !c.Common().IsInvoke() || c.Common().Method.Name() != "OnNext" {
						return
					}
					if sd, _, _ := ir.SuccessDominated(c, st); sd {
						good = true
					}
				})
				h.Verdict(good, rule, name, h.pos(st), "Offset of the batch that was just delivered", "the resume position advances although the batch was not delivered")
			default:
				// initial value: the request's StartOffsetExclusive or the announced commit offset
				okInit := ir.DependsOn(st.Val, func(x ssa.Value) bool {
					return isMsgField(x, "NotificationsRequest", "StartOffsetExclusive") || isCallResultOf(h, x, ir.Callee{Pkg: "server", Recv: "QuorumAckTracker", Name: "CommitOffset"})
				})
				h.Verdict(okInit, rule, name, h.pos(st), "initial position: the client's last seen offset or the announced commit offset", "the dispatcher starts from "+ir.Describe(st.Val))
			}
		}
	}
	if n == 0 {
		h.Anchor(rule, "ReadNextNotifications call of the dispatcher")
	}
	// (3) the dummy batch carries the commit offset that becomes the start position
	for _, fn := range h.P.ImplMethods("server", "LeaderController", "GetNotifications") {
		found := false
		ir.Instrs(fn, func(in ssa.Instruction) {
			al, ok := in.(*ssa.Alloc)
			if !ok || !ir.TypeIs(al.Type(), "proto", "NotificationBatch") {
				return
			}
			off := compositeFieldValue(al, "Offset")
			if off != nil && isCallResultOf(h, off, ir.Callee{Pkg: "server", Recv: "QuorumAckTracker", Name: "CommitOffset"}) {
				found = true
			}
		})
		h.Verdict(found, rule, "initial dummy batch in "+ir.FuncName(fn), h.P.Pos(fn.Pos()), "carries the tracker's commit offset", "the initial batch sent to a new subscriber does not carry the commit offset it will resume from")
	}
}

func cellOfValue(v ssa.Value) (*ssa.Alloc, bool) {
	switch a := v.(type) {
	case *ssa.Alloc:
		return a, true
	case *ssa.FreeVar:
		fn := a.Parent()
		sites := ir.ClosureSites(fn)
		if len(sites) == 1 {
			for i, fv := range fn.FreeVars {
				if fv == a {
					return cellOfValue(sites[0].Bindings[i])
				}
			}
		}
	}
	return nil, false
}

func sliceArg(v ssa.Value) []ssa.Value {
	sl, ok := v.(*ssa.Slice)
	if !ok {
		return nil
	}
	al, ok := sl.X.(*ssa.Alloc)
	if !ok || al.Referrers() == nil {
		return nil
	}
	type ent struct {
		idx int64
		v   ssa.Value
	}
	var es []ent
	for _, r := range *al.Referrers() {
		ia, ok := r.(*ssa.IndexAddr)
		if !ok || ia.Referrers() == nil {
			continue
		}
		k, _ := ia.Index.(*ssa.Const)
		for _, rr := range *ia.Referrers() {
			if st, ok := rr.(*ssa.Store); ok && k != nil {
				val := st.Val
				if mi, isMI := val.(*ssa.MakeInterface); isMI {
					val = mi.X
				}
				es = append(es, ent{k.Int64(), val})
			}
		}
	}
	sort.Slice(es, func(i, j int) bool { return es[i].idx < es[j].idx })
	var out []ssa.Value
	for _, e := range es {
		out = append(out, e.v)
	}
	return out
}

func ruleR17e(h *H) {
	const rule = "R17e"
	h.Rule(rule, "K7", "the client's notification type conversion handles every proto.NotificationType", 1)
	declared := map[int64]string{}
	sc := h.P.Package("proto").Types.Scope()
	for _, nm := range sc.Names() {
		if c, ok := sc.Lookup(nm).(*types.Const); ok && ir.TypeIs(c.Type(), "proto", "NotificationType") {
			if v, exact := constantInt64(c); exact {
				declared[v] = nm
			}
		}
	}
	n := 0
	for _, fn := range h.P.Funcs {
		if ir.RelPkg(ir.PkgPathOf(fn)) != "oxia" || fn.Parent() != nil || len(fn.Params) != 1 || !ir.TypeIs(fn.Params[0].Type(), "proto", "NotificationType") {
			continue
		}
		n++
		h.Fn(ir.FuncName(fn))
		handled := map[int64]bool{}
		for _, c := range ir.EdgeCmps(fn) {
			for _, cc := range []ir.Cmp{c, c.Flip()} {
				if cc.Op == token.EQL && ir.Canon(cc.L) == ssa.Value(fn.Params[0]) {
					if k, ok := ir.Canon(cc.R).(*ssa.Const); ok && k.Value != nil {
						handled[k.Int64()] = true
					}
				}
			}
		}
		var missing []string
		for v, nm := range declared {
			if !handled[v] {
				missing = append(missing, nm)
			}
		}
		sort.Strings(missing)
		h.Verdict(len(missing) == 0 && len(declared) > 0, rule, "notification type mapping in "+ir.FuncName(fn), h.P.Pos(fn.Pos()), fmt.Sprintf("%d types mapped", len(declared)), "notification types without a mapping: "+strings.Join(missing, ", "))
	}
	if n == 0 {
		h.Anchor(rule, "the client's conversion function over proto.NotificationType")
	}
}

func ruleR17f(h *H) {
	const rule = "R17f"
	h.Rule(rule, "K6", "every DB.EnableNotifications call of the server passes the NotificationsEnabled flag of the very options value that was persisted by the preceding successful UpdateTerm, or that ReadTerm returned", 4)
	n := 0
	for _, s := range h.P.AllCalls(ir.InPkg("server"), dbEnableNotif) {
		n++
		h.Fn(ir.FuncName(s.Fn))
		name := fmt.Sprintf("EnableNotifications in %s", ir.FuncName(s.Fn))
		arg := argOf(s.Call.Common(), 0)
		r, ok := ir.FieldLoadOf(ir.Canon(arg))
		if !ok || !r.Is("server/kv", "TermOptions", "NotificationsEnabled") {
			h.Bad(rule, name, h.pos(s.Call), "notifications are switched with "+ir.Describe(arg)+", not with the NotificationsEnabled flag of the term options")
			continue
		}
		base := r.Base // address or value of the TermOptions
		good := false
		why := "no persisted / loaded term options value is related to the flag that is used"
		// (i) UpdateTerm in this function
		for _, u := range h.P.CallsIn(s.Fn, dbUpdateTerm) {
			opt := argOf(u.Common(), 1)
			if !sameOptions(base, opt) {
				why = "the flag comes from a different options value than the one that was persisted with the term (stale options)"
				continue
			}
			if sd, w, _ := ir.SuccessDominated(u, s.Call); !sd {
				why = w
				continue
			}
			// no re-assignment of that options field between the two calls
			if fr, isF := ir.FieldAddrOf(base); isF {
				reassigned := false
				for _, w := range h.fieldStores(s.Fn, false, ir.RelPkg(fr.Struct.Obj().Pkg().Path()), fr.Struct.Obj().Name(), fr.Field) {
					r1, _ := ir.Reach(ir.Search{From: u, Barrier: ir.Is(s.Call)}, ir.Is(w.Instr))
					if r1 {
						reassigned = true
					}
				}
				if reassigned {
					why = "the options field is re-assigned between persisting and enabling"
					continue
				}
			}
			good = true
		}
		// (ii') the options value ReadTerm returned, used directly from a local
		if !good {
			src := ir.Canon(base)
			if al, isAl := src.(*ssa.Alloc); isAl {
				if sts := ir.AllStores(al); len(sts) == 1 {
					src = ir.Canon(sts[0].Val)
				}
			}
			if ex, isEx := src.(*ssa.Extract); isEx {
				if call, isCall := ex.Tuple.(*ssa.Call); isCall && h.P.Matches(call.Common(), dbReadTerm) && call.Parent() == s.Fn {
					if sd, _, _ := ir.SuccessDominated(call, s.Call); sd {
						good = true
					}
				}
			}
		}
		// (ii) ReadTerm result stored into the same options field in this function
		if !good {
			for _, rt := range h.P.CallsIn(s.Fn, dbReadTerm) {
				if fr, isF := ir.FieldAddrOf(base); isF {
					for _, w := range h.fieldStores(s.Fn, false, ir.RelPkg(fr.Struct.Obj().Pkg().Path()), fr.Struct.Obj().Name(), fr.Field) {
						if ex, isEx := ir.Canon(w.Val).(*ssa.Extract); isEx && ex.Tuple == rt.Value() && ir.Dominates(w.Instr, s.Call) {
							good = true
						}
					}
				}
			}
		}
		h.Verdict(good, rule, name, h.pos(s.Call), "flag of the options just persisted / read back", "notifications are switched on/off with options that are not the ones stored with the current term: "+why+" (a node then records, or fails to record, notification batches differently from its peers)")
	}
	if n == 0 {
		h.Anchor(rule, "DB.EnableNotifications calls in package server")
	}
}

// sameOptions: `base` (address of / value of a TermOptions) and `opt` (the value passed
// to UpdateTerm) denote the same options object.
func sameOptions(base, opt ssa.Value) bool {
	if ir.SameExpr(base, opt) {
		return true
	}
	// base is &x.termOptions, opt is *(&x.termOptions)
	if u, ok := ir.Canon(opt).(*ssa.UnOp); ok && u.Op == token.MUL {
		fa1, ok1 := ir.FieldAddrOf(u.X)
		fa2, ok2 := ir.FieldAddrOf(base)
		if ok1 && ok2 && fa1.Struct == fa2.Struct && fa1.Field == fa2.Field && ir.SameExpr(fa1.Base, fa2.Base) {
			return true
		}
	}
	return false
}

// ruleR17g: the notification trimmer deletes [first, trim] where trim is the result of a
// search over the stored offsets. The search keeps "everything up to its lower bound has
// expired" as its invariant and returns the lower bound when nothing above it has
// expired, so the bound it is started with must itself be an offset whose timestamp was
// read and found expired. Starting it anywhere else deletes a batch that is still
// within the retention time.
func ruleR17g(h *H) {
	const rule = "R17g"
	h.Rule(rule, "K6", "in the notifications trimmer the lower bound handed to the expiry search is the very offset whose timestamp was read (and compared with the cutoff) before", 1)
	delRange := ir.Callee{Pkg: "server/kv", Recv: "WriteBatch", Name: "DeleteRange"}
	n := 0
	for _, fn := range h.P.Funcs {
		if fn.Parent() != nil || ir.RelPkg(ir.PkgPathOf(fn)) != "server/kv" || fn.Signature.Recv() == nil {
			continue
		}
		dels := h.P.CallsIn(fn, delRange)
		if len(dels) == 0 {
			continue
		}
		// a time-stamp read: static callee of the same receiver type returning (time.Time, error)
		isTsRead := func(c *ssa.CallCommon) bool {
			f := c.StaticCallee()
			if f == nil || f.Signature.Results().Len() != 2 {
				return false
			}
			return f.Signature.Results().At(0).Type().String() == "time.Time"
		}
		var reads []*ssa.Call
		ir.Instrs(fn, func(in ssa.Instruction) {
			if c, ok := in.(*ssa.Call); ok && isTsRead(c.Common()) {
				reads = append(reads, c)
			}
		})
		if len(reads) == 0 {
			continue
		}
		// the search: a static call of a method of the same type taking (int64, int64, time.Time)
		ir.Instrs(fn, func(in ssa.Instruction) {
			c, ok := in.(*ssa.Call)
			if !ok {
				return
			}
			f := c.Call.StaticCallee()
			if f == nil || f.Signature.Recv() == nil || f.Signature.Params().Len() != 3 || f.Signature.Params().At(2).Type().String() != "time.Time" {
				return
			}
			n++
			h.Fn(ir.FuncName(fn))
			lo := argOf(c.Common(), 0)
			good := false
			for _, r := range reads {
				if ir.Dominates(r, c) && ir.Canon(argOf(r.Common(), 0)) == ir.Canon(lo) {
					good = true
				}
			}
			h.Verdict(good, rule, fmt.Sprintf("expiry search #%d in %s", n, ir.FuncName(fn)), h.pos(in), "starts at the offset whose timestamp was read before",
				"the search for the trim point starts at "+ir.Describe(lo)+", an offset whose timestamp was not read: when nothing above it has expired the search returns it unchecked and a batch that is still within the retention time is deleted")
		})
	}
	if n == 0 {
		h.Anchor(rule, "the expiry search call in the notifications trimmer")
	}
}

// ruleR17h: a subscriber that reconnects (leader change, broken stream) sends the offset
// of the last batch it received; the leader then replays everything after it. Without a
// start offset the leader positions the subscriber at its current commit offset, i.e. all
// batches committed while the stream was down are skipped. Offsets start at 0, so the
// start offset may only be left out while the stored value is not an offset (>= 0).
func ruleR17h(h *H) {
	const rule = "R17h"
	h.Rule(rule, "K4", "in the client, the StartOffsetExclusive of a NotificationsRequest cannot be nil when the field it is taken from holds an offset >= 0 (the branch conditions on that field are evaluated for 0, 1, 7 and 2^40)", 1)
	n := 0
	for _, fn := range h.P.Funcs {
		if ir.RelPkg(ir.PkgPathOf(fn)) != "oxia" || fn.Blocks == nil {
			continue
		}
		fn := fn
		ir.Instrs(fn, func(in ssa.Instruction) {
			st, ok := in.(*ssa.Store)
			if !ok {
				return
			}
			r, isF := ir.FieldAddrOf(st.Addr)
			if !isF || r.Struct == nil || r.Struct.Obj().Name() != "NotificationsRequest" || r.Field != "StartOffsetExclusive" {
				return
			}
			n++
			h.Fn(ir.FuncName(fn))
			name := fmt.Sprintf("resume offset of notifications request #%d in %s", n, ir.FuncName(fn))
			src, vfn := st.Val, fn
			setFlagFrom := func(vals ...ssa.Value) {
				resumeStateFlag = nil
				var visit func(x ssa.Value, d int) bool
				visit = func(x ssa.Value, d int) bool {
					if d > 4 || resumeStateFlag != nil {
						return resumeStateFlag != nil
					}
					if fa, isFA := x.(*ssa.FieldAddr); isFA {
						if ref, okRef := ir.FieldAddrOf(fa); okRef && ref.Struct != nil {
							resumeStateFlag = positionedFlag(h, ref.Struct, ref.Field)
							return resumeStateFlag != nil
						}
					}
					if al, isAl := x.(*ssa.Alloc); isAl {
						for _, s2 := range ir.AllStores(al) {
							if r, isF := ir.FieldLoadOf(ir.Canon(s2.Val)); isF && r.Struct != nil {
								resumeStateFlag = positionedFlag(h, r.Struct, r.Field)
								return resumeStateFlag != nil
							}
						}
					}
					if phi, isPhi := x.(*ssa.Phi); isPhi {
						for _, e := range phi.Edges {
							if visit(e, d+1) {
								return true
							}
						}
					}
					return false
				}
				for _, v := range vals {
					if visit(ir.Canon(v), 0) {
						return
					}
				}
			}
			// the value may come out of an extracted helper with one result
			if c, isCall := ir.Canon(src).(*ssa.Call); isCall {
				if callee := c.Call.StaticCallee(); callee != nil && ir.InRepo(callee) && callee.Blocks != nil && callee.Signature.Results().Len() == 1 {
					var rets []ssa.Value
					ir.Instrs(callee, func(x ssa.Instruction) {
						if ret, isRet := x.(*ssa.Return); isRet {
							rets = append(rets, ir.ReturnValues(ret)[0])
						}
					})
					if len(rets) == 1 {
						src, vfn = rets[0], callee
						h.Fn(ir.FuncName(callee))
					} else if len(rets) > 1 {
						src, vfn = nil, callee
						setFlagFrom(rets...)
						ok, why := resumeReturnsOK(callee, rets)
						resumeStateFlag = nil
						h.Verdict(ok, rule, name, h.pos(in), "the start offset is only left out while no offset was received", why)
						return
					}
				}
			}
			setFlagFrom(src)
			ok, why := resumeValueOK(vfn, src)
			resumeStateFlag = nil
			h.Verdict(ok, rule, name, h.pos(in), "the start offset is only left out while no offset was received", why)
		})
	}
	if n == 0 {
		h.Anchor(rule, "store to NotificationsRequest.StartOffsetExclusive in package oxia")
	}
}

var resumeProbes = []int64{0, 1, 7, 1 << 40}

const resumeWhy = "a subscriber whose last received offset is %d reconnects without a start offset: the leader positions it at its current commit offset and every batch committed while the stream was down is lost"

// trackedSource: the int64 cell whose address is sent (a field of a client struct, or a
// local copy of one); returns a predicate recognising reads of it.
func trackedSource(leaves []ssa.Value) func(ssa.Value) bool {
	for _, l := range leaves {
		switch x := ir.Canon(l).(type) {
		case *ssa.FieldAddr:
			ref, _ := ir.FieldAddrOf(x)
			return func(v ssa.Value) bool {
				r, ok := ir.FieldLoadOf(ir.Canon(v))
				return ok && r.Struct != nil && ref.Struct != nil && r.Struct.Obj() == ref.Struct.Obj() && r.Field == ref.Field
			}
		case *ssa.Alloc:
			// a local copy: its stored value must be the field's load
			var inner func(ssa.Value) bool
			if rs := x.Referrers(); rs != nil {
				for _, u := range *rs {
					if s, ok := u.(*ssa.Store); ok && s.Addr == x {
						if r, isF := ir.FieldLoadOf(ir.Canon(s.Val)); isF && r.Struct != nil {
							ref := r
							inner = func(v ssa.Value) bool {
								r2, ok := ir.FieldLoadOf(ir.Canon(v))
								return ok && r2.Struct != nil && r2.Struct.Obj() == ref.Struct.Obj() && r2.Field == ref.Field
							}
						}
					}
				}
			}
			return func(v ssa.Value) bool {
				if u, ok := ir.Canon(v).(*ssa.UnOp); ok && u.Op == token.MUL && u.X == x {
					return true
				}
				return inner != nil && inner(v)
			}
		}
	}
	return nil
}

func evalCmpAt(c ir.Cmp, v int64) (bool, bool) {
	k, ok := c.R.(*ssa.Const)
	if !ok || k.Value == nil {
		return false, false
	}
	kv := k.Int64()
	switch c.Op {
	case token.LSS:
		return v < kv, true
	case token.LEQ:
		return v <= kv, true
	case token.GTR:
		return v > kv, true
	case token.GEQ:
		return v >= kv, true
	case token.EQL:
		return v == kv, true
	case token.NEQ:
		return v != kv, true
	}
	return false, false
}

func resumeBlocked(fn *ssa.Function, isRead func(ssa.Value) bool, v int64) map[ir.Edge]bool {
	out := ir.EdgesWhere(fn, func(c ir.Cmp) bool {
		if !isRead(c.L) {
			return false
		}
		holds, ok := evalCmpAt(c, v)
		return ok && !holds
	})
	// once an offset was received, the "was positioned" flag of the subscriber is set:
	// the edges on which that flag is false cannot be taken
	if resumeStateFlag != nil {
		for _, b := range fn.Blocks {
			if len(b.Instrs) == 0 || len(b.Succs) != 2 {
				continue
			}
			iff, ok := b.Instrs[len(b.Instrs)-1].(*ssa.If)
			if !ok {
				continue
			}
			cond, neg := iff.Cond, false
			for {
				u, ok := cond.(*ssa.UnOp)
				if !ok || u.Op != token.NOT {
					break
				}
				cond, neg = u.X, !neg
			}
			if resumeStateFlag(cond) {
				falseSucc := b.Succs[1]
				if neg {
					falseSucc = b.Succs[0]
				}
				out[ir.Edge{From: b, To: falseSucc}] = true
			}
		}
	}
	return out
}

// resumeStateFlag recognises a read of a boolean field of the subscriber that is raised in
// a function that also records a received offset (set by ruleR17h for the struct at hand).
var resumeStateFlag func(ssa.Value) bool

// positionedFlag builds resumeStateFlag for the struct holding the tracked offset field.
func positionedFlag(h *H, st *types.Named, offsetField string) func(ssa.Value) bool {
	if st == nil || st.Obj().Pkg() == nil {
		return nil
	}
	pkg, typ := ir.RelPkg(st.Obj().Pkg().Path()), st.Obj().Name()
	str, ok := st.Underlying().(*types.Struct)
	if !ok {
		return nil
	}
	offsetWriters := map[*ssa.Function]bool{}
	for _, w := range h.P.FieldWrites(pkg, typ, offsetField) {
		if w.Kind != "literal" {
			offsetWriters[w.Fn] = true
		}
	}
	flags := map[string]bool{}
	for i := 0; i < str.NumFields(); i++ {
		f := str.Field(i)
		if b, ok := f.Type().Underlying().(*types.Basic); !ok || b.Kind() != types.Bool {
			continue
		}
		for _, w := range h.P.FieldWrites(pkg, typ, f.Name()) {
			if k, ok := w.Val.(*ssa.Const); ok && k.Value != nil && k.Value.String() == "true" && offsetWriters[w.Fn] {
				flags[f.Name()] = true
			}
		}
	}
	if len(flags) == 0 {
		return nil
	}
	var isFlag func(v ssa.Value, d int) bool
	isFlag = func(v ssa.Value, d int) bool {
		if d > 3 {
			return false
		}
		c := ir.Canon(v)
		if r, ok := ir.FieldLoadOf(c); ok && r.Struct != nil && r.Struct.Obj() == st.Obj() && flags[r.Field] {
			return true
		}
		// `flag == true`, `flag != false`
		if bo, ok := c.(*ssa.BinOp); ok && (bo.Op == token.EQL || bo.Op == token.NEQ) {
			for _, pair := range [][2]ssa.Value{{bo.X, bo.Y}, {bo.Y, bo.X}} {
				if k, isK := pair[1].(*ssa.Const); isK && k.Value != nil {
					if (bo.Op == token.EQL && k.Value.String() == "true") || (bo.Op == token.NEQ && k.Value.String() == "false") {
						return isFlag(pair[0], d+1)
					}
				}
			}
		}
		// a predicate method that returns the flag
		if call, ok := c.(*ssa.Call); ok {
			if g := call.Call.StaticCallee(); g != nil && ir.InRepo(g) && g.Blocks != nil && g.Signature.Results().Len() == 1 {
				n, all := 0, true
				ir.Instrs(g, func(in ssa.Instruction) {
					if ret, isRet := in.(*ssa.Return); isRet && len(ret.Results) == 1 {
						n++
						if !isFlag(ret.Results[0], d+1) {
							all = false
						}
					}
				})
				return n > 0 && all
			}
		}
		return false
	}
	return func(v ssa.Value) bool { return isFlag(v, 0) }
}

func resumeValueOK(fn *ssa.Function, val ssa.Value) (bool, string) {
	switch x := ir.Canon(val).(type) {
	case *ssa.Const:
		if x.IsNil() {
			return false, "the request never carries a start offset: every reconnection loses the batches committed meanwhile"
		}
	case *ssa.FieldAddr, *ssa.Alloc:
		return true, ""
	case *ssa.Phi:
		var leaves []ssa.Value
		for _, e := range x.Edges {
			if c, ok := e.(*ssa.Const); !ok || !c.IsNil() {
				leaves = append(leaves, e)
			}
		}
		isRead := trackedSource(leaves)
		if isRead == nil {
			return false, "the source of the start offset is not recognised (not the address of a field or of a local copy of one)"
		}
		for _, v := range resumeProbes {
			blocked := resumeBlocked(fn, isRead, v)
			for i, e := range x.Edges {
				c, ok := e.(*ssa.Const)
				if !ok || !c.IsNil() {
					continue
				}
				p := x.Block().Preds[i]
				if blocked[ir.Edge{From: p, To: x.Block()}] {
					continue
				}
				reach := p == fn.Blocks[0]
				if !reach && len(p.Instrs) > 0 {
					reach, _ = ir.Reach(ir.Search{Fn: fn, Blocked: blocked}, ir.Is(p.Instrs[0]))
				}
				if reach {
					return false, fmt.Sprintf(resumeWhy, v)
				}
			}
		}
		return true, ""
	}
	return false, "the start offset is computed in a way this rule does not recognise (" + ir.Describe(val) + ")"
}

// resumeReturnsOK: the helper form — `return nil` must be unreachable for every real offset.
func resumeReturnsOK(fn *ssa.Function, rets []ssa.Value) (bool, string) {
	var leaves []ssa.Value
	for _, r := range rets {
		if c, ok := r.(*ssa.Const); !ok || !c.IsNil() {
			leaves = append(leaves, r)
		}
	}
	isRead := trackedSource(leaves)
	if isRead == nil {
		return false, "the source of the start offset is not recognised (not the address of a field or of a local copy of one)"
	}
	for _, v := range resumeProbes {
		blocked := resumeBlocked(fn, isRead, v)
		bad := false
		ir.Instrs(fn, func(x ssa.Instruction) {
			ret, ok := x.(*ssa.Return)
			if !ok {
				return
			}
			if c, isC := ir.ReturnValues(ret)[0].(*ssa.Const); isC && c.IsNil() {
				if reach, _ := ir.Reach(ir.Search{Fn: fn, Blocked: blocked}, ir.Is(ret)); reach {
					bad = true
				}
			}
		})
		if bad {
			return false, fmt.Sprintf(resumeWhy, v)
		}
	}
	return true, ""
}

// ruleR17i: stored notification batches are not contiguous (the trimmer removes a prefix,
// entries without user-visible changes or applied while notifications were disabled leave
// no batch). A reader that resumes behind such a hole must still find the next batch, so
// the scan runs to the end of the notification key space; a window relative to the start
// offset finds nothing for ever once the hole is wider than the window.
func ruleR17i(h *H) {
	const rule = "R17i"
	h.Rule(rule, "K4", "in the notification reader the upper bound of the KV scan does not depend on the start offset", 1)
	n := 0
	for _, fn := range h.P.Funcs {
		if ir.RelPkg(ir.PkgPathOf(fn)) != "server/kv" || fn.Signature.Recv() == nil || fn.Name() != "ReadNextNotifications" {
			continue
		}
		var start *ssa.Parameter
		for _, p := range fn.Params {
			if p.Type().String() == "int64" {
				start = p
			}
		}
		if start == nil {
			continue
		}
		h.Fn(ir.FuncName(fn))
		for _, g := range helperFuncs(fn) {
			for _, c := range h.P.CallsIn(g, ir.Callee{Pkg: "server/kv", Recv: "KV", Name: "RangeScan"}, ir.Callee{Pkg: "server/kv", Recv: "KV", Name: "KeyRangeScan"}) {
				n++
				hi := argOf(c.Common(), 1)
				dep := ir.DependsOn(hi, func(v ssa.Value) bool { return v == ssa.Value(start) })
				h.Verdict(!dep, rule, "upper bound of the notification scan in "+ir.FuncName(fn), h.pos(c), "independent of the start offset", "the scan ends at a key computed from the start offset: a subscriber that resumes behind a hole wider than that window (trimmed prefix, period with notifications disabled) finds nothing, never advances, and never receives the batches that are stored after the hole")
			}
		}
	}
	if n == 0 {
		h.Anchor(rule, "the KV scan of the notification reader (ReadNextNotifications in server/kv)")
	}
}
