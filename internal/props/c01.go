package props

import (
	"fmt"
	"go/token"
	"go/types"

	"golang.org/x/tools/go/ssa"

	"oxiaverif/internal/chk"
	"oxiaverif/internal/ir"
)

func init() { register("C01", checkC01) }

func checkC01(c *chk.Ctx) {
	h := newH(c)
	c.Decided = []string{
		"R01n a new leader's ack tracker does not start below the commit offset of its database (open finding F31: a snapshot-only node elected leader acknowledges writes without a follower)",
		"R01a client ack only inside the quorum-commit continuation of the very offset that was appended",
		"R01b LEADER status only after the whole election-time log is quorum-committed and replayed",
		"R01c quorum arithmetic of the ack tracker and of the fencing majority (RF, n = 1..9)",
		"R01d every DB apply site is behind a commit guard",
		"R01f the WAL reports an offset as synced only after a successful flush",
		"R01h follower cursor attaches at the truncated head",
		"R01i a follower head is accepted without truncation only when the leader log contains that entry (term equal, offset bounded)",
		"R01m a committed entry's continuation always runs successfully on the leader",
		"R01l the fencing majority is computed over the very set that is fenced and counted (shared with C05)",
		"R01k the WAL sync loop completes only the sync requests it received before reading the appended offset that the flush covers",
		"R01j an election's term is stored by the coordinator before any NewTerm is sent for it (a restarted coordinator must not reuse a term in which a leader was already elected: two leaders of one term would both collect acknowledgements)",
	}
	c.NotDec = []string{
		"composition of these mechanisms into durability under arbitrary fault sequences",
		"quorum intersection across overlapping ensemble changes (protocol-level)",
		"message loss / reordering on the wire",
	}
	ruleR01a(h)
	ruleR01b(h)
	ruleR01c(h)
	ruleR01d(h, "R01d")
	ruleR01f(h, "R01f")
	ruleR03d(h, "R01h")
	ruleNoTruncateDecision(h, "R01i")
	ruleR05aInto(h, "R01j")
	ruleSyncCompletionsCovered(h, "R01k")
	ruleR05hInto(h, "R01l")
	ruleCommittedContinuationsSucceed(h, "R01m")
	ruleTrackerHeadCoversCommit(h, "R01n")
}

// writeWorker finds the leader's write worker: the unique repository function that
// allocates offsets (calls QuorumAckTracker.NextOffset).
func writeWorker(h *H, rule string) *ssa.Function {
	sites := h.P.AllCalls(ir.InPkg("server"), qatNextOffset)
	fns := map[*ssa.Function]bool{}
	for _, s := range sites {
		fns[ir.Outermost(s.Fn)] = true
	}
	if len(fns) != 1 {
		h.Anchor(rule, fmt.Sprintf("the unique function allocating offsets via QuorumAckTracker.NextOffset (found %d)", len(fns)))
		return nil
	}
	for f := range fns {
		h.Fn(ir.FuncName(f))
		return f
	}
	return nil
}

// commitContinuation describes where an instruction sits relative to the leader write
// pipeline: inside the success continuation of WaitForCommitOffsetAsync (W), which is
// itself on the success path of the AppendAndSync callback (A).
type commitContinuation struct {
	W       ssa.CallInstruction // the WaitForCommitOffsetAsync call
	OkFn    *ssa.Function       // the success continuation
	Problem string
}

// enclosingCommitContinuation climbs from fn to the function literal that is the `ok`
// argument of concurrent.NewOnce handed to WaitForCommitOffsetAsync.
func enclosingCommitContinuation(h *H, fn *ssa.Function) commitContinuation {
	// climb through enclosing literals and, for an extracted helper, through its only caller
	up := func(f *ssa.Function) *ssa.Function {
		if p := f.Parent(); p != nil {
			return p
		}
		if site := ir.SingleCallSite(f); site != nil {
			return site.Parent()
		}
		if mv := ir.MethodValueSites(f); len(mv) == 1 && len(ir.StaticCallSites(f)) == 0 {
			return mv[0].Parent()
		}
		return nil
	}
	steps := 0
	for f := fn; f != nil && steps < 12; f, steps = up(f), steps+1 {
		for _, mc := range ir.FuncValueSites(f) {
			for _, r := range closureUses(mc) {
				once, ok := r.(*ssa.Call)
				if !ok || !h.P.Matches(once.Common(), newOnce) {
					continue
				}
				if closureArg(argOf(once.Common(), 0)) != f {
					// it is the failure continuation
					continue
				}
				for _, rr := range valueUses(once) {
					w, ok := rr.(ssa.CallInstruction)
					if ok && h.P.Matches(w.Common(), qatWaitAsync) && ir.Canon(throughFactory(argOf(w.Common(), 2))) == ssa.Value(once) {
						return commitContinuation{W: w, OkFn: f}
					}
				}
			}
		}
	}
	return commitContinuation{Problem: "not inside the success continuation passed to QuorumAckTracker.WaitForCommitOffsetAsync"}
}

// appendSite describes the AppendAndSync call of the write worker.
type appendSite struct {
	A        ssa.CallInstruction
	Entry    ssa.Value
	Offset   ssa.Value
	Term     ssa.Value
	Stamp    ssa.Value
	Callback *ssa.Function
}

func workerAppend(h *H, rule string, worker *ssa.Function) *appendSite {
	var sites []ssa.CallInstruction
	for _, f := range regionOf(worker) {
		sites = append(sites, h.P.CallsIn(f, walAppendSync, walAppend, walAppendAsync)...)
	}
	if len(sites) != 1 {
		h.Anchor(rule, fmt.Sprintf("the single WAL append call of the write worker (found %d)", len(sites)))
		return nil
	}
	a := sites[0]
	s := &appendSite{A: a, Entry: argOf(a.Common(), 0)}
	s.Offset = compositeFieldValue(s.Entry, "Offset")
	s.Term = compositeFieldValue(s.Entry, "Term")
	s.Stamp = compositeFieldValue(s.Entry, "Timestamp")
	if cb := argOf(a.Common(), 1); cb != nil {
		s.Callback = closureArg(cb)
	}
	return s
}

// checkCommitContinuation verifies that `in` only executes after the entry appended by
// the worker is durable locally and quorum-committed.
func checkCommitContinuation(h *H, worker *ssa.Function, app *appendSite, in ssa.Instruction) (bool, string) {
	cc := enclosingCommitContinuation(h, in.Parent())
	if cc.Problem != "" {
		return false, cc.Problem
	}
	off := argOf(cc.W.Common(), 1)
	if app.Offset == nil || ir.CanonX(off) != ir.CanonX(app.Offset) {
		return false, fmt.Sprintf("the commit wait is for %s, not for the offset placed in the log entry (%s)", ir.Describe(off), ir.Describe(app.Offset))
	}
	if app.Callback == nil {
		return false, "the WAL append has no completion callback literal: the commit wait is not ordered after the local append/sync"
	}
	// the callback's error parameter (the last one; a method value also has its receiver)
	var errParam *ssa.Parameter
	if n := len(app.Callback.Params); n > 0 && ir.IsError(app.Callback.Params[n-1].Type()) {
		errParam = app.Callback.Params[n-1]
	}
	if errParam == nil {
		return false, "unexpected signature of the WAL append completion callback"
	}
	if cc.W.Parent() != app.Callback {
		// the callback may hand the error on to an extracted step (`pending.onAppended(ctx, err)`)
		// that tests it and issues the wait
		helper := cc.W.Parent()
		site := ir.SingleCallSite(helper)
		if site == nil || site.Parent() != app.Callback {
			return false, "the commit wait is not issued from the WAL append completion callback"
		}
		var hp *ssa.Parameter
		for i, a := range site.Common().Args {
			if ir.Canon(a) == ssa.Value(errParam) && i < len(helper.Params) {
				hp = helper.Params[i]
			}
		}
		okSite, _ := ir.OkOnly(app.Callback, errParam, nil, site)
		if !okSite {
			if hp == nil {
				return false, "the commit wait is issued by " + ir.FuncName(helper) + ", which does not receive the result of the WAL append"
			}
			if ok, path := ir.OkOnly(helper, hp, nil, cc.W); !ok {
				return false, "the commit wait is reachable when the WAL append/sync failed " + witness(path)
			}
		}
		return true, fmt.Sprintf("inside ok-continuation of WaitForCommitOffsetAsync(%s) issued by %s on the err==nil path of the AppendAndSync callback", ir.Describe(off), ir.FuncName(helper))
	}
	ok, path := ir.OkOnly(app.Callback, errParam, nil, cc.W)
	if !ok {
		return false, "the commit wait is reachable when the WAL append/sync failed " + witness(path)
	}
	return true, fmt.Sprintf("inside ok-continuation of WaitForCommitOffsetAsync(%s) issued on the err==nil path of the AppendAndSync callback", ir.Describe(off))
}

func clientCallbackParam(worker *ssa.Function) *ssa.Parameter {
	for _, p := range worker.Params {
		if ir.TypeIs(p.Type(), "common/concurrent", "Callback") {
			return p
		}
	}
	return nil
}

func ruleR01a(h *H) {
	const rule = "R01a"
	h.Rule(rule, "K1", "every successful completion of the client callback in the leader write worker lies inside the quorum-commit continuation of the appended offset", 1)
	worker := writeWorker(h, rule)
	if worker == nil {
		return
	}
	app := workerAppend(h, rule, worker)
	if app == nil {
		return
	}
	cb := clientCallbackParam(worker)
	if cb == nil {
		h.Anchor(rule, "client callback parameter (concurrent.Callback) of the write worker")
		return
	}
	n := 0
	region := regionOf(worker)
	inRegion := map[*ssa.Function]bool{}
	for _, f := range region {
		inRegion[f] = true
	}
	for _, f := range region {
		ir.Instrs(f, func(in ssa.Instruction) {
			call := ir.CallOf(in)
			if call == nil {
				// any other use of the callback value (escape) cannot be followed
				return
			}
			usesCb := false
			if call.IsInvoke() && ir.CanonX(call.Value) == ssa.Value(cb) {
				usesCb = true
			}
			for _, a := range call.Args {
				if ir.CanonX(a) == ssa.Value(cb) {
					if callee := call.StaticCallee(); callee != nil && inRegion[callee] {
						continue // handed to an extracted helper that is analysed as part of the worker
					}
					// the callback escapes into another function
					h.Unknown(rule, fmt.Sprintf("%s: client callback passed to %s", ir.FuncName(f), describeCallee(call)), h.pos(in),
						"the client callback escapes from the write worker; completions cannot be enumerated")
				}
			}
			if !usesCb {
				return
			}
			switch call.Method.Name() {
			case "OnComplete":
				n++
				ok, why := checkCommitContinuation(h, worker, app, in)
				h.Verdict(ok, rule, fmt.Sprintf("%s: cb.OnComplete #%d", ir.FuncName(worker), n), h.pos(in), why, why)
			case "OnCompleteError":
				// failures may be reported anywhere
			default:
				h.Unknown(rule, fmt.Sprintf("%s: cb.%s", ir.FuncName(f), call.Method.Name()), h.pos(in), "unknown callback method")
			}
		})
	}
}

func describeCallee(c *ssa.CallCommon) string {
	if c.IsInvoke() {
		return c.Method.FullName()
	}
	if f := c.StaticCallee(); f != nil {
		return ir.FuncName(f)
	}
	return "dynamic call"
}

// ---------------------------------------------------------------------------------

func ruleR01b(h *H) {
	const rule = "R01b"
	h.Rule(rule, "K1", "BecomeLeader sets status=LEADER only after WaitForCommitOffset(head of the WAL at election) and the replay into the DB both succeeded, in that order", 4)
	bl := h.implMethod(rule, "server", "LeaderController", "BecomeLeader")
	if bl == nil {
		return
	}
	lt := h.implType(rule, "server", "LeaderController")
	if lt == nil {
		return
	}
	tn := lt.Obj().Name()
	var leaderStores []ir.FieldWrite
	for _, w := range h.fieldStores(bl, true, "server", tn, "status") {
		if h.isConst(w.Val, "proto", "ServingStatus_LEADER") {
			leaderStores = append(leaderStores, w)
		}
	}
	if len(leaderStores) == 0 {
		h.Anchor(rule, "store of ServingStatus_LEADER into the controller status in BecomeLeader")
		return
	}
	waits := h.P.CallsIn(bl, qatWait)
	if len(waits) == 0 {
		h.Bad(rule, "BecomeLeader: WaitForCommitOffset", h.P.Pos(bl.Pos()), "BecomeLeader does not wait for the election-time log to be quorum-committed")
		return
	}
	// replay call: a call in BecomeLeader that reaches DB.ProcessWrite
	var replays []ssa.CallInstruction
	ir.Instrs(bl, func(in ssa.Instruction) {
		ci, ok := in.(ssa.CallInstruction)
		if !ok {
			return
		}
		if f := ci.Common().StaticCallee(); f != nil && ir.InRepo(f) {
			if ok, _ := h.P.StaticReaches(f, h.P.MatchPred(dbProcessWrite)); ok {
				replays = append(replays, ci)
			}
		}
	})
	for i, st := range leaderStores {
		name := fmt.Sprintf("BecomeLeader: status=LEADER #%d", i+1)
		okAll := true
		for _, w := range waits {
			ok, why, path := ir.SuccessDominated(w, st.Instr)
			if !ok {
				okAll = false
				h.Bad(rule, name+" after quorum wait", h.pos(st.Instr), "LEADER status is reachable without a successful WaitForCommitOffset: "+why, witness(path))
			}
		}
		if okAll {
			h.OK(rule, name+" after quorum wait", h.pos(st.Instr), "success-dominated by WaitForCommitOffset")
		}
		if len(replays) == 0 {
			h.Bad(rule, name+" after replay", h.pos(st.Instr), "no call reaching DB.ProcessWrite (log replay) precedes the LEADER status")
		}
		for _, r := range replays {
			ok, why, path := ir.SuccessDominated(r, st.Instr)
			h.Verdict(ok, rule, name+" after replay", h.pos(st.Instr), "success-dominated by the replay call "+describeCallee(r.Common()), "LEADER status does not require a successful replay: "+why, witness(path))
		}
	}
	// order: wait before replay
	for _, r := range replays {
		for _, w := range waits {
			ok, why, path := ir.SuccessDominated(w, r)
			h.Verdict(ok, rule, "BecomeLeader: replay after quorum wait", h.pos(r), "the replay is success-dominated by WaitForCommitOffset", "the log is applied to the DB before it is known to be quorum-committed: "+why, witness(path))
		}
	}
	// the awaited offset is the WAL head read in this function, not the DB commit offset
	for _, w := range waits {
		off := argOf(w.Common(), 1)
		fromWal := dependsOnCallReaching(h, bl, off, walNewRevRdr, walLastOffset)
		fromDb := dependsOnCallReaching(h, bl, off, dbReadCommit)
		name := "BecomeLeader: WaitForCommitOffset argument"
		switch {
		case fromDb:
			h.Bad(rule, name, h.pos(w), "the awaited offset derives from the DB commit offset ("+ir.Describe(off)+"), not from the head of the WAL")
		case !fromWal:
			h.Bad(rule, name, h.pos(w), "the awaited offset ("+ir.Describe(off)+") does not derive from a read of the WAL head in BecomeLeader")
		default:
			h.OK(rule, name, h.pos(w), "offset derives from the WAL head read in the same function: "+ir.Describe(off))
		}
	}
}

// dependsOnCallReaching reports whether v, within fn, is computed from the result of a
// call that (transitively) reaches one of the callees — following loads of fields that
// are stored earlier in the same function.
func dependsOnCallReaching(h *H, fn *ssa.Function, v ssa.Value, specs ...ir.Callee) bool {
	pred := h.P.MatchPred(specs...)
	seen := map[ssa.Value]bool{}
	var walk func(v ssa.Value, d int) bool
	walk = func(v ssa.Value, d int) bool {
		if v == nil || seen[v] || d > 40 {
			return false
		}
		seen[v] = true
		switch x := v.(type) {
		case *ssa.Call:
			if h.P.CallStaticallyReaches(x, pred) {
				return true
			}
		case *ssa.Extract:
			return walk(x.Tuple, d+1)
		}
		if c := ir.Canon(v); c != v && walk(c, d+1) {
			return true
		}
		// field load: values stored to the same field in this function (any base of the same type)
		if ref, ok := ir.FieldLoadOf(v); ok && ref.Struct != nil {
			found := false
			ir.Instrs(fn, func(in ssa.Instruction) {
				st, ok := in.(*ssa.Store)
				if !ok || found {
					return
				}
				r2, ok := ir.FieldAddrOf(st.Addr)
				if ok && r2.Struct == ref.Struct && r2.Field == ref.Field && walk(st.Val, d+1) {
					found = true
				}
			})
			if found {
				return true
			}
		}
		if in, ok := v.(ssa.Instruction); ok {
			for _, op := range in.Operands(nil) {
				if *op != nil && walk(*op, d+1) {
					return true
				}
			}
		}
		return false
	}
	return walk(v, 0)
}

// ---------------------------------------------------------------------------------
// quorum arithmetic

// evalInt evaluates an integer SSA expression in which `param` takes value x.
func evalInt(v ssa.Value, env map[ssa.Value]int64) (int64, bool) {
	if x, ok := env[v]; ok {
		return x, true
	}
	switch e := v.(type) {
	case *ssa.Const:
		if e.Value == nil {
			return 0, false
		}
		return e.Int64(), true
	case *ssa.Convert:
		return evalInt(e.X, env)
	case *ssa.ChangeType:
		return evalInt(e.X, env)
	case *ssa.BinOp:
		a, ok1 := evalInt(e.X, env)
		b, ok2 := evalInt(e.Y, env)
		if !ok1 || !ok2 {
			return 0, false
		}
		switch e.Op {
		case token.ADD:
			return a + b, true
		case token.SUB:
			return a - b, true
		case token.MUL:
			return a * b, true
		case token.QUO:
			if b == 0 {
				return 0, false
			}
			return a / b, true
		case token.REM:
			if b == 0 {
				return 0, false
			}
			return a % b, true
		case token.SHR:
			return a >> uint(b), true
		case token.SHL:
			return a << uint(b), true
		}
	case *ssa.UnOp:
		if e.Op == token.SUB {
			a, ok := evalInt(e.X, env)
			return -a, ok
		}
		if c := ir.Canon(e); c != ssa.Value(e) {
			return evalInt(c, env)
		}
	case *ssa.Call:
		// len(x) where x is in env
		if b, ok := e.Call.Value.(*ssa.Builtin); ok && b.Name() == "len" && len(e.Call.Args) == 1 {
			return evalInt(e.Call.Args[0], env)
		}
	}
	return 0, false
}

func ruleR01c(h *H) {
	h.Rule("R01c", "K11", "required follower acks + the leader form a strict majority of RF (RF=1..9); commit fires when the ack count reaches it; the fencing majority is a strict majority (n=1..9)", 3)
	ruleR01cInto(h, "R01c")
}

func ruleR01cInto(h *H, rule string) {
	qt := h.implType(rule, "server", "QuorumAckTracker")
	if qt == nil {
		return
	}
	tn := qt.Obj().Name()
	// (1) requiredAcks expression
	ws := h.P.FieldWrites("server", tn, "requiredAcks")
	if len(ws) == 0 {
		h.Anchor(rule, "store to "+tn+".requiredAcks")
	}
	for _, w := range ws {
		name := fmt.Sprintf("requiredAcks expression in %s", ir.FuncName(ir.Outermost(w.Fn)))
		if w.Val == nil {
			h.Unknown(rule, name, h.pos(w.Instr), "requiredAcks is written through an escaped address")
			continue
		}
		// the single free variable must be a parameter (the replication factor)
		var rf *ssa.Parameter
		for _, p := range w.Fn.Params {
			if bt, ok := p.Type().Underlying().(*types.Basic); ok && bt.Info()&types.IsInteger != 0 && ir.DependsOn(w.Val, func(v ssa.Value) bool { return v == ssa.Value(p) }) {
				rf = p
			}
		}
		if rf == nil {
			h.Unknown(rule, name, h.pos(w.Instr), "cannot identify the replication-factor parameter in the requiredAcks expression "+ir.Describe(w.Val))
			continue
		}
		bad := ""
		for n := int64(1); n <= 9; n++ {
			req, ok := evalInt(ir.Canon(w.Val), map[ssa.Value]int64{rf: n})
			if !ok {
				bad = "expression not evaluable: " + ir.Describe(w.Val)
				break
			}
			if !(2*(req+1) > n) {
				bad = fmt.Sprintf("RF=%d: requiredAcks=%d, leader+acks=%d is not a strict majority", n, req, req+1)
				break
			}
			if !(req+1 <= n) {
				bad = fmt.Sprintf("RF=%d: requiredAcks=%d needs more followers than exist", n, req)
				break
			}
		}
		h.Verdict(bad == "", rule, name, h.pos(w.Instr), "2*(req+1) > RF and req+1 <= RF for RF=1..9 with req = "+ir.Describe(w.Val), bad)
	}
	// (2) commit test in the acker: the call advancing the commit offset is guarded by count ==/>= requiredAcks
	notify := ir.Callee{Pkg: "server", Recv: tn, Name: "notifyCommitOffsetAdvanced"}
	ackImpls := h.P.ImplMethods("server", "CursorAcker", "Ack")
	if len(ackImpls) == 0 {
		h.Anchor(rule, "implementation of CursorAcker.Ack")
	}
	// find the function that is reached from Ack and calls the commit-advance with a guard on requiredAcks
	found := 0
	for _, fn := range h.P.Funcs {
		if ir.RelPkg(ir.PkgPathOf(fn)) != "server" {
			continue
		}
		for _, call := range commitAdvanceCalls(h, fn, tn) {
			if !dependsOnBitsetCountGuard(call) {
				continue
			}
			found++
			h.Fn(ir.FuncName(fn))
			name := fmt.Sprintf("commit test in %s", ir.FuncName(fn))
			okCmp := false
			detail := "no guard comparing the ack count with requiredAcks"
			for _, g := range ir.CmpGuards(call) {
				for _, cmp := range []ir.Cmp{g, g.Flip()} {
					if ir.LoadsField(stripConv(cmp.R), "server", tn, "requiredAcks") && isBitsetCount(stripConv(cmp.L)) {
						if cmp.Op == token.EQL || cmp.Op == token.GEQ {
							okCmp = true
							detail = "guarded by count " + cmp.Op.String() + " requiredAcks"
						} else {
							detail = "guarded by count " + cmp.Op.String() + " requiredAcks (must be == or >=)"
						}
					}
				}
			}
			h.Verdict(okCmp, rule, name, h.pos(call), detail, detail)
		}
	}
	_ = notify
	if found == 0 {
		h.Anchor(rule, "the ack-count guarded call that advances the commit offset")
	}
	// (3) fencing majority in the coordinator
	ruleMajority(h, rule)
}

func stripConv(v ssa.Value) ssa.Value {
	for {
		switch x := v.(type) {
		case *ssa.Convert:
			v = x.X
		case *ssa.ChangeType:
			v = x.X
		default:
			return v
		}
	}
}

func isBitsetCount(v ssa.Value) bool {
	c, ok := v.(*ssa.Call)
	if !ok {
		return false
	}
	f := c.Call.StaticCallee()
	return f != nil && f.Name() == "Count" && f.Signature.Recv() != nil && ir.TypeIs(f.Signature.Recv().Type(), "server/util", "BitSet")
}

// commitAdvanceCalls lists calls in fn to functions that store the tracker's commitOffset.
func commitAdvanceCalls(h *H, fn *ssa.Function, tn string) []ssa.CallInstruction {
	storers := map[*ssa.Function]bool{}
	for _, w := range h.P.FieldWrites("server", tn, "commitOffset") {
		storers[w.Fn] = true
	}
	var out []ssa.CallInstruction
	ir.Instrs(fn, func(in ssa.Instruction) {
		if ci, ok := in.(ssa.CallInstruction); ok {
			if f := ci.Common().StaticCallee(); f != nil && storers[f] && f != fn {
				out = append(out, ci)
			}
		}
	})
	return out
}

func dependsOnBitsetCountGuard(call ssa.Instruction) bool {
	for _, g := range ir.CmpGuards(call) {
		if isBitsetCount(stripConv(g.L)) || isBitsetCount(stripConv(g.R)) {
			return true
		}
	}
	return false
}

func ruleMajority(h *H, rule string) {
	// the election's fencing quorum: the function calling rpc NewTerm fan-out compares a success counter with `majority`.
	fn := fencingQuorumFn(h, rule)
	if fn == nil {
		return
	}
	// find comparisons `successResponses < majority` guarding the error return; identify majority as an
	// expression over len(fencingQuorum).
	type cand struct {
		v  ssa.Value
		in ssa.Instruction
	}
	var cands []cand
	ir.Instrs(fn, func(in ssa.Instruction) {
		bo, ok := in.(*ssa.BinOp)
		if !ok || (bo.Op != token.LSS && bo.Op != token.GEQ && bo.Op != token.GTR && bo.Op != token.LEQ) {
			return
		}
		for _, side := range []ssa.Value{bo.X, bo.Y} {
			s := ir.Canon(side)
			if b, ok := s.(*ssa.BinOp); ok && ir.DependsOn(b, isLenCall) {
				if _, isConst := b.Y.(*ssa.Const); isConst && (b.Op == token.ADD || b.Op == token.QUO || b.Op == token.SUB) {
					cands = append(cands, cand{b, in})
				}
			}
		}
	})
	if len(cands) == 0 {
		h.Anchor(rule, "the majority expression (over the fencing quorum size) compared with the success counter in newTermQuorum")
		return
	}
	seen := map[ssa.Value]bool{}
	for _, cd := range cands {
		if seen[cd.v] {
			continue
		}
		seen[cd.v] = true
		var lenv ssa.Value
		ir.DependsOn(cd.v, func(v ssa.Value) bool {
			if isLenCall(v) {
				lenv = v
				return true
			}
			return false
		})
		bad := ""
		for n := int64(1); n <= 9; n++ {
			m, ok := evalInt(cd.v, map[ssa.Value]int64{lenv: n})
			if !ok {
				bad = "majority expression not evaluable"
				break
			}
			if !(2*m > n && m <= n) {
				bad = fmt.Sprintf("n=%d: majority=%d is not a strict majority within n", n, m)
				break
			}
		}
		h.Verdict(bad == "", rule, "fencing majority expression in "+ir.FuncName(fn), h.pos(cd.in), "2*majority > n and majority <= n for n=1..9", bad)
	}
}

func isLenCall(v ssa.Value) bool {
	c, ok := v.(*ssa.Call)
	if !ok {
		return false
	}
	b, ok := c.Call.Value.(*ssa.Builtin)
	return ok && b.Name() == "len"
}
