package props

import (
	"fmt"
	"go/token"
	"go/types"
	"sort"
	"strings"

	"golang.org/x/tools/go/ssa"

	"oxiaverif/internal/chk"
	"oxiaverif/internal/ir"
)

func init() { register("C02", checkC02) }

var dbUserDataMethods = []string{"ProcessWrite", "Get", "List", "RangeScan", "KeyIterator", "ReadNextNotifications", "GetSequenceUpdates"}

func dbUserDataSpecs() []ir.Callee {
	var out []ir.Callee
	for _, m := range dbUserDataMethods {
		out = append(out, ir.Callee{Pkg: "server/kv", Recv: "DB", Name: m})
	}
	return out
}

func checkC02(c *chk.Ctx) {
	h := newH(c)
	c.Decided = []string{
		"R02e the client never fails a write that is already on the wire with an error its own batch layer classifies as retriable: a write with unknown outcome is not sent a second time",
		"R02a every public data-path method of the leader controller checks status==LEADER under the controller lock before any DB access can start",
		"R02b the read entry points never reach the WAL (reads are served from the DB, which holds committed state only)",
		"R02c every DB apply site is behind a commit guard (shared with C01)",
		"R02d the version counter persisted with a request is read after the request was applied (a restarted node must not re-issue version ids: conditional writes compare them)",
	}
	c.NotDec = []string{
		"linearizability of complete histories (needs a history checker)",
		"stale reads of a deposed leader (allowed by the statement)",
		"at-most-once effect of writes with unknown outcome beyond the client's own retry classification (R02e)",
	}
	ruleR02a(h)
	ruleR02b(h)
	ruleR01d(h, "R02c")
	ruleR02e(h)
	ruleR06dInto(h, "R02d", false)
}

// coordination entry points of the leader controller: they touch the DB by design and
// are governed by the fence-guard table of C04 (R04a), not by the LEADER check.
var leaderCoordination = map[string]string{
	"NewTerm":      "fencing entry point (R04a)",
	"BecomeLeader": "election entry point (R04a/R01b)",
	"AddFollower":  "election entry point (R04a)",
	"DeleteShard":  "shard removal (R04a)",
	"Close":        "shutdown",
	"GetStatus":    "reports term/status/offsets only",
}

// isLeaderCheckFn: f(status) error returns nil only when status == ServingStatus_LEADER.
func isLeaderCheckFn(h *H, f *ssa.Function) bool {
	if f == nil || f.Blocks == nil || len(f.Params) != 1 || !ir.TypeIs(f.Params[0].Type(), "proto", "ServingStatus") {
		return false
	}
	res := f.Signature.Results()
	if res.Len() != 1 || !ir.IsError(res.At(0).Type()) {
		return false
	}
	nilReturns := 0
	ok := true
	ir.Instrs(f, func(in ssa.Instruction) {
		ret, isRet := in.(*ssa.Return)
		if !isRet {
			return
		}
		c, isC := ir.ReturnValues(ret)[0].(*ssa.Const)
		if !isC || !c.IsNil() {
			return
		}
		nilReturns++
		good := false
		for _, g := range ir.CmpGuards(in) {
			for _, cmp := range []ir.Cmp{g, g.Flip()} {
				if cmp.L == ssa.Value(f.Params[0]) && cmp.Op == token.EQL && h.isConst(cmp.R, "proto", "ServingStatus_LEADER") {
					good = true
				}
			}
		}
		if !good {
			ok = false
		}
	})
	return ok && nilReturns > 0
}

// leaderChecksIn lists, for fn, the points after which status==LEADER is established
// under the controller lock: returns a predicate "instruction is covered by a check".
func leaderCovered(h *H, fn *ssa.Function, tn string, in ssa.Instruction) (bool, string) {
	held := ir.HeldAt(fn)
	lockedLoad := func(v ssa.Value) (bool, bool) { // (isStatusLoad, underLock)
		c := ir.Canon(v)
		if !ir.LoadsField(c, "server", tn, "status") {
			return false, false
		}
		li, ok := c.(ssa.Instruction)
		if !ok {
			return true, false
		}
		return true, len(held[li]) > 0
	}
	// (1) call of a leader-check function, error tested, `in` on the ok-only path
	reason := ""
	covered := false
	ir.Instrs(fn, func(x ssa.Instruction) {
		if covered {
			return
		}
		call, ok := x.(*ssa.Call)
		if !ok {
			return
		}
		f := call.Call.StaticCallee()
		if !isLeaderCheckFn(h, f) {
			return
		}
		isLoad, locked := lockedLoad(call.Call.Args[0])
		if !isLoad {
			return
		}
		if sd, _, _ := ir.SuccessDominated(call, in); sd {
			if !locked {
				reason = "the status is read without holding the controller lock"
				return
			}
			covered = true
			reason = "after " + ir.FuncName(f) + "(status) succeeded under the controller lock"
		}
	})
	if covered {
		return true, reason
	}
	// (1b) call of an extracted wrapper whose every possibly-nil result is itself covered
	ir.Instrs(fn, func(x ssa.Instruction) {
		if covered {
			return
		}
		call, ok := x.(*ssa.Call)
		if !ok || x == in {
			return
		}
		g := call.Call.StaticCallee()
		if g == nil || g.Blocks == nil || !ir.InRepo(g) || isLeaderCheckFn(h, g) || !ir.HasErrResult(call) {
			return
		}
		if sd, _, _ := ir.SuccessDominated(call, in); !sd {
			return
		}
		if ok, why := ensuresLeader(h, g, tn, 0); ok {
			covered = true
			reason = "after " + ir.FuncName(g) + " succeeded, which " + why
		}
	})
	if covered {
		return true, reason
	}
	// (2) direct comparison guard
	for _, g := range ir.CmpGuards(in) {
		for _, cmp := range []ir.Cmp{g, g.Flip()} {
			isLoad, locked := lockedLoad(cmp.L)
			if isLoad && cmp.Op == token.EQL && h.isConst(cmp.R, "proto", "ServingStatus_LEADER") {
				if locked {
					return true, "guarded by status == LEADER read under the controller lock"
				}
				reason = "the status is read without holding the controller lock"
			}
		}
	}
	if reason == "" {
		reason = "no status==LEADER check dominates it"
	}
	return false, reason
}

// ensuresLeader: g reports success (nil error) only when status==LEADER was established
// under the controller lock: every return whose error may be nil either returns the
// leader check's own result or is covered by a check inside g.
func ensuresLeader(h *H, g *ssa.Function, tn string, depth int) (bool, string) {
	if depth > 2 {
		return false, ""
	}
	held := ir.HeldAt(g)
	n := 0
	okAll := true
	ir.Instrs(g, func(in ssa.Instruction) {
		ret, isRet := in.(*ssa.Return)
		if !isRet || in.Block() == g.Recover || !okAll {
			return
		}
		vals := ir.ReturnValues(ret)
		if len(vals) == 0 {
			okAll = false
			return
		}
		ev := ir.Canon(vals[len(vals)-1])
		if !valueMayBeNilAt(ev, ret) {
			return
		}
		n++
		if c, isCall := ev.(*ssa.Call); isCall && isLeaderCheckFn(h, c.Call.StaticCallee()) {
			ld := ir.Canon(c.Call.Args[0])
			if li, isI := ld.(ssa.Instruction); isI && ir.LoadsField(ld, "server", tn, "status") && len(held[li]) > 0 {
				return
			}
		}
		if cov, _ := leaderCovered(h, g, tn, ret); cov {
			return
		}
		okAll = false
	})
	if n == 0 || !okAll {
		return false, ""
	}
	return true, "only returns nil after the LEADER check under the controller lock"
}

type unguardedInfo struct {
	bad    bool
	where  ssa.Instruction
	detail string
}

func ruleR02a(h *H) {
	const rule = "R02a"
	h.Rule(rule, "K1+K2", "every exported data-path method of the LeaderController implementation establishes status==LEADER under the controller lock before any instruction that can start a DB access (directly, through a goroutine/closure, or through a callee that does not check itself)", 8)
	lt := h.implType(rule, "server", "LeaderController")
	if lt == nil {
		return
	}
	tn := lt.Obj().Name()
	iface := h.P.LookupType("server", "LeaderController")
	ii := iface.Underlying().(*types.Interface)
	specs := dbUserDataSpecs()
	exemptStop := map[string]string{
		"ListBlock": "internal blocking list used by the session manager while becoming leader / cleaning up a session; callers are restricted to the session code by this rule",
	}

	memo := map[*ssa.Function]*unguardedInfo{}
	var unguarded func(fn *ssa.Function, depth int) *unguardedInfo
	unguarded = func(fn *ssa.Function, depth int) *unguardedInfo {
		if r, ok := memo[fn]; ok {
			return r
		}
		res := &unguardedInfo{}
		memo[fn] = res // cycles: assume guarded
		if fn.Blocks == nil || depth > 12 {
			return res
		}
		// exempt traversal stops
		if fn.Signature.Recv() != nil && ir.TypeIs(fn.Signature.Recv().Type(), "server", tn) {
			if _, ok := exemptStop[fn.Name()]; ok {
				return res
			}
		}
		h.Fn(ir.FuncName(fn))
		flag := func(in ssa.Instruction, what string) {
			if res.bad {
				return
			}
			ok, why := leaderCovered(h, fn, tn, in)
			if !ok {
				res.bad, res.where, res.detail = true, in, what+": "+why
			}
		}
		ir.Instrs(fn, func(in ssa.Instruction) {
			if res.bad {
				return
			}
			switch x := in.(type) {
			case *ssa.MakeClosure:
				if a, ok := x.Fn.(*ssa.Function); ok {
					if u := unguarded(a, depth+1); u.bad {
						flag(in, "creates "+ir.FuncName(a)+" which accesses the DB ("+u.detail+")")
					}
				}
			case ssa.CallInstruction:
				call := x.Common()
				for _, a := range call.Args {
					if fv, ok := a.(*ssa.Function); ok {
						if u := unguarded(fv, depth+1); u.bad {
							flag(in, "passes "+ir.FuncName(fv)+" which accesses the DB ("+u.detail+")")
							return
						}
					}
				}
				if h.P.MatchesAny(call, specs...) {
					flag(in, "DB access "+describeCallee(call))
					return
				}
				for _, cal := range h.P.Targets(x) {
					if ir.RelPkg(ir.PkgPathOf(cal)) != "server" || cal == fn {
						continue
					}
					if u := unguarded(cal, depth+1); u.bad {
						flag(in, "calls "+ir.FuncName(cal)+" which accesses the DB without its own check ["+u.detail+" at "+h.pos(u.where)+"]")
						return
					}
				}
			}
		})
		return res
	}

	var names []string
	for i := 0; i < ii.NumMethods(); i++ {
		names = append(names, ii.Method(i).Name())
	}
	sort.Strings(names)
	for _, name := range names {
		m := h.P.Func("server", tn, name)
		if m == nil {
			h.Anchor(rule, "method "+tn+"."+name)
			continue
		}
		construct := "LeaderController." + name
		if why, ok := leaderCoordination[name]; ok {
			h.OK(rule, construct, h.P.Pos(m.Pos()), "coordination entry point, not a data path: "+why)
			continue
		}
		if why, ok := exemptStop[name]; ok {
			// K3: callers restricted to session code
			bad := ""
			for _, s := range h.callersOf(ir.Callee{Pkg: "server", Recv: "LeaderController", Name: name}) {
				o := ir.Outermost(s.Fn)
				// the unchecked list may serve the controller's own session bookkeeping, but no
				// request handler: not a gRPC service implementation, not a data-path method
				isRPC := false
				if o.Signature.Recv() != nil {
					for _, svc := range []string{"OxiaClientServer", "OxiaLogReplicationServer", "OxiaCoordinationServer"} {
						if h.P.FuncMatches(o, ir.Callee{Pkg: "proto", Recv: svc, Name: o.Name()}) {
							isRPC = true
						}
					}
					if ir.TypeIs(o.Signature.Recv().Type(), "server", tn) {
						isRPC = true
					}
				}
				if isRPC {
					bad = fmt.Sprintf("%s is called from %s (%s), a request handler", name, ir.FuncName(o), h.pos(s.Call))
				}
			}
			h.Verdict(bad == "", rule, construct, h.P.Pos(m.Pos()), "exempt: "+why, bad)
			continue
		}
		u := unguarded(m, 0)
		if u.bad {
			h.Bad(rule, construct, h.pos(u.where), u.detail)
		} else {
			h.OK(rule, construct, h.P.Pos(m.Pos()), "every DB access reachable from it is behind a LEADER check taken under the controller lock")
		}
	}
}

func ruleR02b(h *H) {
	const rule = "R02b"
	h.Rule(rule, "K9", "no wal.Wal / wal.Reader method is reachable from the leader's read entry points", 4)
	lt := h.implType(rule, "server", "LeaderController")
	if lt == nil {
		return
	}
	tn := lt.Obj().Name()
	walSpecs := func(c *ssa.CallCommon) bool {
		if c.IsInvoke() {
			return ir.TypeIs(c.Value.Type(), "server/wal", "Wal") || ir.TypeIs(c.Value.Type(), "server/wal", "Reader")
		}
		f := c.StaticCallee()
		return f != nil && ir.RelPkg(ir.PkgPathOf(f)) == "server/wal"
	}
	for _, name := range []string{"Read", "List", "RangeScan", "GetSequenceUpdates", "GetNotifications"} {
		m := h.P.Func("server", tn, name)
		if m == nil {
			h.Anchor(rule, "method "+tn+"."+name)
			continue
		}
		h.Fn(ir.FuncName(m))
		cl := h.P.Closure([]*ssa.Function{m}, func(f *ssa.Function) bool {
			pp := ir.RelPkg(ir.PkgPathOf(f))
			if !ir.InRepo(f) || pp == "proto" || pp == "common/metric" {
				return false
			}
			// do not descend into other entry points of the controller (reached only via
			// CHA noise on interface calls such as io.Closer.Close)
			if f != m && f.Signature.Recv() != nil && ir.TypeIs(f.Signature.Recv().Type(), "server", tn) && f.Parent() == nil {
				if _, coord := leaderCoordination[f.Name()]; coord {
					return false
				}
			}
			return true
		})
		var fns []*ssa.Function
		for f := range cl {
			fns = append(fns, f)
		}
		sort.Slice(fns, func(i, j int) bool { return fns[i].String() < fns[j].String() })
		bad := ""
		var badAt ssa.Instruction
		for _, f := range fns {
			if f.Blocks == nil || !ir.InRepo(f) {
				continue
			}
			if f.Signature.Recv() != nil && ir.TypeIs(f.Signature.Recv().Type(), "server", tn) && f.Parent() == nil && f != m {
				if _, coord := leaderCoordination[f.Name()]; coord {
					continue
				}
			}
			ir.Instrs(f, func(in ssa.Instruction) {
				if bad != "" {
					return
				}
				if c := ir.CallOf(in); c != nil && walSpecs(c) {
					bad = "WAL access " + describeCallee(c) + " reachable via " + ir.PathTo(cl, f)
					badAt = in
				}
			})
		}
		if bad != "" {
			h.Bad(rule, "read entry "+name, h.pos(badAt), bad)
		} else {
			h.OK(rule, "read entry "+name, h.P.Pos(m.Pos()), fmt.Sprintf("%d reachable functions, none touches the WAL", len(fns)))
		}
	}
}

// ruleR02e: the batch layer re-sends a write request when its error is "retriable" (the
// connection could not be made, the node is not the leader ...): all cases in which the
// request was not accepted. A request that is pending on a write stream WAS sent; when the
// stream ends its outcome is unknown, so the error handed to it must not be one of the
// retriable kind, or the same write is applied twice.
func ruleR02e(h *H) {
	const rule = "R02e"
	h.Rule(rule, "K4", "no method of the client's write-stream wrapper constructs a gRPC status error whose code the batch layer's retry predicate (the function comparing status.Code(err) with code constants) accepts", 1)
	// the retriable codes: constants compared with status.Code(err) in oxia/internal/batch
	retriable := map[string]bool{}
	var pred *ssa.Function
	for _, fn := range h.P.Funcs {
		if ir.RelPkg(ir.PkgPathOf(fn)) != "oxia/internal/batch" || fn.Blocks == nil || fn.Signature.Results().Len() != 1 || fn.Signature.Results().At(0).Type().String() != "bool" {
			continue
		}
		var code ssa.Value
		ir.Instrs(fn, func(in ssa.Instruction) {
			if c, ok := in.(*ssa.Call); ok {
				if f := c.Call.StaticCallee(); f != nil && f.Pkg != nil && f.Pkg.Pkg.Path() == "google.golang.org/grpc/status" && f.Name() == "Code" {
					code = c
				}
			}
		})
		if code == nil {
			continue
		}
		pred = fn
		// table form: slices.Contains(<package-level slice of codes>, status.Code(err))
		ir.Instrs(fn, func(in ssa.Instruction) {
			c, ok := in.(*ssa.Call)
			if !ok || len(c.Call.Args) != 2 || ir.Canon(c.Call.Args[1]) != code {
				return
			}
			f := c.Call.StaticCallee()
			if f == nil || !strings.HasPrefix(f.Name(), "Contains") {
				return
			}
			u, isLoad := ir.Canon(c.Call.Args[0]).(*ssa.UnOp)
			if !isLoad {
				return
			}
			g, isGlobal := u.X.(*ssa.Global)
			if !isGlobal {
				return
			}
			for _, initFn := range h.P.Funcs {
				if initFn.Pkg != g.Pkg || !strings.HasPrefix(initFn.Name(), "init") {
					continue
				}
				ir.Instrs(initFn, func(x ssa.Instruction) {
					st, isSt := x.(*ssa.Store)
					if !isSt || st.Addr != ssa.Value(g) {
						return
					}
					sl, isSl := st.Val.(*ssa.Slice)
					if !isSl {
						return
					}
					al, isAl := sl.X.(*ssa.Alloc)
					if !isAl || al.Referrers() == nil {
						return
					}
					for _, r := range *al.Referrers() {
						ia, isIA := r.(*ssa.IndexAddr)
						if !isIA || ia.Referrers() == nil {
							continue
						}
						for _, rr := range *ia.Referrers() {
							if es, isES := rr.(*ssa.Store); isES {
								if k, isK := ir.Canon(es.Val).(*ssa.Const); isK && k.Value != nil {
									retriable[k.Value.ExactString()] = true
								}
							}
						}
					}
				})
			}
		})
		for e, c := range ir.EdgeCmps(fn) {
			_ = e
			for _, cc := range []ir.Cmp{c, c.Flip()} {
				if cc.Op == token.EQL && ir.Canon(cc.L) == code {
					if k, ok := ir.Canon(cc.R).(*ssa.Const); ok && k.Value != nil {
						retriable[k.Value.ExactString()] = true
					}
				}
			}
		}
	}
	if pred == nil || len(retriable) == 0 {
		h.Anchor(rule, "the retry predicate of the client's batch layer (status.Code compared with code constants)")
		return
	}
	h.Fn(ir.FuncName(pred))
	n, built := 0, 0
	for _, fn := range h.P.Funcs {
		o := ir.Outermost(fn)
		if ir.RelPkg(ir.PkgPathOf(fn)) != "oxia/internal" || o.Signature.Recv() == nil || !ir.TypeIs(o.Signature.Recv().Type(), "oxia/internal", "streamWrapper") {
			continue
		}
		n++
		h.Fn(ir.FuncName(fn))
		fn := fn
		ir.Instrs(fn, func(in ssa.Instruction) {
			c, ok := in.(*ssa.Call)
			if !ok {
				return
			}
			f := c.Call.StaticCallee()
			if f == nil || f.Pkg == nil || f.Pkg.Pkg.Path() != "google.golang.org/grpc/status" || len(c.Call.Args) == 0 {
				return
			}
			if f.Name() != "Error" && f.Name() != "Errorf" && f.Name() != "New" && f.Name() != "Newf" {
				return
			}
			built++
			k, isK := ir.Canon(c.Call.Args[0]).(*ssa.Const)
			bad := !isK || k.Value == nil || retriable[k.Value.ExactString()]
			h.Verdict(!bad, rule, fmt.Sprintf("status error #%d built in %s", built, ir.FuncName(fn)), h.pos(in), "a code the batch layer does not retry", "the write-stream wrapper builds an error with a code that "+ir.FuncName(pred)+" treats as retriable: a request that is pending on the stream (already sent, outcome unknown) is failed with it and sent again, so one write can take effect twice")
		})
	}
	if n == 0 {
		h.Anchor(rule, "methods of the client's write-stream wrapper (oxia/internal.streamWrapper)")
		return
	}
	if built == 0 {
		h.OK(rule, "errors handed to pending writes", "", fmt.Sprintf("%d functions of the write-stream wrapper construct no gRPC status error; retriable codes: %d", n, len(retriable)))
	}
}
