package props

import (
	"fmt"
	"go/token"
	"go/types"
	"strings"

	"golang.org/x/tools/go/ssa"

	"oxiaverif/internal/chk"
	"oxiaverif/internal/ir"
)

func init() { register("C18", checkC18) }

var genShards = ir.Callee{Pkg: "common/sharding", Recv: "", Name: "GenerateShards"}

func checkC18(c *chk.Ctx) {
	h := newH(c)
	c.Decided = []string{
		"R18m a client that cannot take an assignment update is cut off (it reloads the full map) rather than skipped",
		"R18a the shard id generator only moves forward, by exactly the number of ids handed to GenerateShards from that generator value; shard ids in the status come from GenerateShards",
		"R18b a shard's hash range is only written when the shard is created (or cloned)",
		"R18c producers map Min->MinHashInclusive and Max->MaxHashInclusive, the client maps them to MinInclusive/MaxInclusive, and both client predicates (membership, overlap) agree with the inclusive-range truth table for every ordering of their operands; every non-deleting shard is published",
		"R18d the only routing hash is the client strategy's xxhash3-32, and both producers advertise that router",
		"R18k every request message with a shard field that the client builds has that field set from a computed shard id (an unset field silently addresses shard 0)",
		"R18j the client routes by the partition key whenever one is given: the partition key's content only flows into the routing hash and the requests, no branch of the client tests what the partition key looks like (only whether it is present)",
		"R18i when the client learns a new shard it evicts every known shard that overlaps it: the scan over the known shards is only left when it is exhausted",
		"R18h a compare-and-set of the cluster status writes a status computed from the snapshot whose version it presents (shared with C05): the id generator is never rolled back by a stale copy",
		"R18g a cluster status built from an existing one (a literal that copies any field of another status) also copies its shard id generator: no derived status restarts the ids at zero",
		"R18f a new namespace gets a shard for every generated range (open finding F19: a failed ensemble selection skips the shard but still creates the namespace)",
	}
	c.NotDec = []string{
		"that GenerateShards' arithmetic partitions 2^32 for every shard count (value-level; holds by hand for n <= 65536)",
		"splits / merges (not implemented in this version)",
	}
	ruleR18a(h)
	ruleR18b(h)
	ruleR18c(h)
	ruleR18d(h)
	ruleR18f(h)
	ruleR18g(h)
	ruleStatusSwapFresh(h, "R18h")
	ruleR18i(h)
	ruleR18j(h)
	ruleClientRequestsCarryShard(h, "R18k")
	ruleUndeliveredAssignmentCutsClient(h, "R18m")
}

func ruleR18a(h *H) {
	const rule = "R18a"
	h.Rule(rule, "K3", "ClusterStatus.ShardIdGenerator is written only by copying the previous value and by `+= n` where n is the count passed to GenerateShards(generator, n) in the same function; keys of NamespaceStatus.Shards are ids of generated shards", 3)
	ws := h.P.FieldWrites("coordinator/model", "ClusterStatus", "ShardIdGenerator")
	if len(ws) == 0 {
		h.Anchor(rule, "model.ClusterStatus.ShardIdGenerator")
		return
	}
	cnt := map[string]int{}
	for _, w := range ws {
		fname := ir.FuncName(ir.Outermost(w.Fn))
		cnt[fname]++
		name := fmt.Sprintf("ShardIdGenerator write #%d in %s", cnt[fname], fname)
		h.Fn(ir.FuncName(w.Fn))
		if w.Val == nil {
			h.Unknown(rule, name, h.pos(w.Instr), "written through an escaped address")
			continue
		}
		v := ir.Canon(w.Val)
		if r, ok := ir.FieldLoadOf(v); ok && r.Is("coordinator/model", "ClusterStatus", "ShardIdGenerator") {
			h.OK(rule, name, h.pos(w.Instr), "copy of the previous generator value")
			continue
		}
		if c, isC := v.(*ssa.Const); isC && c.Value != nil && c.Int64() == 0 {
			h.OK(rule, name, h.pos(w.Instr), "initial value")
			continue
		}
		bo, ok := v.(*ssa.BinOp)
		if !ok || bo.Op != token.ADD || !ir.LoadsField(bo.X, "coordinator/model", "ClusterStatus", "ShardIdGenerator") {
			h.Bad(rule, name, h.pos(w.Instr), "the id generator is assigned "+ir.Describe(w.Val)+" (neither a copy nor an increment of itself)")
			continue
		}
		// the increment equals the count handed to GenerateShards with this generator as base
		good := false
		why := "no GenerateShards call in this function uses the generator as base"
		for _, g := range h.P.CallsIn(w.Fn, genShards) {
			base, n := argOf(g.Common(), 0), argOf(g.Common(), 1)
			if !ir.LoadsField(base, "coordinator/model", "ClusterStatus", "ShardIdGenerator") {
				why = "GenerateShards is not based on the id generator"
				continue
			}
			if !ir.SameExpr(stripConv(ir.Canon(bo.Y)), stripConv(ir.Canon(n))) && !isLenOf(stripConv(ir.Canon(bo.Y)), g) {
				why = "the generator advances by " + ir.Describe(bo.Y) + " but " + ir.Describe(n) + " ids were generated: ids handed out can be generated again for the next namespace"
				continue
			}
			// the generator must not be advanced between computing the ids and the increment more than once per call:
			if r, _ := ir.Reach(ir.Search{From: g}, ir.Is(w.Instr)); !r {
				why = "the increment does not follow the id generation"
				continue
			}
			good = true
		}
		h.Verdict(good, rule, name, h.pos(w.Instr), "advances by the number of ids generated from it", why)
	}
	// keys of NamespaceStatus.Shards
	n := 0
	for _, fn := range h.P.Funcs {
		if !strings.HasPrefix(ir.RelPkg(ir.PkgPathOf(fn)), "coordinator") {
			continue
		}
		ir.Instrs(fn, func(in ssa.Instruction) {
			mu, ok := in.(*ssa.MapUpdate)
			if !ok {
				return
			}
			r, isField := ir.FieldLoadOf(ir.Canon(mu.Map))
			if !isField || !r.Is("coordinator/model", "NamespaceStatus", "Shards") {
				return
			}
			n++
			h.Fn(ir.FuncName(fn))
			k := ir.Canon(mu.Key)
			kr, isKF := ir.FieldLoadOf(k)
			fromGenerated := isKF && kr.Field == "Id" && kr.Struct != nil && kr.Struct.Obj().Name() == "Shard"
			// re-insertion of an existing entry under its own key (status updates, clones)
			_, isRangeKey := k.(*ssa.Extract)
			_, isParam := k.(*ssa.Parameter)
			h.Verdict(fromGenerated || isRangeKey || isParam, rule, fmt.Sprintf("shard map key #%d in %s", n, ir.FuncName(fn)), h.pos(in), "id of a generated shard / existing key", "a shard is stored under "+ir.Describe(mu.Key)+", which is neither a generated id nor an existing key")
		})
	}
}

func ruleR18b(h *H) {
	const rule = "R18b"
	h.Rule(rule, "K3", "ShardMetadata.Int32HashRange is only written in composite literals that create a shard or copy one", 1)
	ws := h.P.FieldWrites("coordinator/model", "ShardMetadata", "Int32HashRange")
	n := 0
	for _, w := range ws {
		n++
		h.Fn(ir.FuncName(w.Fn))
		name := fmt.Sprintf("hash range write #%d in %s", n, ir.FuncName(w.Fn))
		ok := freshObject(storeAddr(w.Instr))
		if !ok {
			// store of a whole value copied from another ShardMetadata (Clone)
			if w.Val != nil {
				if r, isF := ir.FieldLoadOf(ir.Canon(w.Val)); isF && r.Is("coordinator/model", "ShardMetadata", "Int32HashRange") {
					ok = true
				}
			}
		}
		h.Verdict(ok, rule, name, h.pos(w.Instr), "creation / copy", "the hash range of an existing shard is modified ("+w.Kind+")")
	}
	for _, f := range []string{"Min", "Max"} {
		for _, w := range h.P.FieldWrites("coordinator/model", "Int32HashRange", f) {
			n++
			name := fmt.Sprintf("hash range bound %s write in %s", f, ir.FuncName(w.Fn))
			h.Verdict(freshObject(storeAddr(w.Instr)), rule, name, h.pos(w.Instr), "part of a shard being created", "a bound of an existing hash range is modified")
		}
	}
	if n == 0 {
		h.Anchor(rule, "writes of ShardMetadata.Int32HashRange")
	}
}

// freshObject: the address the store goes through belongs to an object that is created
// in this function and never assigned as a whole (i.e. it is being built field by
// field, as opposed to a copy of an existing shard that is modified and written back).
func freshObject(addr ssa.Value) bool {
	for i := 0; i < 6; i++ {
		switch x := addr.(type) {
		case *ssa.FieldAddr:
			addr = x.X
		case *ssa.Alloc:
			for _, st := range ir.AllStores(x) {
				if st.Addr == ssa.Value(x) {
					return false // whole-value assignment: a copy of something existing
				}
			}
			return true
		default:
			return false
		}
	}
	return false
}

func storeAddr(in ssa.Instruction) ssa.Value {
	switch x := in.(type) {
	case *ssa.Store:
		return x.Addr
	case *ssa.FieldAddr:
		return x
	}
	return nil
}

func ruleR18c(h *H) {
	const rule = "R18c"
	h.Rule(rule, "K7", "Min/Max -> MinHashInclusive/MaxHashInclusive at every producer; MinHashInclusive/MaxHashInclusive -> MinInclusive/MaxInclusive at the client; the routing predicate and the overlap test agree with the inclusive-range truth tables; only deleting shards are left out of the published assignments", 5)
	// producers
	for _, pair := range [][2]string{{"MinHashInclusive", "Min"}, {"MaxHashInclusive", "Max"}} {
		ws := h.P.FieldWrites("proto", "Int32HashRange", pair[0])
		n := 0
		for _, w := range ws {
			pkg := ir.RelPkg(ir.PkgPathOf(w.Fn))
			if pkg == "proto" || w.Val == nil {
				continue
			}
			n++
			h.Fn(ir.FuncName(w.Fn))
			r, ok := ir.FieldLoadOf(ir.Canon(w.Val))
			good := ok && r.Field == pair[1]
			h.Verdict(good, rule, fmt.Sprintf("%s producer in %s", pair[0], ir.FuncName(w.Fn)), h.pos(w.Instr), "from ."+pair[1], pair[0]+" is filled from "+ir.Describe(w.Val)+" instead of the range's "+pair[1])
		}
		if n == 0 {
			h.Anchor(rule, "producers of proto.Int32HashRange."+pair[0])
		}
	}
	// client consumer
	for _, pair := range [][2]string{{"MinInclusive", "MinHashInclusive"}, {"MaxInclusive", "MaxHashInclusive"}} {
		n := 0
		for _, w := range h.P.FieldWrites("oxia/internal", "HashRange", pair[0]) {
			if w.Val == nil {
				continue
			}
			v := ir.Canon(w.Val)
			if _, isParam := v.(*ssa.Parameter); isParam {
				continue // plain constructor helper
			}
			n++
			h.Fn(ir.FuncName(w.Fn))
			good := isMsgField(v, "Int32HashRange", pair[1])
			h.Verdict(good, rule, fmt.Sprintf("%s consumer in %s", pair[0], ir.FuncName(w.Fn)), h.pos(w.Instr), "from "+pair[1], pair[0]+" is filled from "+ir.Describe(w.Val))
		}
		if n == 0 {
			h.Anchor(rule, "client conversion to HashRange."+pair[0])
		}
	}
	// predicates over HashRange bounds in oxia/internal: decided by their truth table, not by
	// the comparison operators they happen to use
	n := 0
	for _, fn := range h.P.Funcs {
		if ir.RelPkg(ir.PkgPathOf(fn)) != "oxia/internal" {
			continue
		}
		n += hashRangePredicate(h, rule, fn)
	}
	if n == 0 {
		h.Anchor(rule, "comparisons over HashRange bounds in oxia/internal")
	}
	// published unless deleting
	for _, w := range h.P.FieldWrites("proto", "NamespaceShardsAssignment", "Assignments") {
		if !strings.HasPrefix(ir.RelPkg(ir.PkgPathOf(w.Fn)), "coordinator") || w.Val == nil {
			continue
		}
		if _, isApp := ir.Canon(w.Val).(*ssa.Call); !isApp {
			continue
		}
		h.Fn(ir.FuncName(w.Fn))
		// guards that depend on the per-shard value (the element of the range over the
		// namespace's shards): only `status != Deleting` may keep a shard out
		okOnly := true
		has := false
		isRangeElem := func(x ssa.Value) bool {
			ex, ok := x.(*ssa.Extract)
			if !ok {
				return false
			}
			_, isNext := ex.Tuple.(*ssa.Next)
			return isNext && ex.Index == 2 && ir.TypeIs(ex.Type(), "coordinator/model", "ShardMetadata")
		}
		isShardValue := func(x ssa.Value) bool {
			if isRangeElem(x) {
				return true
			}
			// a field of the local copy of the range element
			if r, ok := ir.FieldLoadOf(x); ok && r.Struct != nil && r.Struct.Obj().Name() == "ShardMetadata" {
				if al, isAl := r.Base.(*ssa.Alloc); isAl {
					for _, st := range ir.AllStores(al) {
						if isRangeElem(st.Val) {
							return true
						}
					}
				}
			}
			return false
		}
		for _, g := range ir.Guards(w.Instr) {
			if !ir.DependsOn(g.Cond, isShardValue) {
				continue
			}
			c, isCmp := g.AsCmp()
			if isCmp && c.Op == token.NEQ && (isStatusOfRangeValue(c.L) || isStatusOfRangeValue(c.R) || ir.LoadsField(c.L, "coordinator/model", "ShardMetadata", "Status") || ir.LoadsField(c.R, "coordinator/model", "ShardMetadata", "Status")) {
				has = true
				continue
			}
			okOnly = false
			h.Note("published-shards guard not recognised: %s taken=%v", ir.Describe(g.Cond), g.Taken)
		}
		h.Verdict(has && okOnly, rule, "published shards in "+ir.FuncName(w.Fn), h.pos(w.Instr), "every shard whose status != Deleting is published", "the published assignments are filtered by something other than `status != Deleting`: a live shard's range could be missing from the map")
	}
}

func isStatusOfRangeValue(v ssa.Value) bool {
	f, ok := ir.Canon(v).(*ssa.Field)
	if !ok {
		return false
	}
	st, ok := f.X.Type().Underlying().(*types.Struct)
	return ok && st.Field(f.Field).Name() == "Status"
}

func ruleR18d(h *H) {
	const rule = "R18d"
	h.Rule(rule, "K6", "hash.Xxh332 is only referenced by the client's shard strategy; every producer of NamespaceShardsAssignment advertises ShardKeyRouter_XXHASH3", 3)
	hashFn := h.P.Func("common/hash", "", "Xxh332")
	if hashFn == nil {
		h.Anchor(rule, "common/hash.Xxh332")
		return
	}
	n := 0
	for _, fn := range h.P.Funcs {
		ir.Instrs(fn, func(in ssa.Instruction) {
			for _, op := range in.Operands(nil) {
				if *op == ssa.Value(hashFn) {
					n++
					pkg := ir.RelPkg(ir.PkgPathOf(fn))
					h.Verdict(pkg == "oxia/internal", rule, fmt.Sprintf("use of Xxh332 in %s", ir.FuncName(fn)), h.pos(in), "the client's shard strategy", "the routing hash is used outside the client's shard strategy")
				}
			}
		})
	}
	// other hash functions used for routing in the client
	for _, fn := range h.P.Funcs {
		if ir.RelPkg(ir.PkgPathOf(fn)) != "oxia/internal" {
			continue
		}
		ir.Instrs(fn, func(in ssa.Instruction) {
			c := ir.CallOf(in)
			if c == nil {
				return
			}
			if f := c.StaticCallee(); f != nil && f.Pkg != nil {
				p := f.Pkg.Pkg.Path()
				if strings.HasPrefix(p, "hash/") || strings.Contains(p, "xxhash") || strings.Contains(p, "murmur") {
					h.Bad(rule, "second hash in "+ir.FuncName(fn), h.pos(in), "the client computes a hash with "+p+"."+f.Name()+": client and server would disagree on the shard of a key")
				}
			}
		})
	}
	m := 0
	for _, w := range h.P.FieldWrites("proto", "NamespaceShardsAssignment", "ShardKeyRouter") {
		pkg := ir.RelPkg(ir.PkgPathOf(w.Fn))
		if pkg == "proto" {
			continue
		}
		m++
		h.Fn(ir.FuncName(w.Fn))
		h.Verdict(h.isConst(w.Val, "proto", "ShardKeyRouter_XXHASH3"), rule, "advertised router in "+ir.FuncName(w.Fn), h.pos(w.Instr), "XXHASH3", "a producer advertises a different key router than the hash the client uses")
	}
	if n == 0 || m == 0 {
		h.Anchor(rule, "uses of Xxh332 / producers of ShardKeyRouter")
	}
}

func ruleR18f(h *H) {
	const rule = "R18f"
	h.Rule(rule, "K1", "in the loop over the generated shards of a new namespace, every iteration stores the shard into the namespace's shard map (or the namespace is not created)", 1)
	n := 0
	for _, s := range h.P.AllCalls(func(f *ssa.Function) bool { return strings.HasPrefix(ir.RelPkg(ir.PkgPathOf(f)), "coordinator") }, genShards) {
		fn := s.Fn
		// the element loads of the range over the result
		var elem ssa.Instruction
		ir.Instrs(fn, func(in ssa.Instruction) {
			if u, ok := in.(*ssa.UnOp); ok && u.Op == token.MUL {
				if ia, ok := u.X.(*ssa.IndexAddr); ok && ir.Canon(ia.X) == ssa.Value(s.Call.Value()) && elem == nil {
					elem = in
				}
			}
		})
		if elem == nil {
			continue
		}
		n++
		h.Fn(ir.FuncName(fn))
		isStore := func(in ssa.Instruction) bool {
			mu, ok := in.(*ssa.MapUpdate)
			if !ok {
				return false
			}
			mt, ok := mu.Map.Type().Underlying().(*types.Map)
			return ok && ir.TypeIs(mt.Elem(), "coordinator/model", "ShardMetadata")
		}
		r, path := ir.Reach(ir.Search{From: elem, Barrier: isStore}, ir.Is(elem))
		h.Verdict(!r, rule, "every generated shard of a new namespace is stored", h.pos(elem), "each iteration stores its shard",
			"an iteration over the generated shards can complete without storing the shard (e.g. when no ensemble can be selected) while the namespace is still created and the id generator advanced: the published map has a hole in the hash space", witness(path))
	}
	if n == 0 {
		h.Anchor(rule, "loop over GenerateShards(...) in the coordinator")
	}
}

// hashRangePredicate decides a function of oxia/internal that compares HashRange bounds.
// A bool function over one range and one other operand must be the inclusive membership
// test (min <= x <= max); a bool function over two ranges must be the intersection test
// of two inclusive ranges. Each is executed abstractly for every ordering of small
// representative values (K11). Bound comparisons anywhere else are accepted when
// inclusive (<=, >=) and undecided otherwise.
func hashRangePredicate(h *H, rule string, fn *ssa.Function) int {
	bases := map[string]int{}
	others := map[ssa.Value]bool{}
	var cmps []*ssa.BinOp
	boundOf := func(v ssa.Value) (string, bool) {
		r, ok := ir.FieldLoadOf(ir.Canon(v))
		if !ok || r.Struct == nil || r.Struct.Obj().Name() != "HashRange" {
			return "", false
		}
		b := rangeBaseKey(r.Base)
		if _, seen := bases[b]; !seen {
			bases[b] = len(bases)
		}
		kind := "min"
		if strings.HasPrefix(r.Field, "Max") {
			kind = "max"
		}
		return fmt.Sprintf("r%d.%s", bases[b], kind), true
	}
	ir.Instrs(fn, func(in ssa.Instruction) {
		bo, ok := in.(*ssa.BinOp)
		if !ok {
			return
		}
		switch bo.Op {
		case token.LEQ, token.GEQ, token.LSS, token.GTR, token.EQL, token.NEQ:
		default:
			return
		}
		_, lb := boundOf(bo.X)
		_, rb := boundOf(bo.Y)
		if !lb && !rb {
			return
		}
		if !lb {
			others[stripConv(ir.Canon(bo.X))] = true
		}
		if !rb {
			others[stripConv(ir.Canon(bo.Y))] = true
		}
		cmps = append(cmps, bo)
	})
	if len(cmps) == 0 {
		return 0
	}
	h.Fn(ir.FuncName(fn))
	res := fn.Signature.Results()
	isPred := res.Len() == 1 && types.Identical(res.At(0).Type().Underlying(), types.Typ[types.Bool])
	kind := ""
	switch {
	case isPred && len(bases) == 1 && len(others) == 1:
		kind = "membership"
	case isPred && len(bases) == 2 && len(others) == 0:
		kind = "overlap"
	}
	if kind == "" {
		for i, bo := range cmps {
			name := fmt.Sprintf("bound comparison #%d in %s", i+1, ir.FuncName(fn))
			if bo.Op == token.LEQ || bo.Op == token.GEQ {
				h.OK(rule, name, h.pos(bo), "inclusive ("+bo.Op.String()+")")
			} else {
				h.Unknown(rule, name, h.pos(bo), "a hash-range bound is compared with "+bo.Op.String()+" outside a membership / intersection predicate: cannot decide that the inclusive bounds are honoured")
			}
		}
		return len(cmps)
	}
	cls := func(v ssa.Value, _ []*ssa.BasicBlock) string {
		if n, ok := boundOf(v); ok {
			return n
		}
		if others[stripConv(ir.Canon(v))] {
			return "x"
		}
		return ""
	}
	name := kind + " predicate " + ir.FuncName(fn)
	eval := func(c ir.AbsCase) (bool, bool, string) {
		path, ok, why := ir.AbsWalk(fn.Blocks[0], nil, nil, cls, c)
		if !ok {
			return false, false, why
		}
		ret, isRet := path[len(path)-1].Instrs[len(path[len(path)-1].Instrs)-1].(*ssa.Return)
		if !isRet || len(ret.Results) != 1 {
			return false, false, "path does not end in a return of the predicate's value"
		}
		return ir.AbsBool(ret.Results[0], path, cls, c)
	}
	cases, bad := 0, ""
	check := func(c ir.AbsCase, want bool, desc string) bool {
		cases++
		got, known, why := eval(c)
		if !known {
			h.Unknown(rule, name, h.P.Pos(fn.Pos()), "cannot evaluate the predicate for "+desc+": "+why)
			return false
		}
		if got != want && bad == "" {
			bad = fmt.Sprintf("for %s the predicate answers %v, the inclusive ranges require %v", desc, got, want)
		}
		return true
	}
	if kind == "membership" {
		for mn := int64(0); mn <= 2; mn++ {
			for mx := mn; mx <= 2; mx++ {
				for x := int64(0); x <= 3; x++ {
					if mn == 0 && x == 0 && false {
						continue
					}
					c := ir.AbsCase{Vals: map[string]int64{"r0.min": mn + 1, "r0.max": mx + 1, "x": x}}
					if !check(c, mn+1 <= x && x <= mx+1, fmt.Sprintf("range [%d,%d] and hash %d", mn+1, mx+1, x)) {
						return 1
					}
				}
			}
		}
	} else {
		for a0 := int64(0); a0 <= 3; a0++ {
			for a1 := a0; a1 <= 3; a1++ {
				for b0 := int64(0); b0 <= 3; b0++ {
					for b1 := b0; b1 <= 3; b1++ {
						c := ir.AbsCase{Vals: map[string]int64{"r0.min": a0, "r0.max": a1, "r1.min": b0, "r1.max": b1}}
						lo, hi := a0, a1
						if b0 > lo {
							lo = b0
						}
						if b1 < hi {
							hi = b1
						}
						if !check(c, lo <= hi, fmt.Sprintf("ranges [%d,%d] and [%d,%d]", a0, a1, b0, b1)) {
							return 1
						}
					}
				}
			}
		}
	}
	h.Verdict(bad == "", rule, name, h.P.Pos(fn.Pos()), fmt.Sprintf("agrees with the inclusive-range %s table in all %d value orderings", kind, cases), bad+": a hash equal to a bound belongs to no shard, or adjacent / nested ranges are treated wrongly")
	return 1
}

// isLenOf: v is len(<the result of call g>) — for GenerateShards the ids handed out are
// base .. base+len-1, so advancing the generator by the length is exactly right.
func isLenOf(v ssa.Value, g ssa.CallInstruction) bool {
	c, ok := v.(*ssa.Call)
	if !ok {
		return false
	}
	b, isB := c.Call.Value.(*ssa.Builtin)
	if !isB || b.Name() != "len" || len(c.Call.Args) != 1 {
		return false
	}
	gv, _ := g.(ssa.Value)
	return gv != nil && ir.Canon(c.Call.Args[0]) == gv
}

// ruleR18g: a ClusterStatus literal that takes anything from an existing status must
// carry that status's ShardIdGenerator over. A derived status without it is stored with
// generator 0 and the next namespace is given ids that live shards already use.
func ruleR18g(h *H) {
	const rule = "R18g"
	h.Rule(rule, "K3", "every ClusterStatus composite literal in which some field is initialised from a field of another ClusterStatus also initialises ShardIdGenerator from a ClusterStatus.ShardIdGenerator", 2)
	n := 0
	for _, fn := range h.P.Funcs {
		if !ir.InRepo(fn) {
			continue
		}
		idx := 0
		ir.Instrs(fn, func(in ssa.Instruction) {
			al, ok := in.(*ssa.Alloc)
			if !ok || !ir.TypeIs(al.Type(), "coordinator/model", "ClusterStatus") || al.Referrers() == nil {
				return
			}
			fromStatus := func(v ssa.Value) bool {
				return ir.DependsOn(v, func(x ssa.Value) bool {
					r, ok := ir.FieldLoadOf(x)
					return ok && r.Struct != nil && r.Struct.Obj().Name() == "ClusterStatus" && r.Struct.Obj().Pkg() != nil && strings.HasSuffix(r.Struct.Obj().Pkg().Path(), "coordinator/model") && ir.Canon(r.Base) != ssa.Value(al)
				})
			}
			derived, hasGen, any := "", false, false
			for _, r := range *al.Referrers() {
				fa, ok := r.(*ssa.FieldAddr)
				if !ok || fa.Referrers() == nil {
					continue
				}
				ref, ok := ir.FieldAddrOf(fa)
				if !ok {
					continue
				}
				for _, rr := range *fa.Referrers() {
					st, ok := rr.(*ssa.Store)
					if !ok || st.Addr != fa {
						continue
					}
					any = true
					if ref.Field == "ShardIdGenerator" {
						if ir.LoadsField(st.Val, "coordinator/model", "ClusterStatus", "ShardIdGenerator") {
							hasGen = true
						}
						continue
					}
					if fromStatus(st.Val) {
						derived = ref.Field
					}
				}
			}
			if !any || derived == "" {
				return
			}
			n++
			idx++
			h.Fn(ir.FuncName(fn))
			h.Verdict(hasGen, rule, fmt.Sprintf("derived cluster status #%d in %s", idx, ir.FuncName(fn)), h.pos(in), "copies the shard id generator of the status it is derived from",
				"this status takes "+derived+" from an existing status but not its ShardIdGenerator: once it is stored the generator restarts at 0 and new namespaces are given shard ids that are still in use")
		})
	}
	if n == 0 {
		h.Anchor(rule, "ClusterStatus literals derived from an existing status")
	}
}

// rangeBaseKey names the object a HashRange bound is read from structurally, so that two
// extractions of the same struct field (two ssa.Field instructions) count as one range.
func rangeBaseKey(v ssa.Value) string {
	c := ir.Canon(v)
	switch x := c.(type) {
	case *ssa.Field:
		if st, ok := x.X.Type().Underlying().(*types.Struct); ok {
			return rangeBaseKey(x.X) + "." + st.Field(x.Field).Name()
		}
	case *ssa.FieldAddr:
		if r, ok := ir.FieldAddrOf(x); ok {
			return rangeBaseKey(r.Base) + "." + r.Field
		}
	case *ssa.UnOp:
		if x.Op == token.MUL {
			return rangeBaseKey(x.X)
		}
	case *ssa.Parameter:
		return "param:" + x.Name()
	}
	return fmt.Sprintf("%p", c)
}

// ruleR18i: the client replaces known shards by newly announced ones. A new shard can cover
// several known shards (a namespace re-created with fewer shards, a merge), so the scan
// that evicts overlapping entries must visit every known shard: leaving it after the first
// eviction keeps overlapping ranges (a key then matches two shards, one of them stale).
func ruleR18i(h *H) {
	const rule = "R18i"
	h.Rule(rule, "K1", "in the client's shard manager the loop that deletes overlapping known shards is only left at its header (when the known shards are exhausted)", 1)
	n := 0
	for _, fn := range h.P.Funcs {
		if ir.RelPkg(ir.PkgPathOf(fn)) != "oxia/internal" {
			continue
		}
		ir.Instrs(fn, func(in ssa.Instruction) {
			c := ir.CallOf(in)
			if c == nil {
				return
			}
			b, ok := c.Value.(*ssa.Builtin)
			if !ok || b.Name() != "delete" {
				return
			}
			mt, ok := c.Args[0].Type().Underlying().(*types.Map)
			if !ok || !ir.TypeIs(mt.Elem(), "oxia/internal", "Shard") {
				return
			}
			// the scan: a range loop over a map of shards whose header dominates the delete
			var header *ssa.BasicBlock
			ir.Instrs(fn, func(x ssa.Instruction) {
				nx, ok := x.(*ssa.Next)
				if !ok {
					return
				}
				rg, ok := nx.Iter.(*ssa.Range)
				if !ok {
					return
				}
				rmt, ok := rg.X.Type().Underlying().(*types.Map)
				if !ok || !ir.TypeIs(rmt.Elem(), "oxia/internal", "Shard") {
					return
				}
				if nx.Block().Dominates(in.Block()) {
					header = nx.Block()
				}
			})
			if header == nil {
				return
			}
			n++
			h.Fn(ir.FuncName(fn))
			loop := ir.LoopBlocks(header)
			bad := ""
			if !loop[in.Block()] {
				bad = "after evicting one overlapping shard the scan over the known shards is not continued (break): further known shards that overlap the new one stay in the map"
			}
			for blk := range loop {
				if blk == header {
					continue
				}
				for _, s := range blk.Succs {
					if !loop[s] {
						bad = fmt.Sprintf("the scan over the known shards can be left from its body (block b%d, e.g. a break after the first eviction): further known shards that overlap the new one stay in the map", blk.Index)
					}
				}
			}
			h.Verdict(bad == "", rule, fmt.Sprintf("overlap eviction #%d in %s", n, ir.FuncName(fn)), h.pos(in), "the scan runs until the known shards are exhausted", bad)
		})
	}
	// the library form: maps.DeleteFunc(shards, overlaps) visits every entry by construction
	for _, fn := range h.P.Funcs {
		if ir.RelPkg(ir.PkgPathOf(fn)) != "oxia/internal" {
			continue
		}
		ir.Instrs(fn, func(in ssa.Instruction) {
			c := ir.CallOf(in)
			if c == nil {
				return
			}
			f := c.StaticCallee()
			o := f
			if f != nil && f.Origin() != nil {
				o = f.Origin()
			}
			if o == nil || o.Pkg == nil || !strings.HasSuffix(o.Pkg.Pkg.Path(), "maps") || o.Name() != "DeleteFunc" || len(c.Args) != 2 {
				return
			}
			mt, ok := c.Args[0].Type().Underlying().(*types.Map)
			if !ok || !ir.TypeIs(mt.Elem(), "oxia/internal", "Shard") {
				return
			}
			n++
			h.Fn(ir.FuncName(fn))
			h.OK(rule, fmt.Sprintf("overlap eviction #%d in %s", n, ir.FuncName(fn)), h.pos(in), "maps.DeleteFunc visits every known shard")
		})
	}
	if n == 0 {
		h.Anchor(rule, "delete of an overlapping shard from the client's shard map inside a loop")
	}
}

// ruleR18j: single-key operations and the single-shard forms of list / range-scan /
// delete-range must agree on the shard of a partition key. They agree because each of them
// asks one question only — is a partition key given? — and, if so, hashes it. A branch on
// the partition key's content anywhere in the client (empty, prefix, length …) makes some
// operations fall back to the record key or to all shards while others still route by the
// partition key: records written with that partition key are then scattered.
func ruleR18j(h *H) {
	const rule = "R18j"
	h.Rule(rule, "K2", "the dereferenced partition key (the *string whose content is handed to ShardManager.Get) is never an operand of a comparison or of len() in the client", 1)
	get := ir.Callee{Pkg: "oxia/internal", Recv: "ShardManager", Name: "Get"}
	type origin struct {
		method string       // invoke of an interface method returning *string
		st     *types.Named // or load of a *string field
		field  string
	}
	originOf := func(p ssa.Value) (origin, bool) {
		switch x := ir.Canon(p).(type) {
		case *ssa.Call:
			if x.Call.IsInvoke() {
				return origin{method: x.Call.Method.Name()}, true
			}
			if f := x.Call.StaticCallee(); f != nil && ir.InRepo(f) {
				return origin{method: f.Name()}, true
			}
		default:
			if r, ok := ir.FieldLoadOf(ir.Canon(p)); ok && r.Struct != nil {
				return origin{st: r.Struct, field: r.Field}, true
			}
		}
		return origin{}, false
	}
	isStrPtr := func(t types.Type) bool {
		pt, ok := t.Underlying().(*types.Pointer)
		if !ok {
			return false
		}
		b, ok := pt.Elem().Underlying().(*types.Basic)
		return ok && b.Kind() == types.String
	}
	inClient := func(fn *ssa.Function) bool { return ir.RelPkg(ir.PkgPathOf(fn)) == "oxia" }
	// (1) discover the partition-key pointers from the routing calls
	origins := map[origin]bool{}
	for _, cs := range h.P.AllCalls(inClient, get) {
		args := cs.Call.Common().Args
		if len(args) == 0 {
			continue
		}
		if u, ok := ir.Canon(args[len(args)-1]).(*ssa.UnOp); ok && u.Op == token.MUL && isStrPtr(u.X.Type()) {
			if o, ok := originOf(u.X); ok {
				origins[o] = true
			}
		}
	}
	if len(origins) == 0 {
		h.Anchor(rule, "a call ShardManager.Get(*<partition key>) in package oxia")
		return
	}
	// option structs hand the same pointer out through a field and through an accessor:
	// fields of type *string that such an accessor returns belong to the role too
	for _, fn := range h.P.Funcs {
		if !inClient(fn) || fn.Signature.Recv() == nil || !origins[origin{method: fn.Name()}] || fn.Blocks == nil {
			continue
		}
		ir.Instrs(fn, func(in ssa.Instruction) {
			if ret, ok := in.(*ssa.Return); ok && len(ret.Results) == 1 {
				if r, isF := ir.FieldLoadOf(ir.Canon(ret.Results[0])); isF && r.Struct != nil {
					origins[origin{st: r.Struct, field: r.Field}] = true
				}
			}
		})
	}
	// (2) every dereference of such a pointer: its uses
	n := 0
	for _, fn := range h.P.Funcs {
		if !inClient(fn) || fn.Blocks == nil {
			continue
		}
		fn := fn
		ir.Instrs(fn, func(in ssa.Instruction) {
			u, ok := in.(*ssa.UnOp)
			if !ok || u.Op != token.MUL || !isStrPtr(u.X.Type()) {
				return
			}
			o, ok := originOf(u.X)
			if !ok {
				return
			}
			if !origins[o] {
				// embedded option structs: same field name on another struct of the package counts
				match := false
				for k := range origins {
					if k.st != nil && o.st != nil && k.field == o.field {
						match = true
					}
				}
				if !match {
					return
				}
			}
			n++
			h.Fn(ir.FuncName(fn))
			bad := ""
			for _, use := range valueUses(u) {
				switch x := use.(type) {
				case *ssa.BinOp:
					switch x.Op {
					case token.EQL, token.NEQ, token.LSS, token.LEQ, token.GTR, token.GEQ:
						bad = "compared (" + x.Op.String() + ") at " + h.pos(x)
					}
				case *ssa.Call:
					if b, isB := x.Call.Value.(*ssa.Builtin); isB && b.Name() == "len" {
						bad = "measured with len() at " + h.pos(x)
					}
					if f := x.Call.StaticCallee(); f != nil && f.Pkg != nil && f.Pkg.Pkg.Path() == "strings" {
						bad = "inspected with strings." + f.Name() + " at " + h.pos(x)
					}
				}
			}
			h.Verdict(bad == "", rule, fmt.Sprintf("partition key content #%d in %s", n, ir.FuncName(fn)), h.pos(in), "only hashed / forwarded", "the content of the partition key is "+bad+": operations that take this branch route differently from the ones that only test whether a partition key is given, so one partition key no longer maps to one shard")
		})
	}
	if n == 0 {
		h.Anchor(rule, "dereferences of the partition key in package oxia")
	}
}

// ruleClientRequestsCarryShard: client and server agree on the shard of a request only if
// the request says which shard it is for. The `shard` fields of the public protocol are
// plain or optional int64s: a request built without it is not rejected, it is served by
// shard 0 (or refused by a node that does not lead shard 0).
func ruleClientRequestsCarryShard(h *H, rule string) {
	h.Rule(rule, "K3", "every construction of a protocol message with a Shard field in the client packages stores a non-constant shard id into it", 6)
	n := 0
	for _, fn := range h.P.Funcs {
		if pkg := ir.RelPkg(ir.PkgPathOf(fn)); pkg != "oxia" && !strings.HasPrefix(pkg, "oxia/") {
			continue
		}
		if fn.Blocks == nil {
			continue
		}
		fn := fn
		ir.Instrs(fn, func(in ssa.Instruction) {
			al, ok := in.(*ssa.Alloc)
			if !ok {
				return
			}
			pt, _ := al.Type().Underlying().(*types.Pointer)
			if pt == nil {
				return
			}
			named, _ := types.Unalias(pt.Elem()).(*types.Named)
			if named == nil || named.Obj().Pkg() == nil || ir.RelPkg(named.Obj().Pkg().Path()) != "proto" {
				return
			}
			st, _ := named.Underlying().(*types.Struct)
			has := false
			for i := 0; st != nil && i < st.NumFields(); i++ {
				if st.Field(i).Name() == "Shard" {
					has = true
				}
			}
			if !has {
				return
			}
			// only messages that are built here (some field is stored), not decode targets
			built, shardSet, constant := false, false, false
			if rs := al.Referrers(); rs != nil {
				for _, r := range *rs {
					fa, isFA := r.(*ssa.FieldAddr)
					if !isFA || fa.Referrers() == nil {
						continue
					}
					for _, u := range *fa.Referrers() {
						sto, isSt := u.(*ssa.Store)
						if !isSt || sto.Addr != fa {
							continue
						}
						built = true
						if ref, _ := ir.FieldAddrOf(fa); ref.Field == "Shard" {
							shardSet = true
							if _, isC := ir.Canon(sto.Val).(*ssa.Const); isC {
								constant = true
							}
						}
					}
				}
			}
			if !built {
				return
			}
			n++
			h.Fn(ir.FuncName(fn))
			name := fmt.Sprintf("%s built in %s", named.Obj().Name(), ir.FuncName(fn))
			switch {
			case !shardSet:
				h.Bad(rule, name, h.pos(in), "the request is built without its shard field: the server serves it from shard 0, whatever shard the client resolved for the key or partition key")
			case constant:
				h.Bad(rule, name, h.pos(in), "the shard field of the request is a constant")
			default:
				h.OK(rule, name, h.pos(in), "shard field set")
			}
		})
	}
	if n == 0 {
		h.Anchor(rule, "constructions of protocol requests with a Shard field in the client")
	}
}
