package props

import (
	"fmt"
	"go/token"
	"go/types"
	"sort"
	"strings"

	"golang.org/x/tools/go/ssa"

	"oxiaverif/internal/chk"
	"oxiaverif/internal/ir"
)

func init() { register("C20", checkC20) }

const batchPkg = "oxia/internal/batch"

func checkC20(c *chk.Ctx) {
	h := newH(c)
	c.Decided = []string{
		"R20k the result channel of every single-result operation has room for its result (an abandoned call cannot block the shard's batcher)",
		"R20j writes already sent on a broken stream are failed with a non-retriable error",
		"R20i a batch that accepted its calls is sent: Complete fails the queued calls only after the request was executed and failed (whatever CanAdd admitted must not be refused afterwards)",
		"R20a positional mapping: every callback is invoked with response.<F>[i] where i is the index of its own call in the slice that toProto serialises into request.<F>",
		"R20b a non-empty batch is answered through exactly one of Fail / handle; both walk every call slice that toProto serialises and invoke each element's callback on every iteration; the batcher adds every received call to a batch before receiving the next",
		"R20h in the batcher's run loop a stopped linger timer never belongs to a batch that stays open: after every timer.Stop() the batch variable is re-assigned (nil or a fresh batch) before the loop waits again",
		"R20c the multi-shard get callback leaves with its 'already answered' guard satisfied whenever it has closed the result channel",
		"R20e the write stream appends the pending future and sends the request in one critical section, pops only the head on a response and fails every pending future when the stream closes",
		"R20f a retried read attempt builds its response in an object allocated by that attempt (no accumulation across retries)",
		"R20d merge order uses the engine's comparator (shared with C11)",
	}
	c.NotDec = []string{
		"timing / linger behaviour, races between Add and Close",
		"duplicates across retried write batches (at-least-once by design)",
	}
	ruleR20ab(h)
	ruleR20run(h)
	ruleR20timer(h)
	ruleR20i(h)
	ruleSentWritesFailNonRetriable(h, "R20j")
	ruleSingleResultChannelsBuffered(h, "R20k")
	ruleR20c(h)
	ruleR20e(h)
	ruleR20f(h)
	h.Rule("R20d", "K6", "ordering decisions of the client use CompareWithSlash (shared with R11b)", 1)
	ruleR11bInto(h, "R20d")
}

// batchTypes: concrete types of oxia/internal/batch implementing oxia/batch.Batch
func batchTypes(h *H) []*types.Named {
	var out []*types.Named
	for _, n := range h.P.Impls("oxia/batch", "Batch") {
		if ir.RelPkg(n.Obj().Pkg().Path()) == batchPkg {
			out = append(out, n)
		}
	}
	sort.Slice(out, func(i, j int) bool { return out[i].Obj().Name() < out[j].Obj().Name() })
	return out
}

// toProtoMapping: request field name -> batch slice field name, from the function that
// builds the proto request out of the batch's call slices.
func toProtoMapping(h *H, tn string) (map[string]string, *ssa.Function) {
	for _, fn := range h.P.Funcs {
		if fn.Parent() != nil || fn.Signature.Recv() == nil || !ir.TypeIs(fn.Signature.Recv().Type(), batchPkg, tn) || fn.Signature.Results().Len() != 1 {
			continue
		}
		rt := fn.Signature.Results().At(0).Type()
		if !ir.TypeIs(rt, "proto", "WriteRequest") && !ir.TypeIs(rt, "proto", "ReadRequest") {
			continue
		}
		m := map[string]string{}
		ir.Instrs(fn, func(in ssa.Instruction) {
			st, ok := in.(*ssa.Store)
			if !ok {
				return
			}
			ref, ok := ir.FieldAddrOf(st.Addr)
			if !ok || ref.Struct == nil || ir.RelPkg(ref.Struct.Obj().Pkg().Path()) != "proto" {
				return
			}
			var src string
			ir.DependsOn(st.Val, func(x ssa.Value) bool {
				if r, ok := ir.FieldLoadOf(x); ok && r.Struct != nil && r.Struct.Obj().Name() == tn {
					if _, isSlice := x.Type().Underlying().(*types.Slice); isSlice {
						src = r.Field
						return true
					}
				}
				return false
			})
			if src != "" {
				m[ref.Field] = src
			}
		})
		return m, fn
	}
	return nil, nil
}

// rangeLoops describes `for i, x := range recv.<slice>` loops of fn: slice field -> (index phi, element loads)
type rangeLoop struct {
	field string
	idx   ssa.Value
	elem  []*ssa.IndexAddr
}

func rangeLoopsOver(fn *ssa.Function, tn string) []rangeLoop {
	var out []rangeLoop
	byField := map[string]*rangeLoop{}
	ir.Instrs(fn, func(in ssa.Instruction) {
		ia, ok := in.(*ssa.IndexAddr)
		if !ok {
			return
		}
		r, isField := ir.FieldLoadOf(ir.Canon(ia.X))
		if !isField || r.Struct == nil || r.Struct.Obj().Name() != tn {
			return
		}
		l := byField[r.Field]
		if l == nil {
			l = &rangeLoop{field: r.Field, idx: ia.Index}
			byField[r.Field] = l
		}
		l.elem = append(l.elem, ia)
	})
	var ks []string
	for k := range byField {
		ks = append(ks, k)
	}
	sort.Strings(ks)
	for _, k := range ks {
		out = append(out, *byField[k])
	}
	return out
}

// callbackCalls: dynamic calls of a func-typed field named Callback of an element.
func callbackCalls(fn *ssa.Function) []*ssa.Call {
	var out []*ssa.Call
	ir.Instrs(fn, func(in ssa.Instruction) {
		c, ok := in.(*ssa.Call)
		if !ok || c.Call.IsInvoke() || c.Call.StaticCallee() != nil {
			return
		}
		if r, ok := ir.FieldLoadOf(ir.Canon(c.Call.Value)); ok && r.Field == "Callback" {
			out = append(out, c)
		}
	})
	return out
}

func elemOfCallback(c *ssa.Call) *ssa.IndexAddr {
	r, ok := ir.FieldLoadOf(ir.Canon(c.Call.Value))
	if !ok {
		return nil
	}
	// base is the element value (load of IndexAddr) or a local copy of it
	b := ir.Canon(r.Base)
	if ia, ok := b.(*ssa.IndexAddr); ok {
		return ia // slice[i].Callback(...) without a copy of the element
	}
	if u, ok := b.(*ssa.UnOp); ok && u.Op == token.MUL {
		if ia, ok := u.X.(*ssa.IndexAddr); ok {
			return ia
		}
	}
	if al, ok := r.Base.(*ssa.Alloc); ok {
		for _, st := range ir.AllStores(al) {
			if u, ok := st.Val.(*ssa.UnOp); ok && u.Op == token.MUL {
				if ia, ok := u.X.(*ssa.IndexAddr); ok {
					return ia
				}
			}
		}
	}
	return nil
}

func ruleR20ab(h *H) {
	const ra, rb = "R20a", "R20b"
	h.Rule(ra, "K6", "in the batches' response handlers each element's callback receives response.<F>[i] for the F that toProto fills from the element's own slice, with the loop's own index", 4)
	h.Rule(rb, "K1/K6", "Complete answers a sent batch through exactly one of Fail / handle; Fail and handle cover every serialised slice and call each element's callback on every iteration", 10)
	bts := batchTypes(h)
	if len(bts) == 0 {
		h.Anchor(ra, "batch implementations in "+batchPkg)
		return
	}
	for _, bt := range bts {
		tn := bt.Obj().Name()
		mapping, tp := toProtoMapping(h, tn)
		if len(mapping) == 0 {
			h.Anchor(ra, "toProto of "+tn)
			continue
		}
		h.Fn(ir.FuncName(tp))
		failFn := h.P.Func(batchPkg, tn, "Fail")
		complete := h.P.Func(batchPkg, tn, "Complete")
		// handle: the method taking the proto response
		var handle *ssa.Function
		for _, fn := range h.P.Funcs {
			if fn.Parent() == nil && fn.Signature.Recv() != nil && ir.TypeIs(fn.Signature.Recv().Type(), batchPkg, tn) && fn.Signature.Params().Len() == 1 &&
				(ir.TypeIs(fn.Signature.Params().At(0).Type(), "proto", "WriteResponse") || ir.TypeIs(fn.Signature.Params().At(0).Type(), "proto", "ReadResponse")) {
				handle = fn
			}
		}
		inlined := false
		if handle == nil && complete != nil && len(callbackCalls(complete)) > 0 {
			// the response handler written out inside Complete
			handle, inlined = complete, true
		}
		if failFn == nil || complete == nil || handle == nil {
			h.Anchor(rb, "Fail / Complete / response handler of "+tn)
			continue
		}
		h.Fn(ir.FuncName(failFn))
		h.Fn(ir.FuncName(complete))
		h.Fn(ir.FuncName(handle))
		// --- R20a: positional mapping in handle
		covered := map[string]bool{}
		for i, c := range callbackCalls(handle) {
			name := fmt.Sprintf("%s: callback #%d", ir.FuncName(handle), i+1)
			ia := elemOfCallback(c)
			if ia == nil {
				h.Unknown(ra, name, h.pos(c), "cannot relate the callback to an element of a call slice")
				continue
			}
			sf, _ := ir.FieldLoadOf(ir.Canon(ia.X))
			covered[sf.Field] = true
			arg := ir.Canon(c.Call.Args[0])
			good := false
			why := "the callback does not receive an element of the response"
			if u, ok := arg.(*ssa.UnOp); ok && u.Op == token.MUL {
				if ra2, ok := u.X.(*ssa.IndexAddr); ok {
					rf, isF := ir.FieldLoadOf(ir.Canon(ra2.X))
					switch {
					case !isF:
						why = "the response element is not taken from a field of the response"
					case mapping[rf.Field] != sf.Field:
						why = fmt.Sprintf("calls of %s are answered from response.%s, but toProto serialises %s into request.%s", sf.Field, rf.Field, mapping[rf.Field], rf.Field)
					case ra2.Index != ia.Index:
						why = "the response is indexed with a different index than the call's own position"
					default:
						good = true
					}
				}
			}
			h.Verdict(good, ra, name, h.pos(c), "response."+strings.Title(sf.Field)+"[i] for the call's own index", why)
		}
		// --- R20b: coverage of Fail and handle
		for _, f := range []*ssa.Function{failFn, handle} {
			cbs := callbackCalls(f)
			got := map[string]*ssa.Call{}
			for _, c := range cbs {
				if ia := elemOfCallback(c); ia != nil {
					if sf, ok := ir.FieldLoadOf(ir.Canon(ia.X)); ok {
						got[sf.Field] = c
					}
				}
			}
			for _, s := range sortedVals(mapping) {
				name := fmt.Sprintf("%s covers %s", ir.FuncName(f), s)
				c := got[s]
				if c == nil {
					h.Bad(rb, name, h.P.Pos(f.Pos()), "calls queued in "+s+" are serialised by toProto but never completed here: those operations hang forever")
					continue
				}
				// every iteration reaches the callback: from the element address back to itself without the call
				ia := elemOfCallback(c)
				r, path := ir.Reach(ir.Search{From: ia, Barrier: ir.Is(c)}, ir.Is(ia))
				cont, _ := ir.Reach(ir.Search{From: c}, ir.Is(ia))
				switch {
				case r:
					h.Bad(rb, name, h.pos(c), "an element of "+s+" can be skipped without invoking its callback", witness(path))
				case !cont:
					h.Bad(rb, name, h.pos(c), "the loop over "+s+" is cut short after the first callback: the remaining calls are never completed")
				default:
					h.OK(rb, name, h.pos(c), "every element's callback is invoked")
				}
			}
		}
		// --- R20b: Complete: exactly one of Fail / handle after the request was executed
		var failCalls, handleCalls []ssa.Instruction
		ir.Instrs(complete, func(in ssa.Instruction) {
			if c := ir.CallOf(in); c != nil {
				switch c.StaticCallee() {
				case failFn:
					failCalls = append(failCalls, in)
				case handle:
					handleCalls = append(handleCalls, in)
				}
			}
		})
		name := ir.FuncName(complete) + ": one answer per batch"
		if inlined {
			bad := inlinedHandlerAnswersOnce(complete, failCalls, tp, tn)
			h.Verdict(bad == "", rb, name, h.P.Pos(complete.Pos()), "exactly one of Fail / the inlined response handling on every path after the request was executed", bad)
			continue
		}
		if len(failCalls) == 0 && len(handleCalls) == 0 {
			// the Fail-or-handle decision extracted into a helper that Complete calls once
			var disp *ssa.Function
			var dispCall ssa.CallInstruction
			ir.Instrs(complete, func(in ssa.Instruction) {
				ci, ok := in.(ssa.CallInstruction)
				if !ok {
					return
				}
				g := ci.Common().StaticCallee()
				if g == nil || ir.SingleCallSite(g) != ci || g.Blocks == nil {
					return
				}
				nf, nh := 0, 0
				ir.Instrs(g, func(x ssa.Instruction) {
					if c := ir.CallOf(x); c != nil {
						switch c.StaticCallee() {
						case failFn:
							nf++
						case handle:
							nh++
						}
					}
				})
				if nf > 0 && nh > 0 {
					disp, dispCall = g, ci
				}
			})
			if disp != nil {
				if bad := dispatchAnswersOnce(h, complete, disp, dispCall, failFn, handle, tp, tn); bad != "" {
					h.Bad(rb, name, h.pos(dispCall), bad)
				} else {
					h.OK(rb, name, h.pos(dispCall), "exactly one of Fail / handle, decided in "+ir.FuncName(disp)+" on the error of the executed request")
				}
				continue
			}
		}
		if len(failCalls) == 0 || len(handleCalls) == 0 {
			h.Bad(rb, name, h.P.Pos(complete.Pos()), "Complete does not call both Fail (on error) and the response handler (on success)")
			continue
		}
		bad := ""
		for _, a := range append(append([]ssa.Instruction{}, failCalls...), handleCalls...) {
			for _, b := range append(append([]ssa.Instruction{}, failCalls...), handleCalls...) {
				if r, _ := ir.Reach(ir.Search{From: a}, ir.Is(b)); r {
					bad = "a batch can be answered twice (both Fail and the response handler, or one of them twice, on one path)"
				}
			}
		}
		// every path from the execution of the request to a return passes one of them
		var exec ssa.Instruction
		ir.Instrs(complete, func(in ssa.Instruction) {
			c := ir.CallOf(in)
			if c == nil || exec != nil {
				return
			}
			if f := c.StaticCallee(); f != nil && f != tp && f.Signature.Recv() != nil && ir.TypeIs(f.Signature.Recv().Type(), batchPkg, tn) && f.Signature.Results().Len() == 2 {
				exec = in
			}
		})
		if exec == nil {
			bad = "cannot find the call that executes the request"
		} else {
			answered := ir.AnyOf(append(failCalls, handleCalls...)...)
			ir.Instrs(complete, func(in ssa.Instruction) {
				if _, ok := in.(*ssa.Return); ok && bad == "" {
					if r, _ := ir.Reach(ir.Search{From: exec, Barrier: answered}, ir.Is(in)); r {
						bad = "Complete can return after executing the request without answering the queued calls"
					}
				}
			})
			// Fail only with a non-nil error, handle only with a nil one
			if ev := ir.ErrResult(exec.(ssa.CallInstruction)); ev != nil && bad == "" {
				for _, hc := range handleCalls {
					if ok, _ := ir.OkOnly(complete, ev, exec, hc); !ok {
						bad = "the response handler can run although the request failed (nil response)"
					}
				}
			}
		}
		h.Verdict(bad == "", rb, name, h.P.Pos(complete.Pos()), "exactly one of Fail / handle on every path after the request was executed", bad)
	}
}

// inlinedHandlerAnswersOnce: Complete with the response handling written out in its
// success branch: the callbacks run only when the executed request succeeded, Fail only
// otherwise, never both, and no return after the execution bypasses both branches.
func inlinedHandlerAnswersOnce(complete *ssa.Function, failCalls []ssa.Instruction, tp *ssa.Function, tn string) string {
	var exec ssa.Instruction
	ir.Instrs(complete, func(in ssa.Instruction) {
		c := ir.CallOf(in)
		if c == nil || exec != nil {
			return
		}
		if f := c.StaticCallee(); f != nil && f != tp && f.Signature.Recv() != nil && ir.TypeIs(f.Signature.Recv().Type(), batchPkg, tn) && f.Signature.Results().Len() == 2 {
			exec = in
		}
	})
	if exec == nil {
		return "cannot find the call that executes the request"
	}
	if len(failCalls) == 0 {
		return "Complete does not call Fail when the request failed"
	}
	ev := ir.ErrResult(exec.(ssa.CallInstruction))
	if ev == nil {
		return "the result of the executed request is not checked"
	}
	var cbs []ssa.Instruction
	for _, c := range callbackCalls(complete) {
		cbs = append(cbs, c)
	}
	for _, c := range cbs {
		if ok, _ := ir.OkOnly(complete, ev, exec, c); !ok {
			return "the response handling can run although the request failed (nil response)"
		}
		for _, f := range failCalls {
			if r, _ := ir.Reach(ir.Search{From: c}, ir.Is(f)); r {
				return "a batch can be answered twice (response handling and then Fail on one path)"
			}
			if r, _ := ir.Reach(ir.Search{From: f}, ir.Is(c)); r {
				return "a batch can be answered twice (Fail and then the response handling on one path)"
			}
		}
	}
	// after the execution: the failure branch reaches Fail, the success branch is the handling
	success := map[*ssa.BasicBlock]bool{}
	for _, t := range ir.NilTests(ev) {
		success[t.NilSucc] = true
	}
	barrier := func(in ssa.Instruction) bool {
		if success[in.Block()] {
			return true
		}
		for _, f := range failCalls {
			if in == f {
				return true
			}
		}
		return false
	}
	bad := ""
	ir.Instrs(complete, func(in ssa.Instruction) {
		if _, ok := in.(*ssa.Return); ok && bad == "" {
			if r, _ := ir.Reach(ir.Search{From: exec, Barrier: barrier}, ir.Is(in)); r {
				bad = "Complete can return after executing the request without answering the queued calls"
			}
		}
	})
	return bad
}

func sortedVals(m map[string]string) []string {
	var out []string
	for _, v := range m {
		out = append(out, v)
	}
	sort.Strings(out)
	return out
}

func ruleR20run(h *H) {
	const rule = "R20g"
	h.Rule(rule, "K1", "the batcher's run loop adds every call it receives to a batch (or fails it) before it can receive the next one", 1)
	for _, fn := range h.P.ImplMethods("oxia/batch", "Batcher", "Run") {
		h.Fn(ir.FuncName(fn))
		addSpec := ir.Callee{Pkg: "oxia/batch", Recv: "Batch", Name: "Add"}
		isAdd := func(in ssa.Instruction) bool {
			c := ir.CallOf(in)
			if c == nil {
				return false
			}
			if h.P.Matches(c, addSpec) {
				return true
			}
			// failCall(call, err) helper: reaches Batch.Add + Fail
			if ci, ok := in.(ssa.CallInstruction); ok && h.P.CallStaticallyReaches(ci, h.P.MatchPred(addSpec)) {
				return true
			}
			return false
		}
		// receives from the call channel: Select instructions / UnOp ARROW on the callC field
		var recvs []ssa.Instruction
		ir.Instrs(fn, func(in ssa.Instruction) {
			switch x := in.(type) {
			case *ssa.Select:
				recvs = append(recvs, in)
				_ = x
			case *ssa.UnOp:
				if x.Op == token.ARROW {
					recvs = append(recvs, in)
				}
			}
		})
		if len(recvs) == 0 {
			h.Anchor(rule, "channel receives in "+ir.FuncName(fn))
			continue
		}
		// for each Select: the branch that received a call (extract of the received value, used) must pass Add before the next select
		n := 0
		for _, r := range recvs {
			sel, ok := r.(*ssa.Select)
			if !ok {
				continue
			}
			// received values: Extract #2.. of the select tuple that are used
			if sel.Referrers() == nil {
				continue
			}
			for _, ref := range *sel.Referrers() {
				ex, ok := ref.(*ssa.Extract)
				if !ok || ex.Index < 2 || ex.Referrers() == nil || len(*ex.Referrers()) == 0 {
					continue
				}
				if _, isChanAny := ex.Type().Underlying().(*types.Interface); !isChanAny {
					continue
				}
				n++
				// from the first use of the received call to any select without passing Add
				first := (*ex.Referrers())[0]
				bad := false
				var w []int
				for _, nxt := range recvs {
					if reach, path := ir.Reach(ir.Search{From: first, Barrier: isAdd}, ir.Is(nxt)); reach && !isAdd(first) {
						bad, w = true, path
					}
				}
				h.Verdict(!bad, rule, fmt.Sprintf("received call #%d reaches a batch in %s", n, ir.FuncName(fn)), h.pos(r), "Add (or fail) before the next receive", "a call taken from the channel can be dropped: the loop goes back to receiving without adding it to a batch or failing it", witness(w))
			}
		}
		if n == 0 {
			h.Anchor(rule, "received calls in the run loop")
		}
	}
}

func ruleR20c(h *H) {
	const rule = "R20c"
	h.Rule(rule, "K13", "in a callback that starts with an early return on `counter == 0`, every close of the result channel is followed, on every path to the exit, by counter being 0 (stored 0 with no later change, or established by the guard)", 2)
	n := 0
	for _, fn := range h.P.Funcs {
		if ir.RelPkg(ir.PkgPathOf(fn)) != "oxia" {
			continue
		}
		// a function literal, or (the same callback written as a method of a state struct) a method
		if fn.Parent() == nil && fn.Signature.Recv() == nil {
			continue
		}
		// closes in this closure
		var closes []ssa.Instruction
		ir.Instrs(fn, func(in ssa.Instruction) {
			if c := ir.CallOf(in); c != nil {
				if b, ok := c.Value.(*ssa.Builtin); ok && b.Name() == "close" {
					closes = append(closes, in)
				}
			}
		})
		if len(closes) == 0 {
			continue
		}
		// the guard variable: a captured int compared with 0 on an early return at the top
		// ... or, in the method form, an int field of the receiver's state struct
		var guardFV *ssa.FreeVar
		guardField := -1
		for _, fv := range fn.FreeVars {
			if pt, ok := fv.Type().(*types.Pointer); ok && pt.Elem().String() == "int" {
				guardFV = fv
			}
		}
		isGuardAddr := func(a ssa.Value) bool {
			if guardFV != nil {
				return a == ssa.Value(guardFV)
			}
			fa, ok := a.(*ssa.FieldAddr)
			return ok && guardField >= 0 && fa.Field == guardField && len(fn.Params) > 0 && fa.X == ssa.Value(fn.Params[0])
		}
		isGuardLoad := func(v ssa.Value) bool {
			u, ok := v.(*ssa.UnOp)
			return ok && u.Op == token.MUL && isGuardAddr(u.X)
		}
		var zeroEdges map[ir.Edge]bool
		if guardFV != nil {
			zeroEdges = ir.EdgesWhere(fn, func(c ir.Cmp) bool { return c.Op == token.EQL && isGuardLoad(c.L) && isZero(c.R) })
		} else if fn.Parent() == nil && len(fn.Params) > 0 {
			if pt, ok := fn.Params[0].Type().Underlying().(*types.Pointer); ok {
				if st, ok := pt.Elem().Underlying().(*types.Struct); ok {
					for i := 0; i < st.NumFields() && len(zeroEdges) == 0; i++ {
						if st.Field(i).Type().String() != "int" {
							continue
						}
						guardField = i
						zeroEdges = ir.EdgesWhere(fn, func(c ir.Cmp) bool { return c.Op == token.EQL && isGuardLoad(c.L) && isZero(c.R) })
						if len(zeroEdges) == 0 {
							guardField = -1
						}
					}
				}
			}
		}
		if len(zeroEdges) == 0 {
			continue
		}
		h.Fn(ir.FuncName(fn))
		for i, cl := range closes {
			n++
			name := fmt.Sprintf("%s: close #%d leaves the guard at 0", ir.FuncName(fn), i+1)
			// stores to the guard after the close
			bad := ""
			var w []int
			// (a) established before: the close is guarded by counter == 0 and no later store changes it
			established, _ := ir.MustPassEdge(fn, nil, cl, zeroEdges, nil)
			if established {
				// the guard edge must come after the last modification before the close: require that no store lies between the edge and the close
				for e := range zeroEdges {
					if r, _ := ir.Reach(ir.Search{FromBlock: e.To, Barrier: ir.Is(cl)}, func(in ssa.Instruction) bool {
						st, ok := in.(*ssa.Store)
						return ok && isGuardAddr(st.Addr)
					}); r {
						established = false
					}
				}
			}
			// paths from the close to the exit
			ir.Instrs(fn, func(in ssa.Instruction) {
				ret, ok := in.(*ssa.Return)
				if !ok || bad != "" {
					return
				}
				_ = ret
				// walk: state = known zero?
				type st struct {
					b    *ssa.BasicBlock
					from int
					zero bool
				}
				start := st{cl.Block(), indexOf(cl) + 1, established}
				seen := map[[2]int]bool{}
				work := []st{start}
				for len(work) > 0 && bad == "" {
					cur := work[0]
					work = work[1:]
					z := cur.zero
					reached := false
					for i := cur.from; i < len(cur.b.Instrs); i++ {
						x := cur.b.Instrs[i]
						if s, ok := x.(*ssa.Store); ok && isGuardAddr(s.Addr) {
							z = isZero(s.Val)
						}
						if x == in {
							reached = true
							if !z {
								bad = "after closing the result channel the callback can return with the guard counter different from 0: a later invocation passes the 'already answered' test and sends on the closed channel"
								w = []int{cur.b.Index}
							}
							break
						}
					}
					if reached {
						continue
					}
					for _, s := range cur.b.Succs {
						k := [2]int{s.Index, b2i(z)}
						if !seen[k] {
							seen[k] = true
							work = append(work, st{s, 0, z})
						}
					}
				}
			})
			h.Verdict(bad == "", rule, name, h.pos(cl), "guard is 0 at every exit after the close", bad, witness(w))
		}
	}
	if n == 0 {
		h.Anchor(rule, "a callback closure with an answered-guard counter that closes a channel")
	}
}

func indexOf(in ssa.Instruction) int {
	for i, x := range in.Block().Instrs {
		if x == in {
			return i
		}
	}
	return -1
}

func b2i(b bool) int {
	if b {
		return 1
	}
	return 0
}

// writeStreamWrapperType finds the struct of oxia/internal holding a write-stream client
// and a slice of futures (the pending list); it returns the type and the field name.
func writeStreamWrapperType(h *H) (string, string) {
	const pkg = "oxia/internal"
	// the wrapper type: a struct of oxia/internal with a write-stream client and a slice of futures
	wt, pf := "", ""
	if pk := h.P.Package(pkg); pk != nil {
		sc := pk.Types.Scope()
		for _, nm := range sc.Names() {
			tn, ok := sc.Lookup(nm).(*types.TypeName)
			if !ok {
				continue
			}
			st, ok := tn.Type().Underlying().(*types.Struct)
			if !ok {
				continue
			}
			hasStream, fut := false, ""
			for i := 0; i < st.NumFields(); i++ {
				ft := st.Field(i).Type()
				if ir.TypeIs(ft, "proto", "OxiaClient_WriteStreamClient") {
					hasStream = true
				}
				if sl, ok := ft.Underlying().(*types.Slice); ok && strings.Contains(sl.Elem().String(), "concurrent.Future") {
					fut = st.Field(i).Name()
				}
			}
			if hasStream && fut != "" {
				wt, pf = nm, fut
			}
		}
	}
	return wt, pf
}

func ruleR20e(h *H) {
	const rule = "R20e"
	h.Rule(rule, "K2/K3", "write stream wrapper: the append to the pending list and the stream Send are in one critical section of the wrapper's mutex; responses complete the head of the list; closing the stream fails every pending future", 3)
	const pkg = "oxia/internal"
	wt, pf := writeStreamWrapperType(h)
	if wt == "" {
		h.Anchor(rule, "the write-stream wrapper type (stream client + pending futures)")
		return
	}
	ws := h.P.FieldWrites(pkg, wt, pf)
	if len(ws) == 0 {
		h.Anchor(rule, wt+"."+pf)
		return
	}
	streamSend := ir.Callee{Pkg: "proto", Recv: "OxiaClient_WriteStreamClient", Name: "Send"}
	for _, w := range ws {
		if w.Val == nil {
			continue
		}
		fn := w.Fn
		h.Fn(ir.FuncName(fn))
		v := ir.Canon(w.Val)
		switch x := v.(type) {
		case *ssa.Call:
			if b, ok := x.Call.Value.(*ssa.Builtin); ok && b.Name() == "append" {
				if !ir.LoadsField(x.Call.Args[0], pkg, wt, pf) {
					h.Bad(rule, "pending list rewritten in "+ir.FuncName(fn), h.pos(w.Instr), "the pending list is rebuilt from "+ir.Describe(x.Call.Args[0])+" (not an append at its tail): responses are matched to requests purely by position, so removing or reordering entries hands every later response to the wrong request")
					continue
				}
				sends := h.P.CallsIn(fn, streamSend)
				ok2 := len(sends) > 0
				why := "no stream Send follows the enqueue in this function"
				for _, s := range sends {
					same, lock := ir.SameCriticalSection(fn, w.Instr, s)
					if !same {
						ok2, why = false, "the pending future is enqueued and the request is sent in different critical sections ("+lock+"): two senders can enqueue in one order and send in the other, so responses are matched to the wrong requests"
					}
				}
				h.Verdict(ok2, rule, "enqueue and send in "+ir.FuncName(fn), h.pos(w.Instr), "one critical section", why)
			}
		case *ssa.Slice:
			// pop: pending[1:] with the completed future being pending[0]
			low, okLow := x.Low.(*ssa.Const)
			popHead := okLow && low.Value != nil && low.Int64() == 1 && x.High == nil
			headUsed := false
			ir.Instrs(fn, func(in ssa.Instruction) {
				if ia, ok := in.(*ssa.IndexAddr); ok {
					if k, ok := ia.Index.(*ssa.Const); ok && k.Value != nil && k.Int64() == 0 && ir.LoadsField(ia.X, pkg, wt, pf) {
						headUsed = true
					}
				}
			})
			h.Verdict(popHead && headUsed, rule, "response completes the head in "+ir.FuncName(fn), h.pos(w.Instr), "future = pending[0]; pending = pending[1:]", "a response does not complete (only) the oldest pending request")
		case *ssa.Const:
			if x.IsNil() && w.Kind != "literal" {
				// reset: every pending future must have been failed in a loop before
				failed := false
				ir.Instrs(fn, func(in ssa.Instruction) {
					c := ir.CallOf(in)
					if c != nil && c.IsInvoke() && c.Method.Name() == "Fail" && ir.Dominates(in, w.Instr) || c != nil && c.IsInvoke() && c.Method.Name() == "Fail" {
						failed = true
					}
				})
				h.Verdict(failed, rule, "stream close fails the pending futures in "+ir.FuncName(fn), h.pos(w.Instr), "every pending future is failed before the list is dropped", "the pending list is dropped without failing the futures: their callers wait forever")
			}
		}
	}
}

func ruleR20f(h *H) {
	const rule = "R20f"
	h.Rule(rule, "K3", "the response message that a read attempt fills (append to ReadResponse.Gets) is allocated by the attempt itself", 1)
	n := 0
	for _, w := range h.P.FieldWrites("proto", "ReadResponse", "Gets") {
		if ir.RelPkg(ir.PkgPathOf(w.Fn)) != batchPkg || w.Val == nil {
			continue
		}
		call, ok := ir.Canon(w.Val).(*ssa.Call)
		if !ok {
			// literal initialisation of a fresh response
			continue
		}
		if b, isB := call.Call.Value.(*ssa.Builtin); !isB || b.Name() != "append" {
			continue
		}
		n++
		h.Fn(ir.FuncName(w.Fn))
		st, _ := w.Instr.(*ssa.Store)
		fresh := false
		if st != nil {
			if ref, ok := ir.FieldAddrOf(st.Addr); ok {
				if al, isAl := ir.Canon(ref.Base).(*ssa.Alloc); isAl && al.Parent() == w.Fn {
					fresh = true
				}
			}
		}
		h.Verdict(fresh, rule, "read response accumulation in "+ir.FuncName(w.Fn), h.pos(w.Instr), "appends to a response allocated in this attempt", "the attempt appends to a response object it did not allocate (passed in / shared across retries): chunks received by a failed attempt stay in it, so after a retry every later get is answered with another get's result")
	}
	if n == 0 {
		h.Anchor(rule, "append to ReadResponse.Gets in "+batchPkg)
	}
}

// dispatchAnswersOnce: Complete executes the request and hands (response, err) to an
// extracted helper; that helper answers through exactly one of Fail / handle on every
// path, handle only when its error parameter is nil, and that parameter is the error of
// the executed request. Returns "" when all of this holds.
func dispatchAnswersOnce(h *H, complete, disp *ssa.Function, dispCall ssa.CallInstruction, failFn, handle, toProto *ssa.Function, tn string) string {
	var fails, handles []ssa.Instruction
	ir.Instrs(disp, func(in ssa.Instruction) {
		if c := ir.CallOf(in); c != nil {
			switch c.StaticCallee() {
			case failFn:
				fails = append(fails, in)
			case handle:
				handles = append(handles, in)
			}
		}
	})
	all := append(append([]ssa.Instruction{}, fails...), handles...)
	for _, a := range all {
		for _, b := range all {
			if r, _ := ir.Reach(ir.Search{From: a}, ir.Is(b)); r {
				return "a batch can be answered twice (both Fail and the response handler, or one of them twice, on one path)"
			}
		}
	}
	answered := ir.AnyOf(all...)
	bad := ""
	ir.Instrs(disp, func(in ssa.Instruction) {
		if _, ok := in.(*ssa.Return); ok && bad == "" {
			if r, _ := ir.Reach(ir.Search{Fn: disp, Barrier: answered}, ir.Is(in)); r {
				bad = ir.FuncName(disp) + " can return without answering the queued calls"
			}
		}
	})
	if bad != "" {
		return bad
	}
	// the executed request in Complete, and its error handed to the helper
	var exec ssa.Instruction
	ir.Instrs(complete, func(in ssa.Instruction) {
		c := ir.CallOf(in)
		if c == nil || exec != nil {
			return
		}
		if f := c.StaticCallee(); f != nil && f != toProto && f != disp && f.Signature.Recv() != nil && ir.TypeIs(f.Signature.Recv().Type(), batchPkg, tn) && f.Signature.Results().Len() == 2 {
			exec = in
		}
	})
	if exec == nil {
		return "cannot find the call that executes the request"
	}
	ir.Instrs(complete, func(in ssa.Instruction) {
		if _, ok := in.(*ssa.Return); ok && bad == "" {
			if r, _ := ir.Reach(ir.Search{From: exec, Barrier: ir.Is(dispCall)}, ir.Is(in)); r {
				bad = "Complete can return after executing the request without answering the queued calls"
			}
		}
	})
	if bad != "" {
		return bad
	}
	ev := ir.ErrResult(exec.(ssa.CallInstruction))
	var errParam *ssa.Parameter
	for i, p := range disp.Params {
		if ir.IsError(p.Type()) && i < len(dispCall.Common().Args) && ev != nil && ir.Canon(dispCall.Common().Args[i]) == ir.Canon(ev) {
			errParam = p
		}
	}
	if errParam == nil {
		return "the helper that answers the batch is not given the error of the executed request"
	}
	first := disp.Blocks[0].Instrs[0]
	for _, hc := range handles {
		if ok, _ := ir.OkOnly(disp, errParam, first, hc); !ok {
			return "the response handler can run although the request failed (nil response)"
		}
	}
	return ""
}

// ruleR20timer: the run loop keeps one batch variable and one timer variable. A batch that
// holds calls is only sent when it is full or when its timer fires, so the pair must stay
// in step: whoever stops the timer is done with the batch in the variable and has to put
// nil or a fresh batch (with its own timer) there before the loop waits again. If the loop
// can wait with a stopped timer and the same batch variable, that batch is either already
// completed (the next call is added to a dead batch and never answered) or open without a
// timer (its calls wait for traffic that may never come).
func ruleR20timer(h *H) {
	const rule = "R20h"
	h.Rule(rule, "K1", "on every path from a timer.Stop() in the batcher's run loop (including its local closures) to the next wait, the batch variable is re-assigned", 2)
	n := 0
	for _, root := range h.P.ImplMethods("oxia/batch", "Batcher", "Run") {
		h.Fn(ir.FuncName(root))
		// the batch variable: a cell of the interface type Batch
		isBatchCell := func(a *ssa.Alloc) bool {
			pt, ok := a.Type().Underlying().(*types.Pointer)
			return ok && ir.TypeIs(pt.Elem(), "oxia/batch", "Batch")
		}
		// closures of the run loop and the cells they capture
		closures := map[*ssa.Function]*ssa.MakeClosure{}
		ir.Instrs(root, func(in ssa.Instruction) {
			if mc, ok := in.(*ssa.MakeClosure); ok {
				if f, isF := mc.Fn.(*ssa.Function); isF {
					closures[f] = mc
				}
			}
		})
		cellOf := func(fn *ssa.Function, addr ssa.Value) *ssa.Alloc {
			switch x := addr.(type) {
			case *ssa.Alloc:
				return x
			case *ssa.FreeVar:
				if mc := closures[fn]; mc != nil {
					for i, fv := range fn.FreeVars {
						if fv == x && i < len(mc.Bindings) {
							if a, ok := mc.Bindings[i].(*ssa.Alloc); ok {
								return a
							}
						}
					}
				}
			}
			return nil
		}
		assignsBatch := func(fn *ssa.Function, in ssa.Instruction) bool {
			st, ok := in.(*ssa.Store)
			if !ok {
				return false
			}
			c := cellOf(fn, st.Addr)
			return c != nil && isBatchCell(c)
		}
		closureOfCall := func(in ssa.Instruction) *ssa.Function {
			c := ir.CallOf(in)
			if c == nil {
				return nil
			}
			if mc, ok := c.Value.(*ssa.MakeClosure); ok {
				if f, isF := mc.Fn.(*ssa.Function); isF {
					return f
				}
			}
			return nil
		}
		// a closure that re-assigns the batch variable on every path
		mustAssign := map[*ssa.Function]bool{}
		for f := range closures {
			f := f
			all := true
			ir.Instrs(f, func(in ssa.Instruction) {
				if ret, ok := in.(*ssa.Return); ok {
					if ok2, _ := ir.MustPass(f, nil, ret, func(x ssa.Instruction) bool { return assignsBatch(f, x) }); !ok2 {
						all = false
					}
				}
			})
			mustAssign[f] = all
		}
		reset := func(fn *ssa.Function) func(ssa.Instruction) bool {
			return func(in ssa.Instruction) bool {
				if assignsBatch(fn, in) {
					return true
				}
				if g := closureOfCall(in); g != nil && mustAssign[g] {
					return true
				}
				return false
			}
		}
		isWait := func(in ssa.Instruction) bool {
			if _, ok := in.(*ssa.Select); ok {
				return true
			}
			u, ok := in.(*ssa.UnOp)
			return ok && u.Op == token.ARROW
		}
		isStop := func(in ssa.Instruction) bool {
			c := ir.CallOf(in)
			if c == nil {
				return false
			}
			f := c.StaticCallee()
			return f != nil && f.Name() == "Stop" && f.Pkg != nil && f.Pkg.Pkg.Path() == "time" && f.Signature.Recv() != nil
		}
		fns := []*ssa.Function{root}
		for f := range closures {
			fns = append(fns, f)
		}
		sort.Slice(fns, func(i, j int) bool { return fns[i].String() < fns[j].String() })
		for _, fn := range fns {
			fn := fn
			ir.Instrs(fn, func(in ssa.Instruction) {
				if !isStop(in) {
					return
				}
				n++
				name := fmt.Sprintf("timer stop #%d in %s", n, ir.FuncName(fn))
				bad := false
				var w []int
				if fn == root {
					if r, path := ir.Reach(ir.Search{From: in, Barrier: reset(root)}, isWait); r {
						bad, w = true, path
					}
				} else {
					leaves := false
					ir.Instrs(fn, func(x ssa.Instruction) {
						if _, isRet := x.(*ssa.Return); isRet {
							if r, _ := ir.Reach(ir.Search{From: in, Barrier: reset(fn)}, ir.Is(x)); r {
								leaves = true
							}
						}
					})
					if leaves {
						ir.Instrs(root, func(site ssa.Instruction) {
							if closureOfCall(site) != fn {
								return
							}
							if r, path := ir.Reach(ir.Search{From: site, Barrier: reset(root)}, isWait); r {
								bad, w = true, path
							}
						})
					}
				}
				h.Verdict(!bad, rule, name, h.pos(in), "the batch variable is re-assigned before the loop waits again", "the loop can wait again after stopping the linger timer without re-assigning the batch variable: the batch it holds is either already completed or stays open with no timer, and the calls in it (or added to it) are not answered until unrelated traffic arrives", witness(w))
			})
		}
	}
	if n == 0 {
		h.Anchor(rule, "timer.Stop() calls in the Batcher.Run implementation")
	}
}

// ruleR20i: CanAdd decides what fits into a batch; once calls were accepted, Complete has
// to send them. A second, differently bounded test in Complete that fails the whole batch
// makes the result of an operation depend on how operations were grouped.
func ruleR20i(h *H) {
	const rule = "R20i"
	h.Rule(rule, "K1", "in the batches' Complete every call of Fail happens after the request was executed (on its error path)", 2)
	n := 0
	for _, bt := range batchTypes(h) {
		tn := bt.Obj().Name()
		_, tp := toProtoMapping(h, tn)
		failFn := h.P.Func(batchPkg, tn, "Fail")
		complete := h.P.Func(batchPkg, tn, "Complete")
		if failFn == nil || complete == nil {
			continue
		}
		// the call that executes the request, as seen from Complete itself
		var exec ssa.Instruction
		for _, fn := range helperFuncs(complete) {
			ir.Instrs(fn, func(in ssa.Instruction) {
				c := ir.CallOf(in)
				if c == nil || exec != nil {
					return
				}
				if f := c.StaticCallee(); f != nil && f != tp && f != failFn && f.Signature.Recv() != nil && ir.TypeIs(f.Signature.Recv().Type(), batchPkg, tn) && f.Signature.Results().Len() == 2 && ir.HasErrResult(in.(ssa.CallInstruction)) {
					exec = liftToRoot(complete, in)
				}
			})
		}
		for _, fn := range helperFuncs(complete) {
			ir.Instrs(fn, func(in ssa.Instruction) {
				c := ir.CallOf(in)
				if c == nil || c.StaticCallee() != failFn {
					return
				}
				n++
				h.Fn(ir.FuncName(fn))
				at := liftToRoot(complete, in)
				ok := exec != nil && at != nil && at != exec && ir.Dominates(exec, at)
				h.Verdict(ok, rule, fmt.Sprintf("Fail #%d in %s", n, ir.FuncName(complete)), h.pos(in), "only after the request was executed", "Complete fails a batch it never sent: calls that CanAdd accepted are refused afterwards, so the outcome of an operation depends on how operations happened to be grouped")
			})
		}
	}
	if n == 0 {
		h.Anchor(rule, "calls of Fail in the batches' Complete")
	}
}
