// Package chk holds the obligation bookkeeping shared by all property checks: what was
// analysed, what was discharged/violated/undecided, matching against the committed
// known-findings file, the evidence file and the exit protocol.
package chk

import (
	"bufio"
	"encoding/json"
	"fmt"
	"os"
	"path/filepath"
	"sort"
	"strings"
	"time"

	"oxiaverif/internal/ir"
)

const (
	Discharged = "discharged"
	Violated   = "violated"
	Undecided  = "undecided"
)

// Obligation is one (rule, construct) pair and its verdict. Construct names are built
// from resolved identities (function, callee, field), never from positions.
type Obligation struct {
	Rule      string `json:"rule"`
	Construct string `json:"construct"`
	Status    string `json:"status"`
	Pos       string `json:"pos,omitempty"`
	Detail    string `json:"detail,omitempty"`
	Witness   string `json:"witness,omitempty"`
	Known     bool   `json:"known_finding,omitempty"`
}

func (o Obligation) Key() string { return o.Rule + ":" + o.Construct }

// RuleInfo documents a rule in the evidence.
type RuleInfo struct {
	ID        string `json:"id"`
	Kind      string `json:"kind"`
	Text      string `json:"text"`
	Min       int    `json:"min_instances"`
	Instances int    `json:"instances"`
}

type Ctx struct {
	P        *ir.Prog
	Prop     string
	Tier     string
	Obls     []Obligation
	Rules    map[string]*RuleInfo
	order    []string
	FuncsSet map[string]bool
	Sites    int
	Notes    []string
	Decided  []string
	NotDec   []string
}

func New(p *ir.Prog, prop, tier string) *Ctx {
	return &Ctx{P: p, Prop: prop, Tier: tier, Rules: map[string]*RuleInfo{}, FuncsSet: map[string]bool{}}
}

// Rule declares a rule with its kind (K1…K13), text and the minimum number of
// instances confirmed by hand; fewer instances fail the check (vacuity guard).
func (c *Ctx) Rule(id, kind, text string, min int) {
	if _, ok := c.Rules[id]; !ok {
		c.order = append(c.order, id)
	}
	c.Rules[id] = &RuleInfo{ID: id, Kind: kind, Text: text, Min: min}
}

func (c *Ctx) add(o Obligation) {
	for i, x := range c.Obls {
		if x.Key() == o.Key() {
			// keep the worst verdict for one construct
			if rank(o.Status) > rank(x.Status) {
				c.Obls[i] = o
			}
			return
		}
	}
	if r, ok := c.Rules[o.Rule]; ok {
		r.Instances++
	} else {
		panic("undeclared rule " + o.Rule)
	}
	c.Obls = append(c.Obls, o)
}

func rank(s string) int {
	switch s {
	case Violated:
		return 2
	case Undecided:
		return 1
	}
	return 0
}

func (c *Ctx) OK(rule, construct, pos, detail string) {
	c.add(Obligation{Rule: rule, Construct: construct, Status: Discharged, Pos: pos, Detail: detail})
}

func (c *Ctx) Bad(rule, construct, pos, detail string, witness ...string) {
	c.add(Obligation{Rule: rule, Construct: construct, Status: Violated, Pos: pos, Detail: detail, Witness: strings.Join(witness, " ")})
}

func (c *Ctx) Unknown(rule, construct, pos, detail string) {
	c.add(Obligation{Rule: rule, Construct: construct, Status: Undecided, Pos: pos, Detail: detail})
}

// Verdict records ok/violated by a boolean.
func (c *Ctx) Verdict(ok bool, rule, construct, pos, okDetail, badDetail string, witness ...string) {
	if ok {
		c.OK(rule, construct, pos, okDetail)
	} else {
		c.Bad(rule, construct, pos, badDetail, witness...)
	}
}

// Anchor reports an unresolved anchor (fails closed).
func (c *Ctx) Anchor(rule, what string) {
	c.add(Obligation{Rule: rule, Construct: "anchor " + what, Status: Undecided, Detail: "UNRESOLVED-ANCHOR: " + what + " does not resolve in the current tree; nothing could be analysed for it"})
}

func (c *Ctx) Fn(name string) { c.FuncsSet[name] = true }

func (c *Ctx) Note(format string, a ...any) { c.Notes = append(c.Notes, fmt.Sprintf(format, a...)) }

// ------------------------------------------------------------------------------
// known findings

type Finding struct {
	Status    string `json:"status"` // "open" | "fixed"
	Property  string `json:"property"`
	Rule      string `json:"rule"`
	Construct string `json:"construct"`
	What      string `json:"what"`
	Commit    string `json:"commit,omitempty"`
	ID        string `json:"id,omitempty"`
}

func LoadFindings(path string) ([]Finding, error) {
	f, err := os.Open(path)
	if err != nil {
		if os.IsNotExist(err) {
			return nil, nil
		}
		return nil, err
	}
	defer f.Close()
	var out []Finding
	sc := bufio.NewScanner(f)
	sc.Buffer(make([]byte, 1<<20), 1<<20)
	for sc.Scan() {
		line := strings.TrimSpace(sc.Text())
		if line == "" || strings.HasPrefix(line, "#") {
			continue
		}
		var fd Finding
		if err := json.Unmarshal([]byte(line), &fd); err != nil {
			return nil, fmt.Errorf("known findings: %w", err)
		}
		out = append(out, fd)
	}
	return out, sc.Err()
}

// ------------------------------------------------------------------------------
// finish: evidence + exit protocol

type Result struct {
	Exit        int
	Violations  []Obligation
	KnownHits   []Obligation
	Obligations int
	Discharged  int
}

// Finish applies the vacuity guard, matches known findings, writes the evidence file
// and prints the protocol lines. verifDir is /verif.
func (c *Ctx) Finish(verifDir string, start time.Time, loadInfo map[string]any) Result {
	// vacuity guard
	for _, id := range c.order {
		r := c.Rules[id]
		if r.Instances < r.Min {
			c.Obls = append(c.Obls, Obligation{Rule: id, Construct: "instance-count", Status: Undecided,
				Detail: fmt.Sprintf("rule matched %d instance(s), fewer than the %d confirmed by hand: the rule would pass vacuously", r.Instances, r.Min)})
		}
	}
	findings, ferr := LoadFindings(filepath.Join(verifDir, "known_findings.jsonl"))
	if ferr != nil {
		fmt.Println("ERROR:", ferr)
		return Result{Exit: 2}
	}
	open := map[string]Finding{}
	for _, f := range findings {
		if f.Status == "open" && f.Property == c.Prop {
			open[f.Rule+":"+f.Construct] = f
		}
	}
	var res Result
	for i := range c.Obls {
		o := &c.Obls[i]
		res.Obligations++
		switch o.Status {
		case Discharged:
			res.Discharged++
		case Violated:
			if f, ok := open[o.Key()]; ok {
				o.Known = true
				res.KnownHits = append(res.KnownHits, *o)
				fmt.Printf("KNOWN-FINDING: property=%s %s %s at %s — %s\n", c.Prop, o.Rule, o.Construct, o.Pos, f.What)
			} else {
				res.Violations = append(res.Violations, *o)
			}
		default:
			res.Violations = append(res.Violations, *o)
		}
	}
	sort.SliceStable(res.Violations, func(i, j int) bool { return res.Violations[i].Key() < res.Violations[j].Key() })

	// summary to stdout
	fmt.Printf("property %s tier %s: %d obligations, %d discharged, %d known finding(s), %d violation(s)/undecided; %d functions analysed\n",
		c.Prop, c.Tier, res.Obligations, res.Discharged, len(res.KnownHits), len(res.Violations), len(c.FuncsSet))
	for _, id := range c.order {
		r := c.Rules[id]
		fmt.Printf("  rule %-6s %-4s instances=%d (min %d)  %s\n", r.ID, r.Kind, r.Instances, r.Min, r.Text)
	}
	for _, v := range res.Violations {
		fmt.Printf("  %s %s %s at %s: %s", strings.ToUpper(v.Status), v.Rule, v.Construct, v.Pos, v.Detail)
		if v.Witness != "" {
			fmt.Printf(" [witness: %s]", v.Witness)
		}
		fmt.Println()
	}

	evDir := filepath.Join(verifDir, "evidence")
	_ = os.MkdirAll(evDir, 0o755)
	replay := filepath.Join(evDir, c.Prop+".violation.json")
	_ = os.Remove(replay)
	if len(res.Violations) > 0 {
		b, _ := json.MarshalIndent(map[string]any{"property": c.Prop, "violations": res.Violations,
			"replay": fmt.Sprintf("./check %s %s   # re-evaluates the obligations on /repo's current tree", c.Prop, c.Tier)}, "", " ")
		_ = os.WriteFile(replay, b, 0o644)
		res.Exit = 1
	}

	var rules []RuleInfo
	for _, id := range c.order {
		rules = append(rules, *c.Rules[id])
	}
	var fns []string
	for f := range c.FuncsSet {
		fns = append(fns, f)
	}
	sort.Strings(fns)
	samples := c.Obls
	seed := 0
	fmt.Sscanf(os.Getenv("VERIF_SEED"), "%d", &seed)
	expl := fmt.Sprintf("Static analysis of /repo's current source (go/packages + go/ssa, %s). Decides structural necessary conditions of %s, "+
		"not the behaviour itself. Decided clauses: %s. NOT decided (out of reach of a sound static argument): %s.",
		loadInfo["callgraph"], c.Prop, strings.Join(c.Decided, "; "), strings.Join(c.NotDec, "; "))
	cov := map[string]any{
		"explanation":           expl,
		"obligations":           res.Obligations,
		"discharged":            res.Discharged,
		"known_findings":        len(res.KnownHits),
		"violated_or_undecided": len(res.Violations),
		"rules":                 rules,
		"functions_analysed":    len(fns),
		"functions":             fns,
		"packages":              loadInfo["packages"],
		"repo_functions":        loadInfo["repo_functions"],
		"samples":               samples,
		"exhaustive":            true,
		"checker_cmd":           fmt.Sprintf("./check %s %s", c.Prop, c.Tier),
		"trusted_base": []string{"go/types, go/ssa (x/tools v0.29.0) construction", "CHA call graph (sound for non-reflective code); VTA only refines it in the thorough tier",
			"Pebble, mmap, gRPC, generated protobuf code treated as opaque and correct", "API facts table in DESIGN.md section 2", "hand-frozen tables in internal/props (each with a reason)"},
		"notes": c.Notes,
	}
	for k, v := range loadInfo {
		if _, ok := cov[k]; !ok {
			cov[k] = v
		}
	}
	ev := map[string]any{
		"property_id": c.Prop,
		"tier":        c.Tier,
		"seed":        seed,
		"level":       "other",
		"coverage":    cov,
		"assumptions": []string{"goroutine interleavings are not modelled: lock rules are per-function critical-section rules",
			"callee summaries are those listed as API facts in DESIGN.md", "passing means none of the enumerated ways of breaking the mechanism is present; it is not a proof of the behavioural property"},
		"wall_s":     time.Since(start).Seconds(),
		"violations": len(res.Violations),
	}
	b, _ := json.MarshalIndent(ev, "", " ")
	if err := os.WriteFile(filepath.Join(evDir, c.Prop+".json"), b, 0o644); err != nil {
		fmt.Println("ERROR: cannot write evidence:", err)
		res.Exit = 2
	}
	if len(res.Violations) > 0 {
		fmt.Printf("VIOLATION property=%s replay=%s\n", c.Prop, replay)
	}
	return res
}
