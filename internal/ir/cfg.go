package ir

import (
	"go/token"
	"go/types"

	"golang.org/x/tools/go/ssa"
)

func indexIn(in ssa.Instruction) int {
	for i, x := range in.Block().Instrs {
		if x == in {
			return i
		}
	}
	return -1
}

// Dominates reports whether instruction a is executed on every path from the function
// entry to instruction b (same function).
func Dominates(a, b ssa.Instruction) bool {
	if a.Parent() != b.Parent() {
		return false
	}
	if a.Block() == b.Block() {
		return indexIn(a) < indexIn(b)
	}
	return a.Block().Dominates(b.Block())
}

// Edge is a CFG edge.
type Edge struct{ From, To *ssa.BasicBlock }

// Search parameters for Reach.
type Search struct {
	// From is the instruction after which the search starts (nil: function entry of Fn).
	From ssa.Instruction
	// FromBlock starts the search at the first instruction of a block (used for edges).
	FromBlock *ssa.BasicBlock
	Fn        *ssa.Function
	// Barrier instructions end a path (the barrier itself is not a target).
	Barrier func(ssa.Instruction) bool
	// Blocked edges are not followed.
	Blocked map[Edge]bool
}

// Reach reports whether an instruction satisfying target is reachable, and a witness
// path of basic-block indices.
func Reach(s Search, target func(ssa.Instruction) bool) (bool, []int) {
	type item struct {
		b    *ssa.BasicBlock
		from int
		prev *item
	}
	var start *item
	switch {
	case s.From != nil:
		start = &item{b: s.From.Block(), from: indexIn(s.From) + 1}
	case s.FromBlock != nil:
		start = &item{b: s.FromBlock}
	default:
		if len(s.Fn.Blocks) == 0 {
			return false, nil
		}
		start = &item{b: s.Fn.Blocks[0]}
	}
	visited := map[*ssa.BasicBlock]bool{}
	if start.from == 0 {
		visited[start.b] = true
	}
	queue := []*item{start}
	for len(queue) > 0 {
		it := queue[0]
		queue = queue[1:]
		stopped := false
		for i := it.from; i < len(it.b.Instrs); i++ {
			in := it.b.Instrs[i]
			if target(in) {
				var path []int
				for x := it; x != nil; x = x.prev {
					path = append([]int{x.b.Index}, path...)
				}
				return true, path
			}
			if s.Barrier != nil && s.Barrier(in) {
				stopped = true
				break
			}
		}
		if stopped {
			continue
		}
		for _, succ := range it.b.Succs {
			if s.Blocked != nil && s.Blocked[Edge{it.b, succ}] {
				continue
			}
			if visited[succ] {
				continue
			}
			visited[succ] = true
			queue = append(queue, &item{b: succ, prev: it})
		}
	}
	return false, nil
}

// Is returns a target predicate for one instruction.
func Is(x ssa.Instruction) func(ssa.Instruction) bool {
	return func(in ssa.Instruction) bool { return in == x }
}

// AnyOf returns a predicate for membership in a set.
func AnyOf(xs ...ssa.Instruction) func(ssa.Instruction) bool {
	m := map[ssa.Instruction]bool{}
	for _, x := range xs {
		m[x] = true
	}
	return func(in ssa.Instruction) bool { return m[in] }
}

// IsExit matches instructions that leave the function normally.
func IsExit(in ssa.Instruction) bool {
	_, ok := in.(*ssa.Return)
	return ok
}

// MustPass reports whether every path from `from` (nil = entry) to `to` passes through
// an instruction satisfying through. On failure a witness path is returned.
func MustPass(fn *ssa.Function, from, to ssa.Instruction, through func(ssa.Instruction) bool) (bool, []int) {
	r, path := Reach(Search{From: from, Fn: fn, Barrier: through}, Is(to))
	return !r, path
}

// ---------------------------------------------------------------------------------
// nil tests

func isNilConst(v ssa.Value) bool {
	c, ok := v.(*ssa.Const)
	return ok && c.IsNil()
}

// NilTest is an `if v != nil` / `if v == nil` branch on a value.
type NilTest struct {
	If      *ssa.If
	NilSucc *ssa.BasicBlock // successor taken when v == nil
	NonNil  *ssa.BasicBlock // successor taken when v != nil
}

// Aliases returns v together with the loads of local cells into which v is stored
// (the `err` variable idiom: named results, variables captured by closures), provided
// the store dominates the load and no other store to the cell can intervene.
func Aliases(v ssa.Value) []ssa.Value {
	out := []ssa.Value{v}
	seen := map[ssa.Value]bool{v: true}
	work := []ssa.Value{v}
	for len(work) > 0 {
		x := work[0]
		work = work[1:]
		rs := x.Referrers()
		if rs == nil {
			continue
		}
		for _, r := range *rs {
			switch r := r.(type) {
			case *ssa.Store:
				if r.Val != x {
					continue
				}
				cell, ok := r.Addr.(*ssa.Alloc)
				if !ok {
					continue
				}
				for _, l := range loadsOf(cell) {
					if seen[l] || l.Parent() != r.Parent() {
						continue
					}
					if !Dominates(r, l) {
						continue
					}
					if otherStoreIntervenes(cell, r, l) {
						continue
					}
					seen[l] = true
					out = append(out, l)
					work = append(work, l)
				}
			case *ssa.ChangeType:
				if !seen[r] {
					seen[r] = true
					out = append(out, r)
					work = append(work, r)
				}
			case *ssa.MakeInterface:
				// an error value is already an interface; nothing to do
			}
		}
	}
	return out
}

func loadsOf(cell *ssa.Alloc) []*ssa.UnOp {
	var out []*ssa.UnOp
	if cell.Referrers() == nil {
		return nil
	}
	for _, r := range *cell.Referrers() {
		if u, ok := r.(*ssa.UnOp); ok && u.Op == token.MUL && u.X == cell {
			out = append(out, u)
		}
	}
	return out
}

func storesTo(cell *ssa.Alloc) []*ssa.Store {
	var out []*ssa.Store
	if cell.Referrers() == nil {
		return nil
	}
	for _, r := range *cell.Referrers() {
		if s, ok := r.(*ssa.Store); ok && s.Addr == cell {
			out = append(out, s)
		}
	}
	return out
}

func otherStoreIntervenes(cell *ssa.Alloc, s *ssa.Store, l *ssa.UnOp) bool {
	// captured by a closure: another function may store at any time
	if cell.Referrers() != nil {
		for _, r := range *cell.Referrers() {
			if mc, ok := r.(*ssa.MakeClosure); ok {
				// a closure can only store to the cell once it exists: it interferes when it
				// stores to the cell and the load is reachable from its creation
				if closureStores(mc, cell) {
					if mc.Parent() != l.Parent() {
						return true
					}
					if r, _ := Reach(Search{From: mc}, Is(l)); r {
						return true
					}
				}
			}
		}
	}
	for _, o := range storesTo(cell) {
		if o == s {
			continue
		}
		// o between s and l: o reachable from s without passing s again, and l reachable from o without passing s
		r1, _ := Reach(Search{From: s, Barrier: Is(s)}, Is(o))
		if !r1 {
			continue
		}
		r2, _ := Reach(Search{From: o, Barrier: Is(s)}, Is(l))
		if r2 {
			return true
		}
	}
	return false
}

func closureStores(mc *ssa.MakeClosure, cell *ssa.Alloc) bool {
	fn, ok := mc.Fn.(*ssa.Function)
	if !ok {
		return true
	}
	for i, b := range mc.Bindings {
		if b != cell {
			continue
		}
		fv := fn.FreeVars[i]
		if freeVarStored(fn, fv) {
			return true
		}
	}
	return false
}

func freeVarStored(fn *ssa.Function, fv *ssa.FreeVar) bool {
	if fv.Referrers() == nil {
		return false
	}
	for _, r := range *fv.Referrers() {
		switch r := r.(type) {
		case *ssa.Store:
			if r.Addr == fv {
				return true
			}
		case *ssa.MakeClosure:
			inner, ok := r.Fn.(*ssa.Function)
			if !ok {
				return true
			}
			for i, b := range r.Bindings {
				if b == fv && freeVarStored(inner, inner.FreeVars[i]) {
					return true
				}
			}
		}
	}
	return false
}

// NilTests lists the branches that compare v (or an alias of it) with nil.
func NilTests(v ssa.Value) []NilTest {
	var out []NilTest
	for _, a := range Aliases(v) {
		rs := a.Referrers()
		if rs == nil {
			continue
		}
		for _, r := range *rs {
			bo, ok := r.(*ssa.BinOp)
			if !ok || (bo.Op != token.NEQ && bo.Op != token.EQL) {
				continue
			}
			var other ssa.Value
			if bo.X == a {
				other = bo.Y
			} else {
				other = bo.X
			}
			if !isNilConst(other) {
				continue
			}
			if bo.Referrers() == nil {
				continue
			}
			for _, rr := range *bo.Referrers() {
				iff, ok := rr.(*ssa.If)
				if !ok {
					continue
				}
				t := NilTest{If: iff}
				if bo.Op == token.NEQ {
					t.NonNil, t.NilSucc = iff.Block().Succs[0], iff.Block().Succs[1]
				} else {
					t.NilSucc, t.NonNil = iff.Block().Succs[0], iff.Block().Succs[1]
				}
				out = append(out, t)
			}
		}
	}
	return out
}

var errorType = types.Universe.Lookup("error").Type()

// IsError reports whether t is the predeclared error type.
func IsError(t types.Type) bool { return types.Identical(t, errorType) }

// ErrResult returns the error-typed result value of a call (direct or extracted from
// the result tuple), or nil when the call has none or it is discarded.
func ErrResult(call ssa.CallInstruction) ssa.Value {
	v := call.Value()
	if v == nil {
		return nil
	}
	if tup, ok := v.Type().(*types.Tuple); ok {
		if v.Referrers() == nil {
			return nil
		}
		for _, r := range *v.Referrers() {
			if ex, ok := r.(*ssa.Extract); ok && IsError(tup.At(ex.Index).Type()) {
				return ex
			}
		}
		return nil
	}
	if IsError(v.Type()) {
		return v
	}
	return nil
}

// HasErrResult reports whether the callee's signature returns an error.
func HasErrResult(call ssa.CallInstruction) bool {
	sig := call.Common().Signature()
	for i := 0; i < sig.Results().Len(); i++ {
		if IsError(sig.Results().At(i).Type()) {
			return true
		}
	}
	return false
}

// OkOnly reports whether every path from `from` to `to` takes the "v == nil" edge of a
// nil test of v (i.e. `to` only executes when v was nil). from is the instruction that
// defines v's run-time value (the call); re-executing it ends a path.
func OkOnly(fn *ssa.Function, v ssa.Value, from, to ssa.Instruction) (bool, []int) {
	tests := NilTests(v)
	if len(tests) == 0 {
		return false, nil
	}
	// Block every edge into the non-nil side, then `to` must still... no: block the ok
	// edges; `to` must become unreachable.
	blocked := map[Edge]bool{}
	for _, t := range tests {
		blocked[Edge{t.If.Block(), t.NilSucc}] = true
	}
	r, path := Reach(Search{From: from, Fn: fn, Barrier: Is(from), Blocked: blocked}, Is(to))
	return !r, path
}

// SuccessDominated reports whether `to` executes only after `call` returned a nil
// error: call dominates to, and every path from the call to `to` goes through the
// nil edge of a test of the call's error. For calls without an error result it
// degenerates to dominance.
func SuccessDominated(call ssa.CallInstruction, to ssa.Instruction) (bool, string, []int) {
	fn := call.Parent()
	if to.Parent() != fn {
		return false, "different functions", nil
	}
	if !Dominates(call, to) {
		_, path := Reach(Search{Fn: fn, Barrier: Is(call)}, Is(to))
		return false, "the call does not dominate the target", path
	}
	if !HasErrResult(call) {
		return true, "", nil
	}
	ev := ErrResult(call)
	if ev == nil {
		return false, "the error result of the call is discarded", nil
	}
	ok, path := OkOnly(fn, ev, call, to)
	if !ok {
		return false, "a path from the call reaches the target without passing the err==nil edge", path
	}
	return true, "", nil
}

// ---------------------------------------------------------------------------------
// control conditions

// Guard is a branch condition that holds whenever an instruction executes.
type Guard struct {
	If    *ssa.If
	Cond  ssa.Value
	Taken bool // true: Cond holds; false: !Cond holds
}

// Guards returns the branch conditions that necessarily hold when `in` executes
// (conditions of dominating branches whose taken edge dominates the instruction).
func Guards(in ssa.Instruction) []Guard {
	return BlockGuards(in.Block())
}

// BlockGuards is Guards for a basic block.
func BlockGuards(b *ssa.BasicBlock) []Guard {
	var out []Guard
	cur := b
	for cur != nil {
		d := cur.Idom()
		if d == nil {
			break
		}
		if iff, ok := d.Instrs[len(d.Instrs)-1].(*ssa.If); ok && len(d.Succs) == 2 && d.Succs[0] != d.Succs[1] {
			s0, s1 := d.Succs[0], d.Succs[1]
			switch {
			case len(s0.Preds) == 1 && (s0 == b || s0.Dominates(b)):
				out = append(out, Guard{iff, iff.Cond, true})
			case len(s1.Preds) == 1 && (s1 == b || s1.Dominates(b)):
				out = append(out, Guard{iff, iff.Cond, false})
			}
		}
		cur = d
	}
	return out
}

// Cmp is a normalised comparison L op R that holds at a program point.
type Cmp struct {
	L, R ssa.Value
	Op   token.Token
}

func negate(op token.Token) token.Token {
	switch op {
	case token.EQL:
		return token.NEQ
	case token.NEQ:
		return token.EQL
	case token.LSS:
		return token.GEQ
	case token.GEQ:
		return token.LSS
	case token.GTR:
		return token.LEQ
	case token.LEQ:
		return token.GTR
	}
	return token.ILLEGAL
}

// AsCmp turns a guard into the comparison it establishes (ok=false if the condition
// is not a comparison). `!x` conditions are unwrapped.
func (g Guard) AsCmp() (Cmp, bool) {
	cond, taken := g.Cond, g.Taken
	for {
		if u, ok := cond.(*ssa.UnOp); ok && u.Op == token.NOT {
			cond, taken = u.X, !taken
			continue
		}
		break
	}
	bo, ok := cond.(*ssa.BinOp)
	if !ok {
		return Cmp{}, false
	}
	op := bo.Op
	switch op {
	case token.EQL, token.NEQ, token.LSS, token.LEQ, token.GTR, token.GEQ:
	default:
		return Cmp{}, false
	}
	if !taken {
		op = negate(op)
	}
	return Cmp{bo.X, bo.Y, op}, true
}

// Flip returns the comparison with operands swapped.
func (c Cmp) Flip() Cmp {
	op := c.Op
	switch c.Op {
	case token.LSS:
		op = token.GTR
	case token.GTR:
		op = token.LSS
	case token.LEQ:
		op = token.GEQ
	case token.GEQ:
		op = token.LEQ
	}
	return Cmp{c.R, c.L, op}
}

// CmpGuards lists the comparisons that hold when `in` executes.
func CmpGuards(in ssa.Instruction) []Cmp {
	var out []Cmp
	for _, g := range Guards(in) {
		if c, ok := g.AsCmp(); ok {
			out = append(out, c)
		}
	}
	return out
}

// EdgeCmps returns, for every conditional edge of fn, the comparison it establishes.
func EdgeCmps(fn *ssa.Function) map[Edge]Cmp {
	out := map[Edge]Cmp{}
	for _, b := range fn.Blocks {
		if len(b.Instrs) == 0 {
			continue
		}
		iff, ok := b.Instrs[len(b.Instrs)-1].(*ssa.If)
		if !ok || len(b.Succs) != 2 || b.Succs[0] == b.Succs[1] {
			continue
		}
		if c, ok := (Guard{iff, iff.Cond, true}).AsCmp(); ok {
			out[Edge{b, b.Succs[0]}] = c
		}
		if c, ok := (Guard{iff, iff.Cond, false}).AsCmp(); ok {
			out[Edge{b, b.Succs[1]}] = c
		}
	}
	return out
}

// EdgesWhere selects the conditional edges whose established comparison (in either
// operand order) satisfies pred. Short-circuit conditions that were compiled to a
// boolean phi (`switch { case a && b: }`) are handled: the edge out of the phi's branch
// counts when, for every way of entering the branch block that is not itself a selected
// edge and is compatible with the edge's polarity, the incoming comparison satisfies pred.
func EdgesWhere(fn *ssa.Function, pred func(Cmp) bool) map[Edge]bool {
	out := map[Edge]bool{}
	for e, c := range EdgeCmps(fn) {
		if pred(c) || pred(c.Flip()) {
			out[e] = true
		}
	}
	// conditions that call an extracted predicate helper: the edge on which the helper
	// returned true establishes every comparison the helper implies
	for _, b := range fn.Blocks {
		if len(b.Instrs) == 0 || len(b.Succs) != 2 || b.Succs[0] == b.Succs[1] {
			continue
		}
		iff, ok := b.Instrs[len(b.Instrs)-1].(*ssa.If)
		if !ok {
			continue
		}
		cond, taken := iff.Cond, true
		for {
			if u, ok := cond.(*ssa.UnOp); ok && u.Op == token.NOT {
				cond, taken = u.X, !taken
				continue
			}
			break
		}
		if cs, bind, ok := PredicateImplied(cond); ok {
			restore := Bind(bind)
			for _, c := range cs {
				if pred(c) || pred(c.Flip()) {
					if taken {
						out[Edge{b, b.Succs[0]}] = true
					} else {
						out[Edge{b, b.Succs[1]}] = true
					}
				}
			}
			restore()
		}
		// ... and the edge on which it returned false establishes the negation of every
		// disjunct (`outOfBounds(...)` false: all the bounds hold)
		if cs, bind, ok := PredicateRefuted(cond); ok {
			restore := Bind(bind)
			for _, c := range cs {
				if pred(c) || pred(c.Flip()) {
					if taken {
						out[Edge{b, b.Succs[1]}] = true
					} else {
						out[Edge{b, b.Succs[0]}] = true
					}
				}
			}
			restore()
		}
	}
	for pass := 0; pass < 3; pass++ {
		for _, b := range fn.Blocks {
			if len(b.Instrs) == 0 || len(b.Succs) != 2 || b.Succs[0] == b.Succs[1] {
				continue
			}
			iff, ok := b.Instrs[len(b.Instrs)-1].(*ssa.If)
			if !ok {
				continue
			}
			phi, ok := iff.Cond.(*ssa.Phi)
			if !ok || phi.Block() != b {
				continue
			}
			for si, succ := range b.Succs {
				taken := si == 0
				if out[Edge{b, succ}] {
					continue
				}
				all := true
				any := false
				for pi, p := range b.Preds {
					if out[Edge{p, b}] {
						continue
					}
					v := phi.Edges[pi]
					if k, isK := v.(*ssa.Const); isK && k.Value != nil {
						isTrue := k.Value.String() == "true"
						if isTrue != taken {
							continue // infeasible from this predecessor
						}
						all = false
						break
					}
					c, isCmp := (Guard{iff, v, taken}).AsCmp()
					if !isCmp || !(pred(c) || pred(c.Flip())) {
						all = false
						break
					}
					any = true
				}
				if all && any {
					out[Edge{b, succ}] = true
				}
			}
		}
	}
	return out
}

// MustPassEdge reports whether every path from the entry of fn (or from `from`) to
// `to` takes one of the edges, or passes a barrier instruction.
func MustPassEdge(fn *ssa.Function, from, to ssa.Instruction, edges map[Edge]bool, barrier func(ssa.Instruction) bool) (bool, []int) {
	r, path := Reach(Search{From: from, Fn: fn, Blocked: edges, Barrier: barrier}, Is(to))
	return !r, path
}

// ---------------------------------------------------------------------------------
// predicate helpers

// PredicateImplied decodes a call to an extracted predicate helper (a repository function
// with one bool result whose body is a conjunction of comparisons): it returns the
// comparisons that hold whenever the helper returns true, in the helper's own values,
// and the binding of its parameters to the arguments of this call.
func PredicateImplied(cond ssa.Value) ([]Cmp, Binding, bool) {
	call, ok := cond.(*ssa.Call)
	if !ok {
		return nil, nil, false
	}
	g := call.Call.StaticCallee()
	if g == nil || g.Blocks == nil || !InRepo(g) || g.Signature.Results().Len() != 1 {
		return nil, nil, false
	}
	if b, isB := g.Signature.Results().At(0).Type().Underlying().(*types.Basic); !isB || b.Kind() != types.Bool {
		return nil, nil, false
	}
	var rets []*ssa.Return
	pure := true
	Instrs(g, func(in ssa.Instruction) {
		switch x := in.(type) {
		case *ssa.Return:
			rets = append(rets, x)
		case *ssa.Store, *ssa.MapUpdate, *ssa.Send, *ssa.Go, *ssa.Defer:
			pure = false
		case *ssa.Call:
			if _, isBuiltin := x.Call.Value.(*ssa.Builtin); !isBuiltin {
				pure = false
			}
		}
	})
	if !pure || len(rets) != 1 {
		return nil, nil, false
	}
	var out []Cmp
	var collect func(v ssa.Value, blk *ssa.BasicBlock, depth int) bool
	collect = func(v ssa.Value, blk *ssa.BasicBlock, depth int) bool {
		if depth > 6 {
			return false
		}
		switch x := v.(type) {
		case *ssa.BinOp, *ssa.UnOp:
			c, ok := (Guard{nil, v, true}).AsCmp()
			if !ok {
				return false
			}
			out = append(out, c)
			for _, gd := range BlockGuards(blk) {
				if gc, ok := gd.AsCmp(); ok {
					out = append(out, gc)
				}
			}
			return true
		case *ssa.Phi:
			// a && b: the only non-false edge carries b, evaluated behind a
			var live []int
			for i, e := range x.Edges {
				if k, isK := e.(*ssa.Const); isK && k.Value != nil && k.Value.String() == "false" {
					continue
				}
				live = append(live, i)
			}
			if len(live) != 1 {
				return false
			}
			return collect(x.Edges[live[0]], x.Block().Preds[live[0]], depth+1)
		}
		return false
	}
	if !collect(rets[0].Results[0], rets[0].Block(), 0) {
		return nil, nil, false
	}
	b := Binding{}
	for i, p := range g.Params {
		if i < len(call.Call.Args) {
			b[p] = call.Call.Args[i]
		}
	}
	return out, b, true
}

// PredicateRefuted is the dual of PredicateImplied: the comparisons that hold whenever a
// pure predicate helper whose body is a disjunction of comparisons returns false (the
// negation of every disjunct).
func PredicateRefuted(cond ssa.Value) ([]Cmp, Binding, bool) {
	call, ok := cond.(*ssa.Call)
	if !ok {
		return nil, nil, false
	}
	g := call.Call.StaticCallee()
	if g == nil || g.Blocks == nil || !InRepo(g) || g.Signature.Results().Len() != 1 {
		return nil, nil, false
	}
	if b, isB := g.Signature.Results().At(0).Type().Underlying().(*types.Basic); !isB || b.Kind() != types.Bool {
		return nil, nil, false
	}
	var rets []*ssa.Return
	pure := true
	Instrs(g, func(in ssa.Instruction) {
		switch x := in.(type) {
		case *ssa.Return:
			rets = append(rets, x)
		case *ssa.Store, *ssa.MapUpdate, *ssa.Send, *ssa.Go, *ssa.Defer:
			pure = false
		case *ssa.Call:
			if _, isBuiltin := x.Call.Value.(*ssa.Builtin); !isBuiltin {
				pure = false
			}
		}
	})
	if !pure || len(rets) != 1 {
		return nil, nil, false
	}
	var out []Cmp
	var collect func(v ssa.Value, blk *ssa.BasicBlock, depth int) bool
	collect = func(v ssa.Value, blk *ssa.BasicBlock, depth int) bool {
		if depth > 6 {
			return false
		}
		switch x := v.(type) {
		case *ssa.BinOp, *ssa.UnOp:
			c, ok := (Guard{nil, v, false}).AsCmp()
			if !ok {
				return false
			}
			out = append(out, c)
			for _, gd := range BlockGuards(blk) {
				if gc, ok := gd.AsCmp(); ok {
					out = append(out, gc)
				}
			}
			return true
		case *ssa.Phi:
			// a || b: the only non-true edge carries b, evaluated behind !a
			var live []int
			for i, e := range x.Edges {
				if k, isK := e.(*ssa.Const); isK && k.Value != nil && k.Value.String() == "true" {
					continue
				}
				live = append(live, i)
			}
			if len(live) != 1 {
				return false
			}
			return collect(x.Edges[live[0]], x.Block().Preds[live[0]], depth+1)
		}
		return false
	}
	if !collect(rets[0].Results[0], rets[0].Block(), 0) {
		return nil, nil, false
	}
	b := Binding{}
	for i, p := range g.Params {
		if i < len(call.Call.Args) {
			b[p] = call.Call.Args[i]
		}
	}
	return out, b, true
}

// CmpGuardsX is CmpGuards that also expands predicate helpers that are known to have
// returned true; the returned binding must be activated (Bind) while matching.
func CmpGuardsX(in ssa.Instruction) ([]Cmp, Binding) {
	var out []Cmp
	bind := Binding{}
	for _, g := range Guards(in) {
		if c, ok := g.AsCmp(); ok {
			out = append(out, c)
			continue
		}
		cond, taken := g.Cond, g.Taken
		for {
			if u, ok := cond.(*ssa.UnOp); ok && u.Op == token.NOT {
				cond, taken = u.X, !taken
				continue
			}
			break
		}
		if !taken {
			continue
		}
		if cs, b, ok := PredicateImplied(cond); ok {
			conflict := false
			for k, v := range b {
				if old, has := bind[k]; has && old != v {
					conflict = true
				}
			}
			if conflict {
				continue
			}
			for k, v := range b {
				bind[k] = v
			}
			out = append(out, cs...)
		}
	}
	return out, bind
}

// LoopBlocks returns the blocks of the natural loop headed by header: blocks dominated
// by the header from which the header can be reached again.
func LoopBlocks(header *ssa.BasicBlock) map[*ssa.BasicBlock]bool {
	in := map[*ssa.BasicBlock]bool{header: true}
	fn := header.Parent()
	// backwards from the latches
	var work []*ssa.BasicBlock
	for _, p := range header.Preds {
		if header.Dominates(p) {
			work = append(work, p)
		}
	}
	for len(work) > 0 {
		b := work[len(work)-1]
		work = work[:len(work)-1]
		if in[b] {
			continue
		}
		in[b] = true
		for _, p := range b.Preds {
			if !in[p] && header.Dominates(p) {
				work = append(work, p)
			}
		}
	}
	_ = fn
	return in
}

// EnclosingLoopHeader returns the innermost loop header whose loop contains b (nil if none).
func EnclosingLoopHeader(b *ssa.BasicBlock) *ssa.BasicBlock {
	var best *ssa.BasicBlock
	bestSize := 0
	for _, h := range b.Parent().Blocks {
		isHeader := false
		for _, p := range h.Preds {
			if h.Dominates(p) {
				isHeader = true
			}
		}
		if !isHeader {
			continue
		}
		lb := LoopBlocks(h)
		if lb[b] && (best == nil || len(lb) < bestSize) {
			best, bestSize = h, len(lb)
		}
	}
	return best
}
