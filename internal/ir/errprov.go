package ir

import (
	"go/token"
	"go/types"
	"sort"
	"strings"

	"golang.org/x/tools/go/ssa"
)

// Error provenance (rule kind K4): for an error-typed value, the set of places the
// error can originate from — repository sentinels, errors constructed on the spot,
// results of library calls — followed through phis, local cells, tuple extraction,
// repository callees (summaries, memoised), wrappers (pkg/errors Wrap*, multierr) and
// interface calls (resolved by the call graph), and filtered by errors.Is / == guards
// at every use site.

type ErrOrigin struct {
	Kind string // "sentinel", "new", "ext", "unknown"
	Name string // sentinel: pkg.Name; new: constructor + enclosing function; ext: pkg.Func
	Pos  token.Pos
	Via  string // the repository function in which the origin enters
}

func (o ErrOrigin) Key() string { return o.Kind + ":" + o.Name }

type ErrProv struct {
	P    *Prog
	memo map[*ssa.Function]map[string]ErrOrigin
	busy map[*ssa.Function]bool
	// Descend decides whether a repository callee is summarised (false: opaque, "ext").
	Descend func(*ssa.Function) bool
}

func NewErrProv(p *Prog) *ErrProv {
	return &ErrProv{P: p, memo: map[*ssa.Function]map[string]ErrOrigin{}, busy: map[*ssa.Function]bool{}}
}

type oset map[string]ErrOrigin

func (s oset) add(o ErrOrigin) {
	if _, ok := s[o.Key()]; !ok {
		s[o.Key()] = o
	}
}
func (s oset) addAll(t oset) {
	for _, o := range t {
		s.add(o)
	}
}

// ReturnOrigins: origins of the error results of fn.
func (e *ErrProv) ReturnOrigins(fn *ssa.Function) map[string]ErrOrigin {
	if r, ok := e.memo[fn]; ok {
		return r
	}
	if e.busy[fn] {
		return oset{}
	}
	e.busy[fn] = true
	out := oset{}
	Instrs(fn, func(in ssa.Instruction) {
		ret, ok := in.(*ssa.Return)
		if !ok {
			return
		}
		for _, v := range ReturnValues(ret) {
			if IsError(v.Type()) {
				out.addAll(e.valueOrigins(v, in, fn, 0, map[ssa.Value]bool{}))
			}
		}
	})
	delete(e.busy, fn)
	e.memo[fn] = out
	return out
}

// ReturnOriginsWhere: origins of the error results of those returns of fn that keep says
// to look at (not memoised: the selection belongs to the caller).
func (e *ErrProv) ReturnOriginsWhere(fn *ssa.Function, keep func(*ssa.Return) bool) map[string]ErrOrigin {
	out := oset{}
	e.busy[fn] = true
	Instrs(fn, func(in ssa.Instruction) {
		ret, ok := in.(*ssa.Return)
		if !ok || !keep(ret) {
			return
		}
		for _, v := range ReturnValues(ret) {
			if IsError(v.Type()) {
				out.addAll(e.valueOrigins(v, in, fn, 0, map[ssa.Value]bool{}))
			}
		}
	})
	delete(e.busy, fn)
	return out
}

func pkgOfCallee(c *ssa.CallCommon) (string, string) {
	if c.IsInvoke() {
		n := c.Method.Name()
		if named := namedOf(c.Value.Type()); named != nil && named.Obj().Pkg() != nil {
			return named.Obj().Pkg().Path(), named.Obj().Name() + "." + n
		}
		if c.Method.Pkg() != nil {
			return c.Method.Pkg().Path(), n
		}
		return "", n
	}
	f := c.StaticCallee()
	if f == nil {
		return "", "dynamic"
	}
	name := f.Name()
	if f.Signature.Recv() != nil {
		if named := namedOf(f.Signature.Recv().Type()); named != nil {
			name = named.Obj().Name() + "." + name
		}
	}
	if o := f.Object(); o != nil && o.Pkg() != nil {
		return o.Pkg().Path(), name
	}
	return PkgPathOf(f), name
}

var errWrappers = map[string]bool{
	"github.com/pkg/errors.Wrap": true, "github.com/pkg/errors.Wrapf": true, "github.com/pkg/errors.WithMessage": true,
	"github.com/pkg/errors.WithMessagef": true, "github.com/pkg/errors.WithStack": true, "github.com/pkg/errors.Cause": true,
	"go.uber.org/multierr.Append": true, "go.uber.org/multierr.Combine": true, "errors.Join": true, "errors.Unwrap": true,
}

var errConstructors = map[string]bool{
	"errors.New": true, "fmt.Errorf": true, "github.com/pkg/errors.New": true, "github.com/pkg/errors.Errorf": true,
	"google.golang.org/grpc/status.Errorf": true, "google.golang.org/grpc/status.Error": true,
}

func (e *ErrProv) valueOrigins(v ssa.Value, site ssa.Instruction, in *ssa.Function, depth int, seen map[ssa.Value]bool) oset {
	out := oset{}
	if v == nil || depth > 25 {
		return out
	}
	if seen[v] {
		return out
	}
	seen[v] = true
	defer delete(seen, v)
	raw := oset{}
	switch x := v.(type) {
	case *ssa.Const:
		// nil
	case *ssa.Phi:
		for i, ed := range x.Edges {
			pred := x.Block().Preds[i]
			term := pred.Instrs[len(pred.Instrs)-1]
			raw.addAll(e.valueOrigins(ed, term, in, depth+1, seen))
		}
	case *ssa.Extract:
		raw.addAll(e.valueOrigins(x.Tuple, site, in, depth+1, seen))
	case *ssa.ChangeInterface:
		raw.addAll(e.valueOrigins(x.X, site, in, depth+1, seen))
	case *ssa.ChangeType:
		raw.addAll(e.valueOrigins(x.X, site, in, depth+1, seen))
	case *ssa.MakeInterface:
		n := "value of type " + x.X.Type().String()
		raw.add(ErrOrigin{Kind: "new", Name: n, Pos: x.Pos(), Via: FuncName(in)})
	case *ssa.UnOp:
		if x.Op != token.MUL {
			raw.add(ErrOrigin{Kind: "unknown", Name: Describe(v), Pos: x.Pos(), Via: FuncName(in)})
			break
		}
		switch a := x.X.(type) {
		case *ssa.Global:
			pk := ""
			if a.Pkg != nil {
				pk = RelPkg(a.Pkg.Pkg.Path())
			}
			raw.add(ErrOrigin{Kind: "sentinel", Name: pk + "." + a.Name(), Pos: x.Pos(), Via: FuncName(in)})
		default:
			if al, ok := cellOf(x.X).(*ssa.Alloc); ok {
				for _, st := range AllStores(al) {
					fn := st.Parent()
					raw.addAll(e.valueOrigins(st.Val, st, fn, depth+1, seen))
				}
			} else {
				raw.add(ErrOrigin{Kind: "unknown", Name: Describe(v), Pos: x.Pos(), Via: FuncName(in)})
			}
		}
	case *ssa.Call:
		raw.addAll(e.callOrigins(x, in, depth, seen))
	case *ssa.Parameter:
		// a helper that is only called statically: the union over what its callers pass
		resolved := false
		if sites := StaticCallSites(x.Parent()); len(sites) > 0 && depth < 12 {
			idx := -1
			for i, p := range x.Parent().Params {
				if p == x {
					idx = i
				}
			}
			if idx >= 0 {
				resolved = true
				for _, cs := range sites {
					if idx < len(cs.Common().Args) {
						raw.addAll(e.valueOrigins(cs.Common().Args[idx], cs, cs.Parent(), depth+1, seen))
					} else {
						resolved = false
					}
				}
			}
		}
		if !resolved {
			raw.add(ErrOrigin{Kind: "unknown", Name: "parameter " + x.Name() + " of " + FuncName(in), Pos: x.Pos(), Via: FuncName(in)})
		}
	case *ssa.TypeAssert:
		raw.addAll(e.valueOrigins(x.X, site, in, depth+1, seen))
	default:
		raw.add(ErrOrigin{Kind: "unknown", Name: Describe(v), Via: FuncName(in)})
	}
	// guard filtering at the use site
	if site != nil {
		excl, only := guardSentinels(v, site)
		for k, o := range raw {
			if o.Kind == "sentinel" {
				short := o.Name[strings.LastIndex(o.Name, ".")+1:]
				if excl[short] {
					continue
				}
				if len(only) > 0 && !only[short] {
					continue
				}
			} else if len(only) > 0 {
				// the value is known to be one specific sentinel here
				continue
			}
			out[k] = o
		}
		return out
	}
	return raw
}

// guardSentinels: sentinels excluded (errors.Is(v,S) false / v != S) and, if any, the
// sentinel the value is known to be (errors.Is(v,S) true) at the site.
func guardSentinels(v ssa.Value, site ssa.Instruction) (excl, only map[string]bool) {
	excl, only = map[string]bool{}, map[string]bool{}
	same := func(x ssa.Value) bool {
		if x == v || Canon(x) == Canon(v) {
			return true
		}
		// loads of the same local cell
		ux, ok1 := x.(*ssa.UnOp)
		uv, ok2 := v.(*ssa.UnOp)
		if ok1 && ok2 && ux.Op == token.MUL && uv.Op == token.MUL && cellOf(ux.X) == cellOf(uv.X) {
			return true
		}
		// v is the value stored in the cell x loads from, or vice versa
		if ok1 && ux.Op == token.MUL {
			if al, ok := cellOf(ux.X).(*ssa.Alloc); ok {
				for _, st := range AllStores(al) {
					if st.Val == v {
						return true
					}
				}
			}
		}
		if ok2 && uv.Op == token.MUL {
			if al, ok := cellOf(uv.X).(*ssa.Alloc); ok {
				for _, st := range AllStores(al) {
					if st.Val == x {
						return true
					}
				}
			}
		}
		return false
	}
	sentinelOf := func(x ssa.Value) string {
		u, ok := x.(*ssa.UnOp)
		if !ok || u.Op != token.MUL {
			return ""
		}
		g, ok := u.X.(*ssa.Global)
		if !ok {
			return ""
		}
		return g.Name()
	}
	var visit func(cond ssa.Value, taken bool, g Guard)
	visit = func(cond ssa.Value, taken bool, g Guard) {
		switch c := cond.(type) {
		case *ssa.UnOp:
			if c.Op == token.NOT {
				visit(c.X, !taken, g)
			}
		case *ssa.Call:
			f := c.Call.StaticCallee()
			if f != nil && f.Name() == "Is" && len(c.Call.Args) == 2 && same(c.Call.Args[0]) {
				if s := sentinelOf(c.Call.Args[1]); s != "" {
					if taken {
						only[s] = true
					} else {
						excl[s] = true
					}
				}
			}
		case *ssa.BinOp:
			if c.Op == token.EQL || c.Op == token.NEQ {
				var other ssa.Value
				if same(c.X) {
					other = c.Y
				} else if same(c.Y) {
					other = c.X
				}
				if other != nil {
					if s := sentinelOf(other); s != "" {
						eq := (c.Op == token.EQL) == taken
						if eq {
							only[s] = true
						} else {
							excl[s] = true
						}
					}
				}
			}
		case *ssa.Phi:
			// short-circuit value: a || b evaluated to false means both false
			if !taken {
				for _, ed := range c.Edges {
					if _, isConst := ed.(*ssa.Const); !isConst {
						visit(ed, false, g)
					}
				}
			}
		}
	}
	for _, g := range Guards(site) {
		visit(g.Cond, g.Taken, g)
	}
	return excl, only
}

func (e *ErrProv) callOrigins(call *ssa.Call, in *ssa.Function, depth int, seen map[ssa.Value]bool) oset {
	out := oset{}
	c := call.Common()
	pkg, name := pkgOfCallee(c)
	full := pkg + "." + name
	if errWrappers[full] {
		for _, a := range c.Args {
			if IsError(a.Type()) {
				out.addAll(e.valueOrigins(a, call, in, depth+1, seen))
			} else if sl, ok := a.(*ssa.Slice); ok {
				// variadic errors: multierr.Combine(errs...)
				if al, ok := sl.X.(*ssa.Alloc); ok && al.Referrers() != nil {
					for _, r := range *al.Referrers() {
						if ia, ok := r.(*ssa.IndexAddr); ok && ia.Referrers() != nil {
							for _, rr := range *ia.Referrers() {
								if st, ok := rr.(*ssa.Store); ok && IsError(st.Val.Type()) {
									out.addAll(e.valueOrigins(st.Val, call, in, depth+1, seen))
								}
							}
						}
					}
				}
			}
		}
		return out
	}
	if errConstructors[full] {
		out.add(ErrOrigin{Kind: "new", Name: full + " in " + FuncName(in), Pos: call.Pos(), Via: FuncName(in)})
		return out
	}
	targets := e.P.Targets(call)
	any := false
	for _, t := range targets {
		if t.Blocks != nil && InRepo(t) && (e.Descend == nil || e.Descend(t)) {
			any = true
			out.addAll(e.ReturnOrigins(t))
		} else if t.Blocks == nil || !InRepo(t) {
			tp, tn := "", t.Name()
			if o := t.Object(); o != nil && o.Pkg() != nil {
				tp = o.Pkg().Path()
			}
			if t.Signature.Recv() != nil {
				if named := namedOf(t.Signature.Recv().Type()); named != nil {
					tn = named.Obj().Name() + "." + tn
				}
			}
			any = true
			out.add(ErrOrigin{Kind: "ext", Name: tp + "." + tn, Pos: call.Pos(), Via: FuncName(in)})
		} else {
			any = true
			out.add(ErrOrigin{Kind: "ext", Name: RelPkg(PkgPathOf(t)) + "." + t.Name(), Pos: call.Pos(), Via: FuncName(in)})
		}
	}
	if !any {
		out.add(ErrOrigin{Kind: "ext", Name: full, Pos: call.Pos(), Via: FuncName(in)})
	}
	return out
}

// SortedOrigins renders an origin set deterministically.
func SortedOrigins(m map[string]ErrOrigin) []ErrOrigin {
	var out []ErrOrigin
	for _, o := range m {
		out = append(out, o)
	}
	sort.Slice(out, func(i, j int) bool { return out[i].Key() < out[j].Key() })
	return out
}

var _ = types.Universe
