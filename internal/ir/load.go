// Package ir loads /repo as the real build sees it and offers the resolved-program
// helpers (SSA, dominance, reachability with barriers, locksets, field writers,
// closures, call graph) that the property rules are written against.
package ir

import (
	"fmt"
	"go/token"
	"go/types"
	"os"
	"sort"
	"strings"

	"golang.org/x/tools/go/callgraph"
	"golang.org/x/tools/go/callgraph/cha"
	"golang.org/x/tools/go/callgraph/vta"
	"golang.org/x/tools/go/packages"
	"golang.org/x/tools/go/ssa"
	"golang.org/x/tools/go/ssa/ssautil"
)

// Module is the import-path prefix of the repository under analysis.
const Module = "github.com/oxia-db/oxia"

type Prog struct {
	Dir   string
	Fset  *token.FileSet
	Pkgs  []*packages.Package // repository packages (with syntax)
	SSA   *ssa.Program
	Whole bool

	byPath map[string]*packages.Package
	ssaPkg map[string]*ssa.Package

	// Funcs are all repository functions with bodies (incl. methods, closures,
	// generic instantiations), sorted by position.
	Funcs []*ssa.Function

	cg       *callgraph.Graph
	cgKind   string
	writers  map[fieldKey][]FieldWrite
	implsMem map[*types.Interface][]types.Type
	fstores  map[fkey][]ssa.Value
	gstores  map[*ssa.Global][]ssa.Value
}

// Options for Load.
type Options struct {
	Dir     string            // repository root
	Whole   bool              // load dependencies from source too (thorough tier)
	Overlay map[string][]byte // absolute file name -> contents (seeded-fault self-test)
}

func Load(o Options) (*Prog, error) {
	os.Unsetenv("GOWORK")
	mode := packages.NeedName | packages.NeedFiles | packages.NeedCompiledGoFiles | packages.NeedImports |
		packages.NeedTypes | packages.NeedTypesSizes | packages.NeedSyntax | packages.NeedTypesInfo | packages.NeedModule
	if o.Whole {
		mode |= packages.NeedDeps
	}
	env := append(os.Environ(), "GOFLAGS=-mod=mod", "GOPROXY=off", "GOWORK=off")
	cfg := &packages.Config{Mode: mode, Dir: o.Dir, Env: env, Overlay: o.Overlay, Tests: false}
	pkgs, err := packages.Load(cfg, "./...")
	if err != nil {
		return nil, fmt.Errorf("packages.Load: %w", err)
	}
	if len(pkgs) == 0 {
		return nil, fmt.Errorf("no packages loaded from %s", o.Dir)
	}
	var errs []string
	packages.Visit(pkgs, nil, func(p *packages.Package) {
		for _, e := range p.Errors {
			errs = append(errs, e.Error())
		}
	})
	if len(errs) > 0 {
		sort.Strings(errs)
		if len(errs) > 10 {
			errs = errs[:10]
		}
		return nil, fmt.Errorf("type/load errors:\n  %s", strings.Join(errs, "\n  "))
	}
	p := &Prog{Dir: o.Dir, Whole: o.Whole, byPath: map[string]*packages.Package{}, ssaPkg: map[string]*ssa.Package{}}
	p.Fset = pkgs[0].Fset
	for _, pk := range pkgs {
		if strings.HasPrefix(pk.PkgPath, Module) {
			p.Pkgs = append(p.Pkgs, pk)
			p.byPath[pk.PkgPath] = pk
		}
	}
	if len(p.Pkgs) < 30 {
		return nil, fmt.Errorf("only %d repository packages loaded; expected at least 30", len(p.Pkgs))
	}
	bmode := ssa.InstantiateGenerics
	var prog *ssa.Program
	var spkgs []*ssa.Package
	if o.Whole {
		prog, spkgs = ssautil.AllPackages(pkgs, bmode)
	} else {
		prog, spkgs = ssautil.Packages(pkgs, bmode)
	}
	prog.Build()
	p.SSA = prog
	for i, sp := range spkgs {
		if sp == nil {
			return nil, fmt.Errorf("no SSA package for %s", pkgs[i].PkgPath)
		}
	}
	for _, sp := range prog.AllPackages() {
		p.ssaPkg[sp.Pkg.Path()] = sp
	}
	for fn := range ssautil.AllFunctions(prog) {
		if fn.Blocks == nil {
			continue
		}
		if InRepo(fn) {
			p.Funcs = append(p.Funcs, fn)
		}
	}
	sort.Slice(p.Funcs, func(i, j int) bool {
		a, b := p.Funcs[i], p.Funcs[j]
		pa, pb := p.Fset.Position(a.Pos()), p.Fset.Position(b.Pos())
		if pa.Filename != pb.Filename {
			return pa.Filename < pb.Filename
		}
		if pa.Offset != pb.Offset {
			return pa.Offset < pb.Offset
		}
		return a.String() < b.String()
	})
	p.indexSingleCallers()
	fwCache := map[string]bool{}
	fieldWritersOutsideLiterals = func(t *types.Named, field string) bool {
		if t.Obj().Pkg() == nil {
			return true
		}
		key := t.Obj().Pkg().Path() + "." + t.Obj().Name() + "." + field
		if v, ok := fwCache[key]; ok {
			return v
		}
		res := false
		for _, w := range p.FieldWrites(RelPkg(t.Obj().Pkg().Path()), t.Obj().Name(), field) {
			if w.Kind != "literal" {
				res = true
			}
		}
		fwCache[key] = res
		return res
	}
	ehCache := map[*ssa.Function]map[string]bool{}
	entryHeldOf = func(fn *ssa.Function) map[string]bool {
		if fn == nil || fn.Parent() != nil || fn.Object() == nil || fn.Object().Exported() {
			return nil
		}
		if m, ok := ehCache[fn]; ok {
			return m
		}
		ehCache[fn] = nil // recursion guard
		m := p.EntryHeld(fn, 0)
		ehCache[fn] = m
		return m
	}
	return p, nil
}

// indexSingleCallers records, for every unexported repository function that is called
// from exactly one static call site and is never used as a value (nor can be reached
// through an interface), that call site. Canon resolves the parameters of such a
// function to the arguments of its only caller, so that "extract method" refactorings
// keep value identities intact.
func (p *Prog) indexSingleCallers() {
	sites := map[*ssa.Function][]ssa.CallInstruction{}
	escaped := map[*ssa.Function]bool{}
	ifaceByMethod := map[string][]*types.Interface{}
	for _, pk := range p.Pkgs {
		sc := pk.Types.Scope()
		for _, nm := range sc.Names() {
			if tn, ok := sc.Lookup(nm).(*types.TypeName); ok {
				if it, ok := tn.Type().Underlying().(*types.Interface); ok {
					for i := 0; i < it.NumMethods(); i++ {
						ifaceByMethod[it.Method(i).Name()] = append(ifaceByMethod[it.Method(i).Name()], it)
					}
				}
			}
		}
	}
	// a method can be reached through an interface only if its receiver type implements
	// an interface that declares a method of that name
	viaInterface := func(f *ssa.Function) bool {
		if f.Signature.Recv() == nil {
			return false
		}
		rt := f.Signature.Recv().Type()
		for _, it := range ifaceByMethod[f.Name()] {
			if types.Implements(rt, it) {
				return true
			}
			if _, isPtr := rt.(*types.Pointer); !isPtr && types.Implements(types.NewPointer(rt), it) {
				return true
			}
		}
		return false
	}
	methodValueSites = map[*ssa.Function][]*ssa.MakeClosure{}
	for _, fn := range p.Funcs {
		if fn.Synthetic != "" {
			continue // wrappers (bound methods, thunks) are not callers in their own right
		}
		Instrs(fn, func(in ssa.Instruction) {
			if mc, ok := in.(*ssa.MakeClosure); ok {
				if m := BoundMethod(mc); m != nil {
					methodValueSites[m] = append(methodValueSites[m], mc)
				}
			}
			var callee *ssa.Function
			if ci, ok := in.(ssa.CallInstruction); ok {
				c := ci.Common()
				if f := c.StaticCallee(); f != nil && !c.IsInvoke() {
					if _, isFn := c.Value.(*ssa.Function); isFn {
						callee = f
						sites[f] = append(sites[f], ci)
					}
				}
			}
			for _, op := range in.Operands(nil) {
				if f, ok := (*op).(*ssa.Function); ok {
					if ci, isCall := in.(ssa.CallInstruction); isCall && f == callee && ci.Common().Value == ssa.Value(f) {
						// the call position itself; arguments that are the same function escape
						n := 0
						for _, a := range ci.Common().Args {
							if a == ssa.Value(f) {
								n++
							}
						}
						if n == 0 {
							continue
						}
					}
					escaped[f] = true
				}
			}
		})
	}
	allSites = map[*ssa.Function][]ssa.CallInstruction{}
	for f, cs := range sites {
		if escaped[f] || f.Parent() != nil || !InRepo(f) || f.Object() == nil || f.Object().Exported() {
			continue
		}
		if f.Signature.Recv() != nil && viaInterface(f) {
			continue
		}
		allSites[f] = cs
	}
	singleCaller = map[*ssa.Function]ssa.CallInstruction{}
	for f, cs := range sites {
		if len(cs) != 1 || escaped[f] || f.Parent() != nil || !InRepo(f) || f.Object() == nil || f.Object().Exported() {
			continue
		}
		if f.Signature.Recv() != nil && viaInterface(f) {
			continue
		}
		if f.Signature.Variadic() {
			continue
		}
		singleCaller[f] = cs[0]
	}
}

var singleCaller map[*ssa.Function]ssa.CallInstruction
var allSites map[*ssa.Function][]ssa.CallInstruction
var methodValueSites map[*ssa.Function][]*ssa.MakeClosure

// MethodValueSites lists the places where method m is turned into a function value
// (`x.m` without a call): the closures over its bound-method wrapper.
func MethodValueSites(m *ssa.Function) []*ssa.MakeClosure { return methodValueSites[m] }

// FuncValueSites lists the instructions that create the function value of f: the
// MakeClosure of a function literal, or the method-value closures of a method.
func FuncValueSites(f *ssa.Function) []*ssa.MakeClosure {
	if f.Parent() != nil {
		return ClosureSites(f)
	}
	return methodValueSites[f]
}

// StaticCallSites returns every call site of an unexported repository function that is
// only ever called statically (never used as a value, not reachable through an
// interface); nil when the set of callers is not known completely.
func StaticCallSites(fn *ssa.Function) []ssa.CallInstruction {
	if fn != nil && fn.Parent() != nil {
		return literalCallSites(fn)
	}
	return allSites[fn]
}

var literalSites = map[*ssa.Function][]ssa.CallInstruction{}
var literalSitesDone = map[*ssa.Function]bool{}

// literalCallSites: the calls of a function literal that is created once and only ever
// called directly (from its enclosing function or from sibling literals that capture the
// variable holding it); nil when it is also passed on, stored in a field or started as a
// goroutine.
func literalCallSites(fn *ssa.Function) []ssa.CallInstruction {
	if literalSitesDone[fn] {
		return literalSites[fn]
	}
	literalSitesDone[fn] = true
	sites := ClosureSites(fn)
	if len(sites) != 1 {
		return nil
	}
	mc := sites[0]
	root := Outermost(fn)
	var out []ssa.CallInstruction
	ok := true
	var scan func(f *ssa.Function)
	scan = func(f *ssa.Function) {
		Instrs(f, func(in ssa.Instruction) {
			if in == ssa.Instruction(mc) {
				return
			}
			if ci, isCall := in.(ssa.CallInstruction); isCall {
				if Canon(ci.Common().Value) == ssa.Value(mc) {
					if _, isGo := in.(*ssa.Go); isGo {
						ok = false
					}
					out = append(out, ci)
				}
				for _, a := range ci.Common().Args {
					if Canon(a) == ssa.Value(mc) {
						ok = false
					}
				}
				return
			}
			if st, isSt := in.(*ssa.Store); isSt && Canon(st.Val) == ssa.Value(mc) {
				if _, local := cellOf(st.Addr).(*ssa.Alloc); !local {
					ok = false
				}
			}
		})
		for _, af := range f.AnonFuncs {
			scan(af)
		}
	}
	scan(root)
	if !ok {
		return nil
	}
	literalSites[fn] = out
	return out
}

// SingleCallSite returns the only static call site of an unexported repository function
// that is never used as a value (nil otherwise).
func SingleCallSite(fn *ssa.Function) ssa.CallInstruction { return singleCaller[fn] }

// ParamArg returns the argument bound to parameter x when x's function has a single,
// static call site (nil otherwise).
func ParamArg(x *ssa.Parameter) ssa.Value {
	fn := x.Parent()
	ci := singleCaller[fn]
	if ci == nil {
		// a method only ever used as a method value, at one place: its receiver is the
		// value bound there (closures turned into methods of a small state struct)
		if fn.Signature.Recv() != nil && len(fn.Params) > 0 && fn.Params[0] == x && len(allSites[fn]) == 0 && fn.Object() != nil && !fn.Object().Exported() {
			if mv := methodValueSites[fn]; len(mv) == 1 && len(mv[0].Bindings) == 1 {
				return mv[0].Bindings[0]
			}
		}
		return nil
	}
	c := ci.Common()
	for i, pr := range fn.Params {
		if pr == x && i < len(c.Args) {
			return c.Args[i]
		}
	}
	return nil
}

// InRepo reports whether fn (or the function it is nested in / instantiated from)
// is declared in the repository under analysis.
func InRepo(fn *ssa.Function) bool {
	for fn.Parent() != nil {
		fn = fn.Parent()
	}
	if o := fn.Origin(); o != nil {
		fn = o
	}
	if fn.Pkg != nil {
		return strings.HasPrefix(fn.Pkg.Pkg.Path(), Module)
	}
	if obj := fn.Object(); obj != nil && obj.Pkg() != nil {
		return strings.HasPrefix(obj.Pkg().Path(), Module)
	}
	return false
}

// PkgPathOf returns the package path a function belongs to ("" for synthetic ones).
func PkgPathOf(fn *ssa.Function) string {
	for fn.Parent() != nil {
		fn = fn.Parent()
	}
	if o := fn.Origin(); o != nil {
		fn = o
	}
	if fn.Pkg != nil {
		return fn.Pkg.Pkg.Path()
	}
	if obj := fn.Object(); obj != nil && obj.Pkg() != nil {
		return obj.Pkg().Path()
	}
	return ""
}

// RelPkg strips the module prefix: "server/kv".
func RelPkg(path string) string {
	return strings.TrimPrefix(strings.TrimPrefix(path, Module), "/")
}

func (p *Prog) Package(rel string) *packages.Package {
	return p.byPath[Module+"/"+rel]
}

func (p *Prog) SSAPackage(rel string) *ssa.Package {
	return p.ssaPkg[Module+"/"+rel]
}

// Pos renders a position relative to the repository root.
func (p *Prog) Pos(pos token.Pos) string {
	if !pos.IsValid() {
		return "?"
	}
	ps := p.Fset.Position(pos)
	return fmt.Sprintf("%s:%d", strings.TrimPrefix(ps.Filename, p.Dir+"/"), ps.Line)
}

// InstrPos gives the best available position for an instruction.
func (p *Prog) InstrPos(in ssa.Instruction) string {
	if in == nil {
		return "?"
	}
	if in.Pos().IsValid() {
		return p.Pos(in.Pos())
	}
	if v, ok := in.(ssa.Value); ok {
		if rs := v.Referrers(); rs != nil {
			for _, r := range *rs {
				if r.Pos().IsValid() {
					return p.Pos(r.Pos())
				}
			}
		}
	}
	// nearest positioned instruction in the block
	b := in.Block()
	if b != nil {
		idx := -1
		for i, x := range b.Instrs {
			if x == in {
				idx = i
			}
		}
		for d := 1; d < len(b.Instrs); d++ {
			for _, j := range []int{idx - d, idx + d} {
				if j >= 0 && j < len(b.Instrs) && b.Instrs[j].Pos().IsValid() {
					return p.Pos(b.Instrs[j].Pos()) + "~"
				}
			}
		}
		return p.Pos(b.Parent().Pos()) + "~"
	}
	return "?"
}

// FuncName is a stable printable name: "server.(*leaderController).write$1".
func FuncName(fn *ssa.Function) string {
	if fn == nil {
		return "<nil>"
	}
	s := fn.String()
	s = strings.ReplaceAll(s, Module+"/", "")
	return s
}

// CallGraph returns the CHA graph (quick) or CHA∩VTA (whole program).
func (p *Prog) CallGraph() *callgraph.Graph {
	if p.cg != nil {
		return p.cg
	}
	g := cha.CallGraph(p.SSA)
	// VTA refines CHA by propagating the concrete types that can flow to each interface
	// value / function value. In the quick tier dependencies have no bodies: values
	// produced by them carry no repository types (libraries are opaque, see DESIGN 1.5).
	g = vta.CallGraph(ssautil.AllFunctions(p.SSA), g)
	p.cgKind = "vta(cha)"
	p.cg = g
	return g
}

func (p *Prog) CallGraphKind() string { p.CallGraph(); return p.cgKind }

// InRepoPkg reports whether an SSA package belongs to the repository under analysis.
func InRepoPkg(p *ssa.Package) bool {
	return p != nil && p.Pkg != nil && strings.HasPrefix(p.Pkg.Path(), Module)
}
