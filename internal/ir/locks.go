package ir

import (
	"sort"
	"strings"

	"golang.org/x/tools/go/ssa"
)

// LockOp is a mutex operation found in a function.
type LockOp struct {
	Instr ssa.Instruction
	Lock  string // identity: access path of the mutex, e.g. "lc.RWMutex", "s.mutex"
	Op    string // Lock, Unlock, RLock, RUnlock
	Defer bool
}

// accessPath renders an address as root.field.field; root is a parameter / free
// variable name or "?" when it is not a simple path.
func accessPath(v ssa.Value) string {
	v = Canon(v)
	switch x := v.(type) {
	case *ssa.FieldAddr:
		ref, _ := FieldAddrOf(x)
		return accessPath(x.X) + "." + ref.Field
	case *ssa.Parameter:
		return x.Name()
	case *ssa.FreeVar:
		return x.Name()
	case *ssa.Alloc:
		if x.Comment != "" {
			return x.Comment
		}
		return "alloc"
	case *ssa.UnOp:
		if r, ok := FieldLoadOf(x); ok {
			return accessPath(r.Base) + "." + r.Field
		}
	case *ssa.Global:
		return x.Name()
	}
	return "?"
}

// lockIdentity names a mutex by the struct type and field that holds it
// ("leaderController.RWMutex"); locks are thus identified per type, not per instance,
// which is what lets a callee's lock state be related to its callers'. Mutexes that
// are not struct fields fall back to their access path.
func lockIdentity(v ssa.Value) string {
	if fa, ok := Canon(v).(*ssa.FieldAddr); ok {
		if ref, ok := FieldAddrOf(fa); ok && ref.Struct != nil {
			return ref.Struct.Obj().Name() + "." + ref.Field
		}
	}
	return accessPath(v)
}

// LockOps lists the sync.Mutex / sync.RWMutex operations of fn in block order.
func LockOps(fn *ssa.Function) []LockOp {
	var out []LockOp
	Instrs(fn, func(in ssa.Instruction) {
		ci, ok := in.(ssa.CallInstruction)
		if !ok {
			return
		}
		c := ci.Common()
		callee := c.StaticCallee()
		if callee == nil || callee.Pkg == nil || callee.Pkg.Pkg.Path() != "sync" || len(c.Args) == 0 {
			return
		}
		switch callee.Name() {
		case "Lock", "Unlock", "RLock", "RUnlock":
		default:
			return
		}
		rt := callee.Signature.Recv().Type().String()
		if !strings.HasSuffix(rt, "sync.Mutex") && !strings.HasSuffix(rt, "sync.RWMutex") {
			return
		}
		_, isDefer := in.(*ssa.Defer)
		out = append(out, LockOp{Instr: in, Lock: lockIdentity(c.Args[0]), Op: callee.Name(), Defer: isDefer})
	})
	return out
}

// HeldAt computes, for every instruction of fn, the set of locks that are held on
// every path reaching it (must-analysis). A deferred unlock keeps the lock held up to
// the exit. Read locks are reported as "R:"+lock.
func HeldAt(fn *ssa.Function) map[ssa.Instruction]map[string]bool {
	if entryHeldOf != nil {
		return HeldAtFrom(fn, entryHeldOf(fn))
	}
	return HeldAtFrom(fn, nil)
}

// entryHeldOf (installed by Load) gives the locks every static caller of a helper holds
// when calling it, so that a helper documented as "called with the mutex held" is
// analysed with that lock.
var entryHeldOf func(*ssa.Function) map[string]bool

// HeldAtFrom is HeldAt with a set of locks assumed to be held at the function entry.
func HeldAtFrom(fn *ssa.Function, entry map[string]bool) map[ssa.Instruction]map[string]bool {
	ops := map[ssa.Instruction]LockOp{}
	for _, o := range LockOps(fn) {
		ops[o.Instr] = o
	}
	type state map[string]bool
	clone := func(s state) state {
		c := state{}
		for k := range s {
			c[k] = true
		}
		return c
	}
	in := make([]state, len(fn.Blocks))
	known := make([]bool, len(fn.Blocks))
	apply := func(s state, instr ssa.Instruction) {
		o, ok := ops[instr]
		if !ok || o.Defer {
			return
		}
		switch o.Op {
		case "Lock":
			s[o.Lock] = true
		case "Unlock":
			delete(s, o.Lock)
		case "RLock":
			s["R:"+o.Lock] = true
		case "RUnlock":
			delete(s, "R:"+o.Lock)
		}
	}
	if len(fn.Blocks) == 0 {
		return nil
	}
	in[0] = state{}
	for k := range entry {
		in[0][k] = true
	}
	known[0] = true
	work := []*ssa.BasicBlock{fn.Blocks[0]}
	for len(work) > 0 {
		b := work[0]
		work = work[1:]
		s := clone(in[b.Index])
		for _, instr := range b.Instrs {
			apply(s, instr)
		}
		for _, succ := range b.Succs {
			if !known[succ.Index] {
				known[succ.Index] = true
				in[succ.Index] = clone(s)
				work = append(work, succ)
				continue
			}
			changed := false
			for k := range in[succ.Index] {
				if !s[k] {
					delete(in[succ.Index], k)
					changed = true
				}
			}
			if changed {
				work = append(work, succ)
			}
		}
	}
	res := map[ssa.Instruction]map[string]bool{}
	for _, b := range fn.Blocks {
		if !known[b.Index] {
			continue
		}
		s := clone(in[b.Index])
		for _, instr := range b.Instrs {
			res[instr] = clone(s)
			apply(s, instr)
		}
	}
	return res
}

// HeldString renders a lock set.
func HeldString(m map[string]bool) string {
	var ks []string
	for k := range m {
		ks = append(ks, k)
	}
	sort.Strings(ks)
	return "{" + strings.Join(ks, ",") + "}"
}

// SameCriticalSection reports whether a and b execute in one critical section of an
// exclusive lock: some lock is held at a, still held at b, and no path from a to b
// releases it.
func SameCriticalSection(fn *ssa.Function, a, b ssa.Instruction) (bool, string) {
	held := HeldAt(fn)
	ha, hb := held[a], held[b]
	var candidates []string
	for l := range ha {
		if !strings.HasPrefix(l, "R:") && hb[l] {
			candidates = append(candidates, l)
		}
	}
	sort.Strings(candidates)
	if len(candidates) == 0 {
		return false, "no exclusive lock held at both points: " + HeldString(ha) + " / " + HeldString(hb)
	}
	ops := LockOps(fn)
	for _, l := range candidates {
		released := false
		for _, o := range ops {
			if o.Lock == l && o.Op == "Unlock" && !o.Defer {
				// is the unlock on a path a -> unlock -> b ?
				r1, _ := Reach(Search{From: a, Barrier: Is(b)}, Is(o.Instr))
				if !r1 {
					continue
				}
				r2, _ := Reach(Search{From: o.Instr}, Is(b))
				if r2 {
					released = true
				}
			}
		}
		if !released {
			return true, l
		}
	}
	return false, "the lock is released between the two points"
}

// EntryHeld computes the locks that every static caller holds when it calls fn
// (intersection over call sites; callers that are themselves only called with locks
// held are followed up to three levels). Functions with unknown callers (exported
// methods reached through interfaces, function values) get the empty set.
func (p *Prog) EntryHeld(fn *ssa.Function, depth int) map[string]bool {
	if depth > 3 {
		return map[string]bool{}
	}
	edges := p.CallersOf(fn)
	if len(edges) == 0 {
		return map[string]bool{}
	}
	var acc map[string]bool
	for _, e := range edges {
		if e.Site == nil || e.Site.Common().StaticCallee() != fn {
			return map[string]bool{}
		}
		if _, isGo := e.Site.(*ssa.Go); isGo {
			return map[string]bool{}
		}
		caller := e.Caller.Func
		held := HeldAtFrom(caller, p.EntryHeld(caller, depth+1))[e.Site]
		if _, isDefer := e.Site.(*ssa.Defer); isDefer {
			held = map[string]bool{}
		}
		if acc == nil {
			acc = map[string]bool{}
			for k := range held {
				acc[k] = true
			}
		} else {
			for k := range acc {
				if !held[k] {
					delete(acc, k)
				}
			}
		}
	}
	if acc == nil {
		acc = map[string]bool{}
	}
	return acc
}
