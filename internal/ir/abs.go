package ir

import (
	"go/token"

	"golang.org/x/tools/go/ssa"
)

// Finite decision-table extraction (rule kind K11): a function or loop body that
// touches certain values only through comparisons is executed abstractly under every
// ordering case of those values. No solver: the branch conditions are comparison atoms
// over classified operands and are decided by the case at hand.

// AbsCase assigns an ordering (-1, 0, +1) to pairs of abstract operand names and
// truth values to named boolean atoms.
type AbsCase struct {
	Order map[[2]string]int
	Bool  map[string]bool
	// Vals gives abstract operands a representative integer value; two operands that
	// both have one are ordered by it. "nil" / non-nil is modelled as 0 / 1.
	Vals map[string]int64
}

// Classifier maps an SSA value to the abstract operand it denotes ("" = unknown).
type Classifier func(v ssa.Value, path []*ssa.BasicBlock) string

// AbsWalk follows the control flow from block `from` deciding every branch by the
// case, until `stop` holds for a block (which is included) or the function returns.
// ok=false when a condition cannot be decided (the rule then reports "undecided").
func AbsWalk(from *ssa.BasicBlock, prefix []*ssa.BasicBlock, stop func(*ssa.BasicBlock) bool, cls Classifier, c AbsCase) (path []*ssa.BasicBlock, ok bool, why string) {
	path = append(path, prefix...)
	cur := from
	for steps := 0; steps < 200; steps++ {
		path = append(path, cur)
		if stop != nil && stop(cur) && len(path) > len(prefix)+1 {
			return path, true, ""
		}
		if len(cur.Instrs) == 0 {
			return path, false, "empty block"
		}
		switch last := cur.Instrs[len(cur.Instrs)-1].(type) {
		case *ssa.Jump:
			cur = cur.Succs[0]
		case *ssa.Return, *ssa.Panic:
			return path, true, ""
		case *ssa.If:
			v, known, w := absCond(last.Cond, path, cls, c)
			if !known {
				return path, false, w
			}
			if v {
				cur = cur.Succs[0]
			} else {
				cur = cur.Succs[1]
			}
		default:
			return path, false, "unexpected block terminator"
		}
	}
	return path, false, "path too long"
}

// PhiAlong resolves the value a phi takes on the given path (the edge coming from the
// block that precedes the phi's block on the path), following phis transitively.
func PhiAlong(v ssa.Value, path []*ssa.BasicBlock) ssa.Value {
	for i := 0; i < 20; i++ {
		phi, ok := v.(*ssa.Phi)
		if !ok {
			return v
		}
		// last occurrence of the phi's block on the path with a predecessor
		idx := -1
		for j := len(path) - 1; j > 0; j-- {
			if path[j] == phi.Block() {
				idx = j
				break
			}
		}
		if idx <= 0 {
			return v
		}
		pred := path[idx-1]
		found := false
		for k, p := range phi.Block().Preds {
			if p == pred {
				v = phi.Edges[k]
				path = path[:idx]
				found = true
				break
			}
		}
		if !found {
			return v
		}
	}
	return v
}

// AbsBool evaluates a boolean value at the end of an abstract path.
func AbsBool(v ssa.Value, path []*ssa.BasicBlock, cls Classifier, c AbsCase) (val bool, known bool, why string) {
	return absCond(v, path, cls, c)
}

func absCond(cond ssa.Value, path []*ssa.BasicBlock, cls Classifier, c AbsCase) (bool, bool, string) {
	switch x := cond.(type) {
	case *ssa.Const:
		if x.Value != nil {
			return x.Value.String() == "true", true, ""
		}
	case *ssa.UnOp:
		if x.Op == token.NOT {
			v, k, w := absCond(x.X, path, cls, c)
			return !v, k, w
		}
	case *ssa.Phi:
		r := PhiAlong(x, path)
		if r != ssa.Value(x) {
			return absCond(r, path, cls, c)
		}
	case *ssa.BinOp:
		switch x.Op {
		case token.EQL, token.NEQ, token.LSS, token.LEQ, token.GTR, token.GEQ:
			a, b := cls(x.X, path), cls(x.Y, path)
			if a == "" || b == "" {
				if n := cls(x, path); n != "" {
					if bv, ok := c.Bool[n]; ok {
						return bv, true, ""
					}
				}
				return false, false, "comparison over unclassified operands: " + Describe(x.X) + " " + x.Op.String() + " " + Describe(x.Y)
			}
			ord, ok := c.Order[[2]string{a, b}]
			if !ok {
				if va, ha := c.Vals[a]; ha {
					if vb, hb := c.Vals[b]; hb {
						switch {
						case va < vb:
							ord = -1
						case va > vb:
							ord = 1
						}
						ok = true
					}
				}
			}
			if !ok {
				if o2, ok2 := c.Order[[2]string{b, a}]; ok2 {
					ord, ok = -o2, true
				}
			}
			if !ok {
				if a == b {
					ord, ok = 0, true
				}
			}
			if !ok {
				return false, false, "no ordering given for (" + a + "," + b + ")"
			}
			switch x.Op {
			case token.EQL:
				return ord == 0, true, ""
			case token.NEQ:
				return ord != 0, true, ""
			case token.LSS:
				return ord < 0, true, ""
			case token.LEQ:
				return ord <= 0, true, ""
			case token.GTR:
				return ord > 0, true, ""
			case token.GEQ:
				return ord >= 0, true, ""
			}
		}
	}
	if n := cls(cond, path); n != "" {
		if bv, ok := c.Bool[n]; ok {
			return bv, true, ""
		}
	}
	// a pure predicate helper of the repository (one bool result, no effects): executed
	// abstractly with its parameters standing for the arguments of this call
	if call, ok := cond.(*ssa.Call); ok {
		if g := call.Call.StaticCallee(); g != nil && InRepo(g) && len(g.Blocks) > 0 && absDepth < 3 && isPurePredicate(g) {
			b := Binding{}
			for i, p := range g.Params {
				if i < len(call.Call.Args) {
					b[p] = PhiAlong(call.Call.Args[i], path)
				}
			}
			undo := Bind(b)
			absDepth++
			gp, okw, why := AbsWalk(g.Blocks[0], nil, nil, cls, c)
			var val, known bool
			if okw && len(gp) > 0 {
				if ret, isRet := gp[len(gp)-1].Instrs[len(gp[len(gp)-1].Instrs)-1].(*ssa.Return); isRet && len(ret.Results) == 1 {
					val, known, why = absCond(ret.Results[0], gp, cls, c)
				} else {
					why = "predicate helper does not end in a return"
				}
			}
			absDepth--
			undo()
			if known {
				return val, true, ""
			}
			return false, false, "inside " + g.Name() + ": " + why
		}
	}
	return false, false, "undecidable condition " + Describe(cond)
}

var absDepth int

// isPurePredicate: g returns one bool and contains no stores, no sends, no go/defer and no
// calls other than to further such functions or built-ins (len, cap).
func isPurePredicate(g *ssa.Function) bool {
	res := g.Signature.Results()
	if res.Len() != 1 || res.At(0).Type().String() != "bool" {
		return false
	}
	pure := true
	Instrs(g, func(in ssa.Instruction) {
		switch x := in.(type) {
		case *ssa.Store, *ssa.Send, *ssa.Go, *ssa.Defer, *ssa.MapUpdate, *ssa.Panic:
			pure = false
		case *ssa.Call:
			if _, isB := x.Call.Value.(*ssa.Builtin); isB {
				return
			}
			if f := x.Call.StaticCallee(); f != nil && InRepo(f) && f != g && len(f.Blocks) > 0 && f.Signature.Results().Len() == 1 && f.Signature.Results().At(0).Type().String() == "bool" {
				return
			}
			pure = false
		}
	})
	return pure
}
