package ir

import (
	"go/types"
	"strings"

	"golang.org/x/tools/go/ssa"
)

// Callee describes a callee by identity, not by text: package (relative to the module,
// or a full path for dependencies / std), receiver type name ("" for functions) and
// name. If the receiver names an interface, both invoke-mode calls through that
// interface (or one embedding it) and static calls of methods of concrete types that
// implement it match.
type Callee struct {
	Pkg  string
	Recv string
	Name string
}

func (c Callee) String() string {
	if c.Recv == "" {
		return c.Pkg + "." + c.Name
	}
	return c.Pkg + "." + c.Recv + "." + c.Name
}

func fullPkg(rel string) string {
	if rel == "" {
		return ""
	}
	first := rel
	if i := strings.Index(rel, "/"); i >= 0 {
		first = rel[:i]
	}
	switch first {
	case "server", "coordinator", "common", "oxia", "proto", "cmd", "tests", "maelstrom", "perf":
		return Module + "/" + rel
	}
	return rel
}

// CallOf returns the CallCommon of an instruction if it is a call/go/defer.
func CallOf(in ssa.Instruction) *ssa.CallCommon {
	if c, ok := in.(ssa.CallInstruction); ok {
		return c.Common()
	}
	return nil
}

func namedOf(t types.Type) *types.Named {
	for {
		switch x := t.(type) {
		case *types.Pointer:
			t = x.Elem()
			continue
		case *types.Named:
			return x
		case *types.Alias:
			t = types.Unalias(x)
			continue
		}
		return nil
	}
}

// TypeIs reports whether t (possibly behind pointers) is the named type pkg.name.
func TypeIs(t types.Type, pkg, name string) bool {
	n := namedOf(t)
	if n == nil || n.Obj() == nil {
		return false
	}
	if n.Obj().Name() != name {
		return false
	}
	if n.Obj().Pkg() == nil {
		return pkg == ""
	}
	return n.Obj().Pkg().Path() == fullPkg(pkg)
}

// LookupType finds a named type by package and name in the loaded program.
func (p *Prog) LookupType(pkg, name string) *types.Named {
	full := fullPkg(pkg)
	var tp *types.Package
	if pk, ok := p.byPath[full]; ok {
		tp = pk.Types
	} else if sp, ok := p.ssaPkg[full]; ok {
		tp = sp.Pkg
	} else {
		// search the imports of the loaded packages
		for _, pk := range p.Pkgs {
			for path, imp := range pk.Imports {
				if path == full && imp.Types != nil {
					tp = imp.Types
				}
			}
			if tp != nil {
				break
			}
		}
	}
	if tp == nil {
		return nil
	}
	obj := tp.Scope().Lookup(name)
	if obj == nil {
		return nil
	}
	tn, ok := obj.(*types.TypeName)
	if !ok {
		return nil
	}
	n, _ := types.Unalias(tn.Type()).(*types.Named)
	return n
}

func origin(fn *ssa.Function) *ssa.Function {
	if o := fn.Origin(); o != nil {
		return o
	}
	return fn
}

// StaticCallee returns the statically resolved callee of a call (nil for dynamic calls).
func StaticCallee(c *ssa.CallCommon) *ssa.Function {
	return c.StaticCallee()
}

// Matches reports whether the call resolves to the callee spec.
func (p *Prog) Matches(c *ssa.CallCommon, spec Callee) bool {
	if c == nil {
		return false
	}
	if c.IsInvoke() {
		if c.Method.Name() != spec.Name || spec.Recv == "" {
			return false
		}
		want := p.LookupType(spec.Pkg, spec.Recv)
		if want == nil {
			return false
		}
		recvT := c.Value.Type()
		if TypeIs(recvT, spec.Pkg, spec.Recv) {
			return true
		}
		// the static interface type of the receiver embeds / is a superset of the wanted
		// interface, or the method object is the very method declared by the wanted interface
		if wi, ok := want.Underlying().(*types.Interface); ok {
			// the very method declared by the wanted interface (not one it merely embeds,
			// such as io.Closer.Close, which unrelated interfaces share)
			for i := 0; i < wi.NumExplicitMethods(); i++ {
				if wi.ExplicitMethod(i) == c.Method {
					return true
				}
			}
			// receiver interface type implements wanted interface and method names match
			if ri, ok := recvT.Underlying().(*types.Interface); ok {
				if types.Implements(ri, wi) {
					return true
				}
			}
			return false
		}
		// spec names a concrete type: an invoke through an interface may dispatch to it
		return false
	}
	fn := c.StaticCallee()
	if fn == nil {
		return false
	}
	return p.FuncMatches(fn, spec)
}

// FuncMatches reports whether fn is the function/method described by spec (a concrete
// method matches an interface spec if its receiver type implements the interface).
func (p *Prog) FuncMatches(fn *ssa.Function, spec Callee) bool {
	fn = origin(fn)
	name := fn.Name()
	if i := strings.Index(name, "["); i >= 0 {
		name = name[:i]
	}
	// bound method closures / thunks: "(*T).m$bound", "(T).m$thunk"
	if strings.HasSuffix(name, "$bound") || strings.HasSuffix(name, "$thunk") {
		name = strings.TrimSuffix(strings.TrimSuffix(name, "$bound"), "$thunk")
	}
	if name != spec.Name {
		return false
	}
	sig := fn.Signature
	if spec.Recv == "" {
		if sig.Recv() != nil {
			return false
		}
		return PkgPathOf(fn) == fullPkg(spec.Pkg)
	}
	var recvT types.Type
	if sig.Recv() != nil {
		recvT = sig.Recv().Type()
	} else if len(fn.FreeVars) == 1 && strings.HasSuffix(fn.Name(), "$bound") {
		recvT = fn.FreeVars[0].Type()
	} else {
		return false
	}
	if TypeIs(recvT, spec.Pkg, spec.Recv) {
		return true
	}
	want := p.LookupType(spec.Pkg, spec.Recv)
	if want == nil {
		return false
	}
	if wi, ok := want.Underlying().(*types.Interface); ok {
		if _, isIface := recvT.Underlying().(*types.Interface); isIface {
			return false
		}
		if types.Implements(recvT, wi) {
			return true
		}
		if _, isPtr := recvT.(*types.Pointer); !isPtr && types.Implements(types.NewPointer(recvT), wi) {
			return true
		}
	}
	return false
}

// MatchesAny reports whether the call matches one of the specs.
func (p *Prog) MatchesAny(c *ssa.CallCommon, specs ...Callee) bool {
	for _, s := range specs {
		if p.Matches(c, s) {
			return true
		}
	}
	return false
}

// CallsIn lists the call instructions (call, go, defer) in fn matching any spec.
func (p *Prog) CallsIn(fn *ssa.Function, specs ...Callee) []ssa.CallInstruction {
	var out []ssa.CallInstruction
	for _, b := range fn.Blocks {
		for _, in := range b.Instrs {
			if ci, ok := in.(ssa.CallInstruction); ok && p.MatchesAny(ci.Common(), specs...) {
				out = append(out, ci)
			}
		}
	}
	return out
}

// CallSite is a call of interest together with its function.
type CallSite struct {
	Fn   *ssa.Function
	Call ssa.CallInstruction
}

// AllCalls lists every call in repository code matching any spec. The filter (may be
// nil) restricts the enclosing functions.
func (p *Prog) AllCalls(filter func(*ssa.Function) bool, specs ...Callee) []CallSite {
	var out []CallSite
	for _, fn := range p.Funcs {
		if filter != nil && !filter(fn) {
			continue
		}
		for _, ci := range p.CallsIn(fn, specs...) {
			out = append(out, CallSite{fn, ci})
		}
	}
	return out
}

// InPkg returns a filter for functions of the given module-relative packages.
func InPkg(rels ...string) func(*ssa.Function) bool {
	return func(fn *ssa.Function) bool {
		pp := RelPkg(PkgPathOf(fn))
		for _, r := range rels {
			if pp == r {
				return true
			}
		}
		return false
	}
}

// Func finds a package-level function or a method (recv may be "" / "T"; pointer
// receivers are found as well).
func (p *Prog) Func(pkg, recv, name string) *ssa.Function {
	sp := p.ssaPkg[fullPkg(pkg)]
	if sp == nil {
		return nil
	}
	if recv == "" {
		return sp.Func(name)
	}
	n := p.LookupType(pkg, recv)
	if n == nil {
		return nil
	}
	for _, t := range []types.Type{n, types.NewPointer(n)} {
		ms := p.SSA.MethodSets.MethodSet(t)
		for i := 0; i < ms.Len(); i++ {
			sel := ms.At(i)
			if sel.Obj().Name() == name && sel.Obj().Pkg() == n.Obj().Pkg() {
				if fn := p.SSA.MethodValue(sel); fn != nil && fn.Blocks != nil && fn.Synthetic == "" {
					return fn
				}
			}
		}
	}
	return nil
}

// Impls lists the repository's concrete named types implementing interface pkg.name.
func (p *Prog) Impls(pkg, name string) []*types.Named {
	want := p.LookupType(pkg, name)
	if want == nil {
		return nil
	}
	wi, ok := want.Underlying().(*types.Interface)
	if !ok {
		return nil
	}
	var out []*types.Named
	for _, pk := range p.Pkgs {
		sc := pk.Types.Scope()
		for _, nm := range sc.Names() {
			tn, ok := sc.Lookup(nm).(*types.TypeName)
			if !ok || tn.IsAlias() {
				continue
			}
			n, ok := tn.Type().(*types.Named)
			if !ok {
				continue
			}
			if _, isI := n.Underlying().(*types.Interface); isI {
				continue
			}
			if n.TypeParams().Len() > 0 {
				continue
			}
			if types.Implements(n, wi) || types.Implements(types.NewPointer(n), wi) {
				out = append(out, n)
			}
		}
	}
	return out
}

// ImplMethods returns, for interface pkg.iface, the concrete repository methods named
// `method` (one per implementing type, excluding mocks in _test files since tests are
// not loaded).
func (p *Prog) ImplMethods(pkg, iface, method string) []*ssa.Function {
	var out []*ssa.Function
	for _, n := range p.Impls(pkg, iface) {
		if fn := p.Func(RelPkg(n.Obj().Pkg().Path()), n.Obj().Name(), method); fn != nil {
			out = append(out, fn)
		}
	}
	return out
}

// WithAnon returns fn and all function literals nested in it (transitively).
func WithAnon(fn *ssa.Function) []*ssa.Function {
	out := []*ssa.Function{fn}
	for _, a := range fn.AnonFuncs {
		out = append(out, WithAnon(a)...)
	}
	return out
}

// Outermost returns the top-level function a closure is nested in.
func Outermost(fn *ssa.Function) *ssa.Function {
	for fn.Parent() != nil {
		fn = fn.Parent()
	}
	return fn
}

// Instrs calls f for each instruction of fn.
func Instrs(fn *ssa.Function, f func(ssa.Instruction)) {
	for _, b := range fn.Blocks {
		for _, in := range b.Instrs {
			f(in)
		}
	}
}
