package ir

import (
	"go/token"
	"go/types"
	"sort"

	"golang.org/x/tools/go/ssa"
)

type fieldKey struct{ pkg, typ, field string }

// FieldWrite is one place that may change the value of a struct field.
type FieldWrite struct {
	Fn    *ssa.Function
	Instr ssa.Instruction
	Kind  string    // "store", "atomic.<Method>", "addr-escape", "literal"
	Val   ssa.Value // stored value when known
}

var atomicMutators = map[string]bool{"Store": true, "Add": true, "Swap": true, "CompareAndSwap": true, "And": true, "Or": true}
var atomicReaders = map[string]bool{"Load": true}

// FieldWrites returns every instruction in repository code that may write field
// pkg.typ.field: direct stores through a field address (composite literals are stores
// on a fresh allocation in SSA and are reported with Kind "literal"), calls of mutating
// sync/atomic methods on the field, and escapes of the field's address to anything
// other than a read.
func (p *Prog) FieldWrites(pkg, typ, field string) []FieldWrite {
	field = ResolveField(pkg, typ, field)
	k := fieldKey{pkg, typ, field}
	if p.writers == nil {
		p.writers = map[fieldKey][]FieldWrite{}
	}
	if w, ok := p.writers[k]; ok {
		return w
	}
	var out []FieldWrite
	for _, fn := range p.Funcs {
		Instrs(fn, func(in ssa.Instruction) {
			fa, ok := in.(*ssa.FieldAddr)
			if !ok {
				return
			}
			ref, ok := FieldAddrOf(fa)
			if !ok || !ref.Is(pkg, typ, field) {
				return
			}
			if fa.Referrers() == nil {
				return
			}
			for _, r := range *fa.Referrers() {
				switch r := r.(type) {
				case *ssa.Store:
					if r.Addr == fa {
						kind := "store"
						if al, ok := fa.X.(*ssa.Alloc); ok && al.Comment == "complit" {
							kind = "literal"
						}
						out = append(out, FieldWrite{fn, r, kind, r.Val})
					} else {
						out = append(out, FieldWrite{fn, r, "addr-escape", nil})
					}
				case *ssa.UnOp:
					// load
				case *ssa.FieldAddr, *ssa.IndexAddr:
					// nested aggregate: a store below it writes part of the field
					if nestedStore(r.(ssa.Value)) {
						out = append(out, FieldWrite{fn, r, "store-nested", nil})
					}
				case ssa.CallInstruction:
					c := r.Common()
					callee := c.StaticCallee()
					if callee != nil && callee.Pkg != nil && (callee.Pkg.Pkg.Path() == "sync/atomic" || callee.Pkg.Pkg.Path() == "sync") && len(c.Args) > 0 && c.Args[0] == fa {
						switch {
						case callee.Pkg.Pkg.Path() == "sync":
							// mutex / once / waitgroup operations: not value writes
						case atomicMutators[callee.Name()]:
							var val ssa.Value
							if len(c.Args) > 1 {
								val = c.Args[len(c.Args)-1]
							}
							out = append(out, FieldWrite{fn, r, "atomic." + callee.Name(), val})
						case atomicReaders[callee.Name()]:
						default:
							out = append(out, FieldWrite{fn, r, "addr-escape", nil})
						}
					} else {
						out = append(out, FieldWrite{fn, r, "addr-escape", nil})
					}
				case *ssa.DebugRef:
				default:
					out = append(out, FieldWrite{fn, r, "addr-escape", nil})
				}
			}
		})
	}
	sort.SliceStable(out, func(i, j int) bool { return out[i].Instr.Pos() < out[j].Instr.Pos() })
	p.writers[k] = out
	return out
}

func nestedStore(v ssa.Value) bool {
	if v.Referrers() == nil {
		return false
	}
	for _, r := range *v.Referrers() {
		switch r := r.(type) {
		case *ssa.Store:
			if r.Addr == v {
				return true
			}
		case *ssa.FieldAddr:
			if nestedStore(r) {
				return true
			}
		case *ssa.IndexAddr:
			if nestedStore(r) {
				return true
			}
		}
	}
	return false
}

// FieldReads lists loads of the field in fn (incl. nested closures if deep).
func (p *Prog) FieldReads(fn *ssa.Function, pkg, typ, field string) []ssa.Instruction {
	var out []ssa.Instruction
	Instrs(fn, func(in ssa.Instruction) {
		u, ok := in.(*ssa.UnOp)
		if !ok || u.Op != token.MUL {
			return
		}
		ref, ok := FieldAddrOf(u.X)
		if ok && ref.Is(pkg, typ, field) {
			out = append(out, in)
		}
	})
	return out
}

// HasField verifies that the anchor field exists (fails closed otherwise).
func (p *Prog) HasField(pkg, typ, field string) bool {
	n := p.LookupType(pkg, typ)
	if n == nil {
		return false
	}
	st, ok := n.Underlying().(*types.Struct)
	if !ok {
		return false
	}
	for i := 0; i < st.NumFields(); i++ {
		if st.Field(i).Name() == ResolveField(pkg, typ, field) {
			return true
		}
	}
	return false
}
