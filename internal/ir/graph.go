package ir

import (
	"sort"

	"golang.org/x/tools/go/callgraph"
	"golang.org/x/tools/go/ssa"
)

// Callees returns the possible callees of a call instruction according to the call
// graph (static callee, CHA/VTA targets for dynamic calls).
func (p *Prog) Callees(site ssa.CallInstruction) []*ssa.Function {
	g := p.CallGraph()
	n := g.Nodes[site.Parent()]
	if n == nil {
		return nil
	}
	var out []*ssa.Function
	seen := map[*ssa.Function]bool{}
	for _, e := range n.Out {
		if e.Site == site && !seen[e.Callee.Func] {
			seen[e.Callee.Func] = true
			out = append(out, e.Callee.Func)
		}
	}
	return out
}

// CallersOf returns the call-graph in-edges of fn.
func (p *Prog) CallersOf(fn *ssa.Function) []*callgraph.Edge {
	g := p.CallGraph()
	n := g.Nodes[fn]
	if n == nil {
		return nil
	}
	return n.In
}

// Successors returns the repository functions directly reachable from fn: call-graph
// callees with bodies in the repository plus function literals created in fn (they may
// be invoked later by a callee that is outside the repository).
func (p *Prog) Successors(fn *ssa.Function) []*ssa.Function {
	g := p.CallGraph()
	seen := map[*ssa.Function]bool{}
	var out []*ssa.Function
	add := func(f *ssa.Function) {
		if f == nil || seen[f] {
			return
		}
		seen[f] = true
		out = append(out, f)
	}
	if n := g.Nodes[fn]; n != nil {
		for _, e := range n.Out {
			add(e.Callee.Func)
		}
	}
	for _, a := range fn.AnonFuncs {
		add(a)
	}
	// functions referenced as values (method values, function arguments)
	Instrs(fn, func(in ssa.Instruction) {
		for _, op := range in.Operands(nil) {
			if f, ok := (*op).(*ssa.Function); ok {
				add(f)
			}
			if mc, ok := (*op).(*ssa.MakeClosure); ok {
				if f, ok := mc.Fn.(*ssa.Function); ok {
					add(f)
				}
			}
		}
	})
	sort.Slice(out, func(i, j int) bool { return out[i].String() < out[j].String() })
	return out
}

// Closure computes the set of functions reachable from roots. descend decides whether
// the traversal continues below a function (false: the function is included but its
// callees are not explored).
func (p *Prog) Closure(roots []*ssa.Function, descend func(*ssa.Function) bool) map[*ssa.Function]*ssa.Function {
	parent := map[*ssa.Function]*ssa.Function{}
	var work []*ssa.Function
	for _, r := range roots {
		if r == nil {
			continue
		}
		if _, ok := parent[r]; !ok {
			parent[r] = nil
			work = append(work, r)
		}
	}
	for len(work) > 0 {
		f := work[0]
		work = work[1:]
		if descend != nil && !descend(f) {
			continue
		}
		for _, s := range p.Successors(f) {
			if _, ok := parent[s]; !ok {
				parent[s] = f
				work = append(work, s)
			}
		}
	}
	return parent
}

// PathTo renders the discovery path root → … → fn from a Closure result.
func PathTo(parent map[*ssa.Function]*ssa.Function, fn *ssa.Function) string {
	var names []string
	for f := fn; f != nil; f = parent[f] {
		names = append([]string{FuncName(f)}, names...)
		if len(names) > 30 {
			break
		}
	}
	s := ""
	for i, n := range names {
		if i > 0 {
			s += " → "
		}
		s += n
	}
	return s
}

// Reaches reports whether a call matching pred is reachable from fn through repository
// code (including fn itself), and the function containing it.
func (p *Prog) Reaches(fn *ssa.Function, pred func(*ssa.CallCommon) bool) (bool, *ssa.Function) {
	cl := p.Closure([]*ssa.Function{fn}, func(f *ssa.Function) bool { return InRepo(f) })
	var fns []*ssa.Function
	for f := range cl {
		fns = append(fns, f)
	}
	sort.Slice(fns, func(i, j int) bool { return fns[i].String() < fns[j].String() })
	for _, f := range fns {
		if f.Blocks == nil {
			continue
		}
		found := false
		Instrs(f, func(in ssa.Instruction) {
			if c := CallOf(in); c != nil && pred(c) {
				found = true
			}
		})
		if found {
			return true, f
		}
	}
	return false, nil
}

// CallReaches reports whether the given call site may (transitively) reach a call
// matching pred: the call itself matches, or one of its callees reaches it.
func (p *Prog) CallReaches(site ssa.CallInstruction, pred func(*ssa.CallCommon) bool) bool {
	if pred(site.Common()) {
		return true
	}
	for _, cal := range p.Callees(site) {
		if !InRepo(cal) {
			continue
		}
		if ok, _ := p.Reaches(cal, pred); ok {
			return true
		}
	}
	return false
}

// MatchPred builds a call predicate from callee specs.
func (p *Prog) MatchPred(specs ...Callee) func(*ssa.CallCommon) bool {
	return func(c *ssa.CallCommon) bool { return p.MatchesAny(c, specs...) }
}

// StaticSuccessors are the callees that are certain: statically resolved calls and
// function literals created in fn (under-approximation used for "must reach" claims).
func StaticSuccessors(fn *ssa.Function) []*ssa.Function {
	seen := map[*ssa.Function]bool{}
	var out []*ssa.Function
	add := func(f *ssa.Function) {
		if f != nil && !seen[f] {
			seen[f] = true
			out = append(out, f)
		}
	}
	Instrs(fn, func(in ssa.Instruction) {
		if c := CallOf(in); c != nil {
			add(c.StaticCallee())
		}
		if mc, ok := in.(*ssa.MakeClosure); ok {
			if f, ok := mc.Fn.(*ssa.Function); ok {
				add(f)
			}
		}
	})
	return out
}

// StaticReaches reports whether a call matching pred is certainly reachable from fn
// through statically resolved repository calls (bounded depth).
func (p *Prog) StaticReaches(fn *ssa.Function, pred func(*ssa.CallCommon) bool) (bool, *ssa.Function) {
	seen := map[*ssa.Function]bool{fn: true}
	work := []*ssa.Function{fn}
	for len(work) > 0 {
		f := work[0]
		work = work[1:]
		if f.Blocks == nil || !InRepo(f) {
			continue
		}
		found := false
		Instrs(f, func(in ssa.Instruction) {
			if c := CallOf(in); c != nil && pred(c) {
				found = true
			}
		})
		if found {
			return true, f
		}
		for _, s := range StaticSuccessors(f) {
			if !seen[s] {
				seen[s] = true
				work = append(work, s)
			}
		}
	}
	return false, nil
}

// CallStaticallyReaches: the call itself matches, or its static callee certainly reaches
// a matching call.
func (p *Prog) CallStaticallyReaches(site ssa.CallInstruction, pred func(*ssa.CallCommon) bool) bool {
	if pred(site.Common()) {
		return true
	}
	if f := site.Common().StaticCallee(); f != nil && InRepo(f) {
		ok, _ := p.StaticReaches(f, pred)
		return ok
	}
	return false
}
