package ir

import (
	"go/token"
	"go/types"
	"sort"

	"golang.org/x/tools/go/callgraph"
	"golang.org/x/tools/go/ssa"
)

// Callees returns the possible callees of a call instruction according to the call
// graph (static callee, CHA/VTA targets for dynamic calls).
func (p *Prog) Callees(site ssa.CallInstruction) []*ssa.Function {
	g := p.CallGraph()
	n := g.Nodes[site.Parent()]
	if n == nil {
		return nil
	}
	var out []*ssa.Function
	seen := map[*ssa.Function]bool{}
	for _, e := range n.Out {
		if e.Site == site && !seen[e.Callee.Func] {
			seen[e.Callee.Func] = true
			out = append(out, e.Callee.Func)
		}
	}
	return out
}

// CallersOf returns the call-graph in-edges of fn.
func (p *Prog) CallersOf(fn *ssa.Function) []*callgraph.Edge {
	g := p.CallGraph()
	n := g.Nodes[fn]
	if n == nil {
		return nil
	}
	return n.In
}

// Successors returns the repository functions directly reachable from fn: call-graph
// callees with bodies in the repository plus function literals created in fn (they may
// be invoked later by a callee that is outside the repository).
func (p *Prog) Successors(fn *ssa.Function) []*ssa.Function {
	g := p.CallGraph()
	seen := map[*ssa.Function]bool{}
	var out []*ssa.Function
	add := func(f *ssa.Function) {
		if f == nil || seen[f] {
			return
		}
		seen[f] = true
		out = append(out, f)
	}
	_ = g
	Instrs(fn, func(in ssa.Instruction) {
		if ci, ok := in.(ssa.CallInstruction); ok {
			for _, t := range p.Targets(ci) {
				add(t)
			}
		}
	})
	for _, a := range fn.AnonFuncs {
		add(a)
	}
	// functions referenced as values (method values, function arguments)
	Instrs(fn, func(in ssa.Instruction) {
		for _, op := range in.Operands(nil) {
			if f, ok := (*op).(*ssa.Function); ok {
				add(f)
			}
			if mc, ok := (*op).(*ssa.MakeClosure); ok {
				if f, ok := mc.Fn.(*ssa.Function); ok {
					add(f)
				}
			}
		}
	})
	sort.Slice(out, func(i, j int) bool { return out[i].String() < out[j].String() })
	return out
}

// Closure computes the set of functions reachable from roots. descend decides whether
// the traversal continues below a function (false: the function is included but its
// callees are not explored).
func (p *Prog) Closure(roots []*ssa.Function, descend func(*ssa.Function) bool) map[*ssa.Function]*ssa.Function {
	parent := map[*ssa.Function]*ssa.Function{}
	var work []*ssa.Function
	for _, r := range roots {
		if r == nil {
			continue
		}
		if _, ok := parent[r]; !ok {
			parent[r] = nil
			work = append(work, r)
		}
	}
	for len(work) > 0 {
		f := work[0]
		work = work[1:]
		if descend != nil && !descend(f) {
			continue
		}
		for _, s := range p.Successors(f) {
			if _, ok := parent[s]; !ok {
				parent[s] = f
				work = append(work, s)
			}
		}
	}
	return parent
}

// PathTo renders the discovery path root → … → fn from a Closure result.
func PathTo(parent map[*ssa.Function]*ssa.Function, fn *ssa.Function) string {
	var names []string
	for f := fn; f != nil; f = parent[f] {
		names = append([]string{FuncName(f)}, names...)
		if len(names) > 30 {
			break
		}
	}
	s := ""
	for i, n := range names {
		if i > 0 {
			s += " → "
		}
		s += n
	}
	return s
}

// Reaches reports whether a call matching pred is reachable from fn through repository
// code (including fn itself), and the function containing it.
func (p *Prog) Reaches(fn *ssa.Function, pred func(*ssa.CallCommon) bool) (bool, *ssa.Function) {
	cl := p.Closure([]*ssa.Function{fn}, func(f *ssa.Function) bool { return InRepo(f) })
	var fns []*ssa.Function
	for f := range cl {
		fns = append(fns, f)
	}
	sort.Slice(fns, func(i, j int) bool { return fns[i].String() < fns[j].String() })
	for _, f := range fns {
		if f.Blocks == nil {
			continue
		}
		found := false
		Instrs(f, func(in ssa.Instruction) {
			if c := CallOf(in); c != nil && pred(c) {
				found = true
			}
		})
		if found {
			return true, f
		}
	}
	return false, nil
}

// CallReaches reports whether the given call site may (transitively) reach a call
// matching pred: the call itself matches, or one of its callees reaches it.
func (p *Prog) CallReaches(site ssa.CallInstruction, pred func(*ssa.CallCommon) bool) bool {
	if pred(site.Common()) {
		return true
	}
	for _, cal := range p.Callees(site) {
		if !InRepo(cal) {
			continue
		}
		if ok, _ := p.Reaches(cal, pred); ok {
			return true
		}
	}
	return false
}

// MatchPred builds a call predicate from callee specs.
func (p *Prog) MatchPred(specs ...Callee) func(*ssa.CallCommon) bool {
	return func(c *ssa.CallCommon) bool { return p.MatchesAny(c, specs...) }
}

// StaticSuccessors are the callees that are certain: statically resolved calls and
// function literals created in fn (under-approximation used for "must reach" claims).
func StaticSuccessors(fn *ssa.Function) []*ssa.Function {
	seen := map[*ssa.Function]bool{}
	var out []*ssa.Function
	add := func(f *ssa.Function) {
		if f != nil && !seen[f] {
			seen[f] = true
			out = append(out, f)
		}
	}
	Instrs(fn, func(in ssa.Instruction) {
		if c := CallOf(in); c != nil {
			add(c.StaticCallee())
		}
		if mc, ok := in.(*ssa.MakeClosure); ok {
			if f, ok := mc.Fn.(*ssa.Function); ok {
				add(f)
			}
		}
	})
	return out
}

// StaticReaches reports whether a call matching pred is certainly reachable from fn
// through statically resolved repository calls (bounded depth).
func (p *Prog) StaticReaches(fn *ssa.Function, pred func(*ssa.CallCommon) bool) (bool, *ssa.Function) {
	seen := map[*ssa.Function]bool{fn: true}
	work := []*ssa.Function{fn}
	for len(work) > 0 {
		f := work[0]
		work = work[1:]
		if f.Blocks == nil || !InRepo(f) {
			continue
		}
		found := false
		Instrs(f, func(in ssa.Instruction) {
			if c := CallOf(in); c != nil && pred(c) {
				found = true
			}
		})
		if found {
			return true, f
		}
		for _, s := range StaticSuccessors(f) {
			if !seen[s] {
				seen[s] = true
				work = append(work, s)
			}
		}
	}
	return false, nil
}

// CallStaticallyReaches: the call itself matches, or its static callee certainly reaches
// a matching call.
func (p *Prog) CallStaticallyReaches(site ssa.CallInstruction, pred func(*ssa.CallCommon) bool) bool {
	if pred(site.Common()) {
		return true
	}
	if f := site.Common().StaticCallee(); f != nil && InRepo(f) {
		ok, _ := p.StaticReaches(f, pred)
		return ok
	}
	return false
}

// ---------------------------------------------------------------------------------
// precise resolution of calls through function values

type fkey struct {
	st    *types.Named
	field string
}

func (p *Prog) funcStores() (map[fkey][]ssa.Value, map[*ssa.Global][]ssa.Value) {
	if p.fstores != nil {
		return p.fstores, p.gstores
	}
	p.fstores = map[fkey][]ssa.Value{}
	p.gstores = map[*ssa.Global][]ssa.Value{}
	for _, fn := range p.Funcs {
		Instrs(fn, func(in ssa.Instruction) {
			st, ok := in.(*ssa.Store)
			if !ok {
				return
			}
			if _, isSig := st.Val.Type().Underlying().(*types.Signature); !isSig {
				return
			}
			if ref, ok := FieldAddrOf(st.Addr); ok && ref.Struct != nil {
				k := fkey{ref.Struct.Origin(), ref.Field}
				p.fstores[k] = append(p.fstores[k], st.Val)
			}
			if g, ok := st.Addr.(*ssa.Global); ok {
				p.gstores[g] = append(p.gstores[g], st.Val)
			}
		})
	}
	return p.fstores, p.gstores
}

// Targets resolves the possible callees of a call site: the static callee; CHA/VTA
// targets for interface method calls; for calls through function values, the function
// literals / functions that can flow to the value (through parameters, struct fields,
// globals, phis and results), falling back to the call graph when the flow cannot be
// followed.
func (p *Prog) Targets(site ssa.CallInstruction) []*ssa.Function {
	c := site.Common()
	if f := c.StaticCallee(); f != nil {
		return []*ssa.Function{f}
	}
	if c.IsInvoke() {
		return p.Callees(site)
	}
	seen := map[ssa.Value]bool{}
	out := map[*ssa.Function]bool{}
	if !p.flowFuncs(c.Value, 0, seen, out) {
		return p.Callees(site)
	}
	var res []*ssa.Function
	for f := range out {
		res = append(res, f)
	}
	sort.Slice(res, func(i, j int) bool { return res[i].String() < res[j].String() })
	return res
}

func (p *Prog) flowFuncs(v ssa.Value, depth int, seen map[ssa.Value]bool, out map[*ssa.Function]bool) bool {
	if depth > 8 {
		return false
	}
	v = Canon(v)
	if seen[v] {
		return true
	}
	seen[v] = true
	switch x := v.(type) {
	case *ssa.Function:
		out[x] = true
		return true
	case *ssa.MakeClosure:
		if f, ok := x.Fn.(*ssa.Function); ok {
			out[f] = true
			return true
		}
		return false
	case *ssa.Const:
		return true // nil func
	case *ssa.Phi:
		for _, e := range x.Edges {
			if !p.flowFuncs(e, depth+1, seen, out) {
				return false
			}
		}
		return true
	case *ssa.Parameter:
		// The function value is supplied by the caller. Callers are accounted for where
		// the value is created: a function that references a function literal / function
		// value has it as a successor (see Successors), so resolving the parameter here
		// again (context-insensitively, over all callers) would only add noise.
		return true
	case *ssa.UnOp:
		if x.Op != token.MUL {
			return false
		}
		fs, gs := p.funcStores()
		if ref, ok := FieldAddrOf(x.X); ok && ref.Struct != nil {
			vals := fs[fkey{ref.Struct.Origin(), ref.Field}]
			for _, sv := range vals {
				if !p.flowFuncs(sv, depth+1, seen, out) {
					return false
				}
			}
			return true
		}
		if g, ok := x.X.(*ssa.Global); ok {
			for _, sv := range gs[g] {
				if !p.flowFuncs(sv, depth+1, seen, out) {
					return false
				}
			}
			return true
		}
		if al, ok := cellOf(x.X).(*ssa.Alloc); ok {
			for _, st := range AllStores(al) {
				if !p.flowFuncs(st.Val, depth+1, seen, out) {
					return false
				}
			}
			return true
		}
		return false
	case *ssa.Extract:
		if call, ok := x.Tuple.(*ssa.Call); ok {
			if callee := call.Call.StaticCallee(); callee != nil && callee.Blocks == nil {
				return true // produced by an opaque library function (see *ssa.Call below)
			}
		}
		return false
	case *ssa.Call:
		callee := x.Call.StaticCallee()
		if callee != nil && callee.Blocks == nil {
			// a function value produced by an opaque library function: any repository
			// function it may end up calling was passed in by (and is a successor of) the
			// function that references it
			return true
		}
		if callee == nil {
			return false
		}
		ok := true
		Instrs(callee, func(in ssa.Instruction) {
			if r, isRet := in.(*ssa.Return); isRet && ok {
				for _, rv := range r.Results {
					if _, isSig := rv.Type().Underlying().(*types.Signature); isSig {
						if !p.flowFuncs(rv, depth+1, seen, out) {
							ok = false
						}
					}
				}
			}
		})
		return ok
	}
	return false
}
