package ir

import (
	"fmt"
	"go/constant"
	"go/token"
	"go/types"
	"strings"

	"golang.org/x/tools/go/ssa"
)

// ClosureSites returns the MakeClosure instructions that create anon in its parent.
func ClosureSites(anon *ssa.Function) []*ssa.MakeClosure {
	par := anon.Parent()
	if par == nil {
		return nil
	}
	var out []*ssa.MakeClosure
	Instrs(par, func(in ssa.Instruction) {
		if mc, ok := in.(*ssa.MakeClosure); ok && mc.Fn == anon {
			out = append(out, mc)
		}
	})
	return out
}

// cellOf resolves an address value to the underlying local cell: an Alloc in this
// function, or — for a free variable of a closure — the value bound by the (unique)
// MakeClosure in the parent, recursively.
func cellOf(addr ssa.Value) ssa.Value {
	for i := 0; i < 10; i++ {
		switch a := addr.(type) {
		case *ssa.Alloc:
			return a
		case *ssa.FreeVar:
			fn := a.Parent()
			sites := ClosureSites(fn)
			if len(sites) != 1 {
				return a
			}
			idx := -1
			for i, fv := range fn.FreeVars {
				if fv == a {
					idx = i
				}
			}
			if idx < 0 {
				return a
			}
			addr = sites[0].Bindings[idx]
		default:
			return addr
		}
	}
	return addr
}

// AllStores lists every store to a local cell, including stores made by closures that
// capture it.
func AllStores(cell *ssa.Alloc) []*ssa.Store {
	var out []*ssa.Store
	var visit func(v ssa.Value)
	visit = func(v ssa.Value) {
		rs := v.Referrers()
		if rs == nil {
			return
		}
		for _, r := range *rs {
			switch r := r.(type) {
			case *ssa.Store:
				if r.Addr == v {
					out = append(out, r)
				}
			case *ssa.MakeClosure:
				fn, ok := r.Fn.(*ssa.Function)
				if !ok {
					continue
				}
				for i, b := range r.Bindings {
					if b == v {
						visit(fn.FreeVars[i])
					}
				}
			}
		}
	}
	visit(cell)
	return out
}

// Canon follows a value back through loads of single-store local cells (including
// variables captured by closures), type changes and trivial phis to the value that
// defines it. Two SSA values with the same Canon are the same run-time value.
func Canon(v ssa.Value) ssa.Value {
	return canon(v, map[ssa.Value]bool{}, false)
}

// CanonX is Canon that also resolves a parameter of an unexported function with a single
// static call site (an extracted helper) to the argument passed at that site, so that
// value identities survive "extract method" refactorings. Only for rules that relate
// values across a call chain; rules about a function's own parameters use Canon.
func CanonX(v ssa.Value) ssa.Value {
	return canon(v, map[ssa.Value]bool{}, true)
}

func canon(v ssa.Value, onPhi map[ssa.Value]bool, cross bool) ssa.Value {
	for i := 0; i < 30; i++ {
		switch x := v.(type) {
		case *ssa.ChangeType:
			v = x.X
		case *ssa.UnOp:
			if x.Op != token.MUL {
				return v
			}
			if fa, isFA := x.X.(*ssa.FieldAddr); isFA {
				// a field of a local struct variable whose address never leaves the
				// function (and its closures) and that is stored exactly once
				if fv := localStructFieldValue(fa); fv != nil {
					v = fv
					continue
				}
			}
			if fa, isFA := x.X.(*ssa.FieldAddr); isFA && cross {
				// a field of a small state struct built once (composite literal) and never
				// written again: the value it was built with
				if fv := constructedFieldValue(fa, onPhi); fv != nil {
					v = fv
					continue
				}
				return v
			}
			c := cellOf(x.X)
			al, ok := c.(*ssa.Alloc)
			if !ok {
				return v
			}
			st := AllStores(al)
			if len(st) != 1 {
				return v
			}
			v = st[0].Val
		case *ssa.Parameter:
			if b, ok := activeBinding[x]; ok && b != nil {
				v = b
				continue
			}
			if !cross {
				return v
			}
			a := ParamArg(x)
			if a == nil {
				return v
			}
			v = a
		case *ssa.Phi:
			if onPhi[x] {
				return v
			}
			onPhi[x] = true
			var one ssa.Value
			same := true
			for _, e := range x.Edges {
				if e == ssa.Value(x) {
					continue
				}
				ce := canon(e, onPhi, cross)
				if ce == ssa.Value(x) {
					continue
				}
				if one == nil {
					one = ce
				} else if ce != one {
					same = false
				}
			}
			delete(onPhi, x)
			if same && one != nil {
				return one
			}
			return v
		default:
			return v
		}
	}
	return v
}

// SameValue reports whether a and b denote the same run-time value.
func SameValue(a, b ssa.Value) bool {
	ca, cb := Canon(a), Canon(b)
	if ca == cb {
		return true
	}
	// two loads of the same field of the same object, with no store in between, are
	// not proven equal here; callers needing that use FieldLoadOf.
	return false
}

// FieldRef describes `base.f` read or address: returns the struct type name, the field
// name and the base pointer value.
type FieldRef struct {
	Struct *types.Named
	Field  string
	Base   ssa.Value
}

// FieldAddrOf decodes a FieldAddr (pointer to struct field).
func FieldAddrOf(v ssa.Value) (FieldRef, bool) {
	fa, ok := v.(*ssa.FieldAddr)
	if !ok {
		return FieldRef{}, false
	}
	pt, ok := fa.X.Type().Underlying().(*types.Pointer)
	if !ok {
		return FieldRef{}, false
	}
	st, ok := pt.Elem().Underlying().(*types.Struct)
	if !ok {
		return FieldRef{}, false
	}
	n, _ := types.Unalias(pt.Elem()).(*types.Named)
	return FieldRef{Struct: n, Field: st.Field(fa.Field).Name(), Base: fa.X}, true
}

// FieldLoadOf decodes a load `*(&base.f)` or a Field extraction of a struct value.
func FieldLoadOf(v ssa.Value) (FieldRef, bool) {
	switch x := v.(type) {
	case *ssa.UnOp:
		if x.Op == token.MUL {
			return FieldAddrOf(x.X)
		}
	case *ssa.Field:
		st, ok := x.X.Type().Underlying().(*types.Struct)
		if !ok {
			return FieldRef{}, false
		}
		n, _ := types.Unalias(x.X.Type()).(*types.Named)
		return FieldRef{Struct: n, Field: st.Field(x.Field).Name(), Base: x.X}, true
	}
	return FieldRef{}, false
}

// IsFieldOf reports whether the reference is field `field` of struct type pkg.typ.
func (r FieldRef) Is(pkg, typ, field string) bool {
	if r.Struct == nil || r.Struct.Obj() == nil || r.Struct.Obj().Pkg() == nil {
		return false
	}
	if r.Struct.Obj().Pkg().Path() != fullPkg(pkg) {
		return false
	}
	if na, ok := nestedAlias[fieldKey{pkg, typ, field}]; ok {
		// the role moved into a private struct that is a by-value field of typ
		return r.Struct.Obj().Name() == na.typ && r.Field == na.field
	}
	return r.Field == ResolveField(pkg, typ, field) && r.Struct.Obj().Name() == typ
}

type nestedField struct{ typ, field string }

var nestedAlias = map[fieldKey]nestedField{}

// SetNestedFieldAlias registers that role `role` of struct pkg.typ is played by field
// `field` of the private struct pkg.inner, which typ holds by value (fields grouped into a
// nested struct).
func SetNestedFieldAlias(pkg, typ, role, inner, field string) {
	nestedAlias[fieldKey{pkg, typ, role}] = nestedField{inner, field}
}

// Field roles: the checks name some unexported fields by the name they have in the tree
// the rules were written against. When such a field has been renamed, the role is
// re-discovered structurally (internal/props/roles.go) and registered here, so that a
// rename alone never changes a verdict.
var fieldAlias = map[fieldKey]string{}

// SetFieldAlias registers that role `role` of struct pkg.typ is played by field `actual`.
func SetFieldAlias(pkg, typ, role, actual string) { fieldAlias[fieldKey{pkg, typ, role}] = actual }

// ResolveField maps a role name to the field that plays it (identity when not aliased).
func ResolveField(pkg, typ, field string) string {
	if a, ok := fieldAlias[fieldKey{pkg, typ, field}]; ok {
		return a
	}
	return field
}

// LoadsField reports whether v (after Canon) is a load of pkg.typ.field (through a
// getter-free direct access).
func LoadsField(v ssa.Value, pkg, typ, field string) bool {
	r, ok := FieldLoadOf(Canon(v))
	return ok && r.Is(pkg, typ, field)
}

// Describe renders a value for reports.
func Describe(v ssa.Value) string {
	if v == nil {
		return "<nil>"
	}
	c := Canon(v)
	switch x := c.(type) {
	case *ssa.Parameter:
		return "param " + x.Name()
	case *ssa.Const:
		return "const " + x.String()
	case *ssa.Call:
		if f := x.Call.StaticCallee(); f != nil {
			return "result of " + FuncName(f)
		}
		if x.Call.IsInvoke() {
			return "result of " + x.Call.Method.FullName()
		}
		return "result of dynamic call"
	case *ssa.Extract:
		return fmt.Sprintf("result #%d of %s", x.Index, strings.TrimPrefix(Describe(x.Tuple), "result of "))
	case *ssa.BinOp:
		return "(" + Describe(x.X) + " " + x.Op.String() + " " + Describe(x.Y) + ")"
	}
	if r, ok := FieldLoadOf(c); ok && r.Struct != nil {
		return "field " + r.Struct.Obj().Name() + "." + r.Field
	}
	return c.Name() + ":" + strings.TrimPrefix(fmt.Sprintf("%T", c), "*ssa.")
}

// DependsOn reports whether v is computed from an instruction satisfying pred (backward
// slice through operands, phis, loads of single-store cells; bounded).
func DependsOn(v ssa.Value, pred func(ssa.Value) bool) bool {
	seen := map[ssa.Value]bool{}
	var walk func(v ssa.Value, depth int) bool
	walk = func(v ssa.Value, depth int) bool {
		if v == nil || seen[v] || depth > 40 {
			return false
		}
		seen[v] = true
		if pred(v) {
			return true
		}
		c := Canon(v)
		if c != v {
			if walk(c, depth+1) {
				return true
			}
		}
		if pr, ok := v.(*ssa.Parameter); ok {
			// a helper that is only called statically: what any of its callers passes
			fn := pr.Parent()
			for i, fp := range fn.Params {
				if fp != pr {
					continue
				}
				for _, cs := range StaticCallSites(fn) {
					if i < len(cs.Common().Args) && walk(cs.Common().Args[i], depth+1) {
						return true
					}
				}
			}
		}
		if u, ok := v.(*ssa.UnOp); ok && u.Op == token.MUL {
			// multi-store cell: any stored value
			if al, ok := cellOf(u.X).(*ssa.Alloc); ok {
				for _, s := range AllStores(al) {
					if walk(s.Val, depth+1) {
						return true
					}
				}
			}
		}
		// a field read from a local struct variable: what was stored into that field, or
		// into the variable as a whole
		if u, ok := v.(*ssa.UnOp); ok && u.Op == token.MUL {
			if fa, isFA := u.X.(*ssa.FieldAddr); isFA {
				if al, isAl := cellOf(fa.X).(*ssa.Alloc); isAl && al.Referrers() != nil {
					for _, s := range AllStores(al) {
						if walk(s.Val, depth+1) {
							return true
						}
					}
					for _, r := range *al.Referrers() {
						if f2, ok := r.(*ssa.FieldAddr); ok && f2.Field == fa.Field && f2.Referrers() != nil {
							for _, rr := range *f2.Referrers() {
								if st, ok := rr.(*ssa.Store); ok && st.Addr == ssa.Value(f2) && walk(st.Val, depth+1) {
									return true
								}
							}
						}
					}
				}
			}
		}
		// variadic / literal slices: the elements stored into the backing array
		if sl, ok := v.(*ssa.Slice); ok {
			if al, ok := sl.X.(*ssa.Alloc); ok && al.Referrers() != nil {
				for _, r := range *al.Referrers() {
					if ia, ok := r.(*ssa.IndexAddr); ok && ia.Referrers() != nil {
						for _, rr := range *ia.Referrers() {
							if st, ok := rr.(*ssa.Store); ok && walk(st.Val, depth+1) {
								return true
							}
						}
					}
				}
			}
		}
		in, ok := v.(ssa.Instruction)
		if !ok {
			return false
		}
		for _, op := range in.Operands(nil) {
			if *op != nil && walk(*op, depth+1) {
				return true
			}
		}
		return false
	}
	return walk(v, 0)
}

// SameExpr reports whether a and b denote the same value structurally: identical after
// Canon, or loads of the same field path from the same root (the objects compared are
// request messages and controller fields that are not reassigned between the two
// reads; callers use it for guard matching, where a missed match fails closed).
func SameExpr(a, b ssa.Value) bool {
	return sameExpr(a, b, 0)
}

func sameExpr(a, b ssa.Value, d int) bool {
	if d > 8 {
		return false
	}
	ca, cb := Canon(a), Canon(b)
	if ca == cb {
		return true
	}
	if x, ok := ca.(*ssa.Convert); ok {
		if y, ok := cb.(*ssa.Convert); ok && types.Identical(x.Type(), y.Type()) {
			return sameExpr(x.X, y.X, d+1)
		}
	}
	// dereference of equal pointers
	if ua, ok := ca.(*ssa.UnOp); ok && ua.Op == token.MUL {
		if ub, ok := cb.(*ssa.UnOp); ok && ub.Op == token.MUL {
			if _, isFA := ua.X.(*ssa.FieldAddr); !isFA {
				if _, isFB := ub.X.(*ssa.FieldAddr); !isFB {
					if _, isAl := ua.X.(*ssa.Alloc); !isAl {
						return sameExpr(ua.X, ub.X, d+1)
					}
				}
			}
		}
	}
	// the same element of the same slice / array
	if ia, ok := ca.(*ssa.IndexAddr); ok {
		if ib, ok := cb.(*ssa.IndexAddr); ok {
			return sameExpr(ia.X, ib.X, d+1) && sameExpr(ia.Index, ib.Index, d+1)
		}
	}
	ra, oka := FieldLoadOf(ca)
	rb, okb := FieldLoadOf(cb)
	if oka && okb && ra.Struct == rb.Struct && ra.Field == rb.Field {
		return sameExpr(ra.Base, rb.Base, d+1)
	}
	// getter calls on the same receiver: x.GetEntry() vs x.Entry
	if ga, ok := getterOf(ca); ok {
		if gb, ok := getterOf(cb); ok && ga.name == gb.name {
			return sameExpr(ga.recv, gb.recv, d+1)
		}
		if okb && "Get"+rb.Field == ga.name {
			return sameExpr(ga.recv, rb.Base, d+1)
		}
	}
	if gb, ok := getterOf(cb); ok && oka && "Get"+ra.Field == gb.name {
		return sameExpr(ra.Base, gb.recv, d+1)
	}
	// the same argument-less accessor on the same receiver (x.LastOffset() twice in a row)
	if xa, ok := ca.(*ssa.Call); ok {
		if xb, ok := cb.(*ssa.Call); ok && xa.Call.IsInvoke() && xb.Call.IsInvoke() && xa.Call.Method == xb.Call.Method && len(xa.Call.Args) == 0 && len(xb.Call.Args) == 0 {
			return sameExpr(xa.Call.Value, xb.Call.Value, d+1)
		}
	}
	if ca2, ok := ca.(*ssa.Const); ok {
		if cb2, ok := cb.(*ssa.Const); ok && ca2.Value != nil && cb2.Value != nil {
			return ca2.Value.ExactString() == cb2.Value.ExactString() && types.Identical(ca2.Type(), cb2.Type())
		}
	}
	return false
}

type getter struct {
	recv ssa.Value
	name string
}

// getterOf recognises generated protobuf getters x.GetFoo().
func getterOf(v ssa.Value) (getter, bool) {
	c, ok := v.(*ssa.Call)
	if !ok {
		return getter{}, false
	}
	f := c.Call.StaticCallee()
	if f == nil || f.Signature.Recv() == nil || len(c.Call.Args) != 1 || !strings.HasPrefix(f.Name(), "Get") {
		return getter{}, false
	}
	if PkgPathOf(f) != Module+"/proto" {
		return getter{}, false
	}
	return getter{c.Call.Args[0], f.Name()}, true
}

// ReturnValues resolves the operands of a return instruction. In functions with
// deferred calls go/ssa spills the results into cells (`*r0 = v; rundefers; return *r0`);
// the value stored last into the cell in the returning block is reported instead of
// the load.
func ReturnValues(ret *ssa.Return) []ssa.Value {
	out := make([]ssa.Value, len(ret.Results))
	for i, r := range ret.Results {
		out[i] = r
		u, ok := r.(*ssa.UnOp)
		if !ok || u.Op != token.MUL {
			continue
		}
		cell, ok := u.X.(*ssa.Alloc)
		if !ok {
			continue
		}
		// last store to the cell in this block before the load
		b := ret.Block()
		var last ssa.Value
		for _, in := range b.Instrs {
			if in == ssa.Instruction(u) {
				break
			}
			if st, ok := in.(*ssa.Store); ok && st.Addr == ssa.Value(cell) {
				last = st.Val
			}
		}
		if last != nil {
			out[i] = last
			continue
		}
		// single predecessor chain
		for p := b; len(p.Preds) == 1 && last == nil; {
			p = p.Preds[0]
			for _, in := range p.Instrs {
				if st, ok := in.(*ssa.Store); ok && st.Addr == ssa.Value(cell) {
					last = st.Val
				}
			}
		}
		if last != nil {
			out[i] = last
		}
	}
	return out
}

// Instrs0 returns the instruction that loads the element addressed by an IndexAddr
// (the per-iteration element of a range loop), or nil.
func Instrs0(ia *ssa.IndexAddr) ssa.Instruction {
	if ia.Referrers() == nil {
		return nil
	}
	for _, r := range *ia.Referrers() {
		if u, ok := r.(*ssa.UnOp); ok && u.Op == token.MUL {
			return u
		}
	}
	return nil
}

// ---------------------------------------------------------------------------------
// symbolic strings

// SymPart is a piece of a string value: a literal or an opaque value.
type SymPart struct {
	Lit string
	Val ssa.Value // nil for literals
}

// VariadicElems returns the values stored into the backing array of a variadic /
// literal slice argument, by index (nil when the shape is not recognised).
func VariadicElems(v ssa.Value) []ssa.Value {
	if c, ok := v.(*ssa.Const); ok && c.Value == nil {
		return []ssa.Value{}
	}
	sl, ok := v.(*ssa.Slice)
	if !ok {
		return nil
	}
	al, ok := sl.X.(*ssa.Alloc)
	if !ok || al.Referrers() == nil {
		return nil
	}
	m := map[int64]ssa.Value{}
	max := int64(-1)
	for _, r := range *al.Referrers() {
		ia, ok := r.(*ssa.IndexAddr)
		if !ok || ia.Referrers() == nil {
			continue
		}
		k, ok := ia.Index.(*ssa.Const)
		if !ok || k.Value == nil {
			return nil
		}
		for _, rr := range *ia.Referrers() {
			if st, ok := rr.(*ssa.Store); ok && st.Addr == ia {
				m[k.Int64()] = st.Val
				if k.Int64() > max {
					max = k.Int64()
				}
			}
		}
	}
	out := make([]ssa.Value, max+1)
	for i := range out {
		out[i] = m[int64(i)]
		if out[i] == nil {
			return nil
		}
	}
	return out
}

// SymString evaluates a string-valued expression into literal and opaque parts:
// constants, concatenation and fmt.Sprintf with a constant format are followed.
// Adjacent literals are merged. ok=false when a Sprintf cannot be decoded.
func SymString(v ssa.Value) (parts []SymPart, ok bool) {
	ok = true
	var walk func(v ssa.Value, depth int)
	add := func(p SymPart) {
		if p.Val == nil && len(parts) > 0 && parts[len(parts)-1].Val == nil {
			parts[len(parts)-1].Lit += p.Lit
			return
		}
		parts = append(parts, p)
	}
	walk = func(v ssa.Value, depth int) {
		if depth > 8 {
			add(SymPart{Val: v})
			return
		}
		for {
			switch x := v.(type) {
			case *ssa.MakeInterface:
				v = x.X
				continue
			case *ssa.ChangeType:
				v = x.X
				continue
			}
			break
		}
		c := Canon(v)
		switch x := c.(type) {
		case *ssa.Const:
			if x.Value != nil && x.Value.Kind() == constant.String {
				add(SymPart{Lit: constant.StringVal(x.Value)})
				return
			}
		case *ssa.BinOp:
			if x.Op == token.ADD {
				if b, isB := x.Type().Underlying().(*types.Basic); isB && b.Info()&types.IsString != 0 {
					walk(x.X, depth+1)
					walk(x.Y, depth+1)
					return
				}
			}
		case *ssa.Call:
			f := x.Call.StaticCallee()
			if f != nil && f.Pkg != nil && f.Pkg.Pkg.Path() == "fmt" && f.Name() == "Sprintf" && len(x.Call.Args) == 2 {
				k, isK := x.Call.Args[0].(*ssa.Const)
				elems := VariadicElems(x.Call.Args[1])
				if !isK || k.Value == nil || elems == nil {
					ok = false
					add(SymPart{Val: c})
					return
				}
				format := constant.StringVal(k.Value)
				ai := 0
				for i := 0; i < len(format); i++ {
					if format[i] != '%' {
						add(SymPart{Lit: string(format[i])})
						continue
					}
					if i+1 < len(format) && format[i+1] == '%' {
						add(SymPart{Lit: "%"})
						i++
						continue
					}
					j := i + 1
					for j < len(format) && strings.ContainsRune("+-# 0123456789.", rune(format[j])) {
						j++
					}
					if j >= len(format) || ai >= len(elems) {
						ok = false
						return
					}
					if format[j] == 's' || format[j] == 'v' {
						if j == i+1 {
							walk(elems[ai], depth+1)
						} else {
							add(SymPart{Val: elems[ai]})
						}
					} else {
						add(SymPart{Val: elems[ai]})
					}
					ai++
					i = j
				}
				return
			}
		}
		// a string-building helper of the repository with one return statement: its
		// result, with the parameters standing for the arguments of this call
		if call, isCall := c.(*ssa.Call); isCall && depth < 6 {
			if g := call.Call.StaticCallee(); g != nil && InRepo(g) && len(g.Blocks) > 0 && g.Signature.Results().Len() == 1 {
				if b, isB := g.Signature.Results().At(0).Type().Underlying().(*types.Basic); isB && b.Info()&types.IsString != 0 {
					var rets []*ssa.Return
					Instrs(g, func(in ssa.Instruction) {
						if r, isRet := in.(*ssa.Return); isRet {
							rets = append(rets, r)
						}
					})
					if len(rets) == 1 {
						bind := Binding{}
						for i, p := range g.Params {
							if i < len(call.Call.Args) {
								bind[p] = call.Call.Args[i]
							}
						}
						undo := Bind(bind)
						walk(ReturnValues(rets[0])[0], depth+1)
						undo()
						return
					}
				}
			}
		}
		add(SymPart{Val: c})
	}
	walk(v, 0)
	return parts, ok
}

// SymFormat renders the symbolic value of a string expression as a format string: the
// literal parts with "%s" for every opaque part (a literal '%' is doubled).
func SymFormat(v ssa.Value) (string, bool) {
	parts, ok := SymString(v)
	if !ok {
		return "", false
	}
	out := ""
	for _, p := range parts {
		if p.Val != nil {
			out += "%s"
		} else {
			out += strings.ReplaceAll(p.Lit, "%", "%%")
		}
	}
	return out, true
}

// ---------------------------------------------------------------------------------
// parameter bindings (predicate helpers)

// Binding maps parameters of an extracted predicate helper to the arguments of the call
// at hand. While a binding is active (Bind), Canon resolves those parameters to the
// arguments, so that rule matchers written over the caller's values also match the
// comparisons made inside the helper.
type Binding map[*ssa.Parameter]ssa.Value

var activeBinding Binding

// Bind activates b in addition to the active binding and returns the function that
// restores the previous state. Conflicting entries (one parameter, two arguments) are
// dropped from the result: the helper's comparisons then simply do not match.
func Bind(b Binding) func() {
	prev := activeBinding
	if len(b) == 0 {
		return func() {}
	}
	n := Binding{}
	for k, v := range prev {
		n[k] = v
	}
	for k, v := range b {
		if old, ok := n[k]; ok && old != v {
			n[k] = nil
			continue
		}
		n[k] = v
	}
	activeBinding = n
	return func() { activeBinding = prev }
}

// BoundMethod returns the method behind a method value (`x.m` used as a func value, which
// go/ssa represents as a closure over a synthetic "bound method wrapper"); nil otherwise.
func BoundMethod(v ssa.Value) *ssa.Function {
	mc, ok := v.(*ssa.MakeClosure)
	if !ok {
		return nil
	}
	w, ok := mc.Fn.(*ssa.Function)
	if !ok || !strings.HasPrefix(w.Synthetic, "bound method wrapper") {
		return nil
	}
	var out *ssa.Function
	Instrs(w, func(in ssa.Instruction) {
		if c, ok := in.(ssa.CallInstruction); ok {
			if f := c.Common().StaticCallee(); f != nil {
				out = f
			}
		}
	})
	if out != nil || len(w.FreeVars) != 1 || w.Prog == nil {
		return out
	}
	// the wrapper's body is not materialised: look the method up on the receiver type
	recv := w.FreeVars[0].Type()
	name := strings.TrimSuffix(w.Name(), "$bound")
	var pkg *types.Package
	t := recv
	if p, ok := t.(*types.Pointer); ok {
		t = p.Elem()
	}
	if n, ok := types.Unalias(t).(*types.Named); ok {
		pkg = n.Obj().Pkg()
	}
	if sel := w.Prog.MethodSets.MethodSet(recv).Lookup(pkg, name); sel != nil {
		return w.Prog.MethodValue(sel)
	}
	return nil
}

// constructedFieldValue: fa addresses field F of an object that (after cross-function
// resolution) is a composite literal allocation; when that allocation is the only place
// where F is ever stored for this object, the stored value is returned.
func constructedFieldValue(fa *ssa.FieldAddr, onPhi map[ssa.Value]bool) ssa.Value {
	base := canon(fa.X, onPhi, true)
	al, ok := base.(*ssa.Alloc)
	if !ok || al.Referrers() == nil {
		return nil
	}
	var val ssa.Value
	n := 0
	for _, r := range *al.Referrers() {
		f2, ok := r.(*ssa.FieldAddr)
		if !ok || f2.Field != fa.Field || f2.Referrers() == nil {
			continue
		}
		for _, rr := range *f2.Referrers() {
			if st, ok := rr.(*ssa.Store); ok && st.Addr == f2 {
				n++
				val = st.Val
			}
		}
	}
	if n != 1 {
		return nil
	}
	// no other writer of this field anywhere (through another pointer to the object)
	pt, ok := fa.X.Type().Underlying().(*types.Pointer)
	if !ok {
		return nil
	}
	named, _ := types.Unalias(pt.Elem()).(*types.Named)
	if named == nil || named.Obj().Exported() || fieldWritersOutsideLiterals == nil {
		return nil
	}
	st, ok := named.Underlying().(*types.Struct)
	if !ok || fieldWritersOutsideLiterals(named, st.Field(fa.Field).Name()) {
		return nil
	}
	return val
}

// localStructFieldValue: fa addresses a field of a struct that lives in a local variable
// of the function (by value, or allocated there and reached through a local pointer
// variable, possibly captured by the function's closures) and that is only ever accessed
// field by field; when that field has exactly one store, its value.
func localStructFieldValue(fa *ssa.FieldAddr) ssa.Value {
	var al *ssa.Alloc
	if a, ok := cellOf(fa.X).(*ssa.Alloc); ok {
		al = a
	} else if a, ok := canon(fa.X, map[ssa.Value]bool{}, false).(*ssa.Alloc); ok {
		al = a
	}
	if al == nil {
		return nil
	}
	pt, ok := al.Type().Underlying().(*types.Pointer)
	if !ok {
		return nil
	}
	if _, isStruct := pt.Elem().Underlying().(*types.Struct); !isStruct {
		return nil
	}
	var val ssa.Value
	n := 0
	okAll := true
	seen := map[ssa.Value]bool{}
	var visitPtr func(p ssa.Value)  // p: a value that points to the struct
	var visitCell func(c ssa.Value) // c: a local variable (cell) that holds such a pointer
	visitCell = func(c ssa.Value) {
		if seen[c] || c.Referrers() == nil {
			return
		}
		seen[c] = true
		for _, r := range *c.Referrers() {
			switch r := r.(type) {
			case *ssa.UnOp:
				if r.Op == token.MUL && r.X == c {
					visitPtr(r)
				}
			case *ssa.Store:
				if r.Addr != c {
					okAll = false
				}
			case *ssa.MakeClosure:
				fn, isFn := r.Fn.(*ssa.Function)
				if !isFn {
					okAll = false
					continue
				}
				for i, b := range r.Bindings {
					if b == c {
						visitCell(fn.FreeVars[i])
					}
				}
			case *ssa.DebugRef:
			default:
				okAll = false
			}
		}
	}
	visitPtr = func(p ssa.Value) {
		if seen[p] || p.Referrers() == nil {
			return
		}
		seen[p] = true
		for _, r := range *p.Referrers() {
			switch r := r.(type) {
			case *ssa.FieldAddr:
				if r.X != p {
					okAll = false
					continue
				}
				if r.Referrers() == nil {
					continue
				}
				for _, rr := range *r.Referrers() {
					switch u := rr.(type) {
					case *ssa.Store:
						if u.Addr != ssa.Value(r) {
							okAll = false // the field's address is stored somewhere
						} else if r.Field == fa.Field {
							n++
							val = u.Val
						}
					case *ssa.UnOp, *ssa.DebugRef:
					default:
						// nested aggregate, method called on the field's address, ...: only
						// this rule's own field matters
						if r.Field == fa.Field {
							okAll = false
						}
					}
				}
			case *ssa.MakeClosure:
				// the struct variable itself captured by a closure
				fn, isFn := r.Fn.(*ssa.Function)
				if !isFn {
					okAll = false
					continue
				}
				for i, b := range r.Bindings {
					if b == p {
						visitPtr(fn.FreeVars[i])
					}
				}
			case *ssa.DebugRef:
			case *ssa.UnOp:
				// a copy of the whole struct is a read
			case *ssa.Store:
				if r.Addr == p {
					okAll = false // whole-struct assignment
					continue
				}
				// the pointer is kept in a local pointer variable with this single store
				cell, isLocal := r.Addr.(*ssa.Alloc)
				if !isLocal || len(AllStores(cell)) != 1 {
					okAll = false
					continue
				}
				visitCell(cell)
			default:
				okAll = false
			}
		}
	}
	visitPtr(al)
	if !okAll || n != 1 {
		return nil
	}
	return val
}

// fieldWritersOutsideLiterals (installed by Load) reports whether a field of a struct
// type is stored anywhere except in composite literals.
var fieldWritersOutsideLiterals func(t *types.Named, field string) bool

// SameNamed reports whether two (possibly pointer) types name the same defined type.
func SameNamed(a, b types.Type) bool {
	strip := func(t types.Type) *types.Named {
		if p, ok := t.Underlying().(*types.Pointer); ok {
			t = p.Elem()
		} else if p, ok := t.(*types.Pointer); ok {
			t = p.Elem()
		}
		n, _ := types.Unalias(t).(*types.Named)
		return n
	}
	na, nb := strip(a), strip(b)
	return na != nil && nb != nil && na.Obj() == nb.Obj()
}
