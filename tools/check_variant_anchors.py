#!/usr/bin/env python3
"""Checks that every self-test variant (mutants/CNN/*.json) still applies to /repo's current
tree: each edit's anchor must occur exactly once (edits of one variant are applied in order).
Run after a `fix:` commit and `python3 mutants/gen.py`; a variant that no longer applies would
be reported as 'skipped' by the self-test."""
import glob, json, os, sys
bad = 0
for f in sorted(glob.glob(os.path.join(os.path.dirname(__file__), '..', 'mutants', 'C*', '*.json'))):
    m = json.load(open(f))
    files = {}
    for e in m['edits']:
        p = '/repo/' + e['file']
        if p not in files:
            files[p] = open(p).read()
        n = files[p].count(e['old'])
        if n == 0 or (n != 1 and not e.get('all')):
            print('ANCHOR', os.path.basename(os.path.dirname(f)), m['name'], e['file'], 'count', n)
            bad += 1
            break
        files[p] = files[p].replace(e['old'], e['new']) if e.get('all') else files[p].replace(e['old'], e['new'], 1)
print('variants whose edits no longer apply:', bad)
sys.exit(1 if bad else 0)
