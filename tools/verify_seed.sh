#!/bin/bash
# usage: tools/verify_seed.sh <seed-dir> <demo-file> <dest-dir-in-repo> <go-test-run-regex> <pkg>
# Confirms a seeded change in a scratch worktree (outside /repo and /verif):
#   demo passes without the patch, fails with it; the tree builds and the whole
#   existing suite still passes with the patch. Prints a JSON summary line.
set -u
export GOFLAGS=-mod=mod GOPROXY=off
SEED="$1"; DEMO="$2"; DEST="$3"; RUN="$4"; PKG="$5"
WT=$(mktemp -d /var/tmp/seedverify.XXXXXX)
git -C /repo worktree add -q --detach "$WT" HEAD || exit 2
cleanup() { git -C /repo worktree remove --force "$WT" >/dev/null 2>&1; rm -rf "$WT"; }
trap cleanup EXIT
cd "$WT"
cp "$SEED/$DEMO" "$DEST/"
go test -count=1 -run "$RUN" "$PKG" >/tmp/vs.$$.a 2>&1; A=$?
git apply "$SEED/patch.diff" || { echo '{"error":"patch does not apply"}'; exit 2; }
go build ./... >/tmp/vs.$$.b 2>&1; B=$?
go test -count=1 -run "$RUN" "$PKG" >/tmp/vs.$$.c 2>&1; C=$?
rm "$DEST/$DEMO"
go test -vet=off -count=1 -timeout 25m ./... >/tmp/vs.$$.d 2>&1; D=$?
FAILS=$(grep -c '^--- FAIL\|^FAIL' /tmp/vs.$$.d)
echo "{\"demo_without_patch_exit\":$A,\"build_with_patch_exit\":$B,\"demo_with_patch_exit\":$C,\"suite_with_patch_exit\":$D,\"suite_fail_lines\":$FAILS}"
[ $D -ne 0 ] && grep '^--- FAIL\|^FAIL' /tmp/vs.$$.d | head
rm -f /tmp/vs.$$.*
