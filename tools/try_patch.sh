#!/bin/bash
# usage: tools/try_patch.sh <patch.diff> [property ...]   — applies the patch to /repo, runs the quick checks, reverts.
P="$1"; shift
PROPS="${@:-C01 C02 C03 C04 C05 C06 C07 C08 C09 C10 C11 C12 C13 C14 C15 C16 C17 C18 C19 C20}"
git -C /repo apply "$P" || { echo "patch does not apply"; exit 2; }
for p in $PROPS; do
  out=$(cd /verif && ./check $p quick 2>&1)
  echo "$out" | grep -q "^VIOLATION" && { echo "== $p ALARM"; echo "$out" | grep "VIOLATED\|UNDECIDED" | cut -c1-260; }
done
git -C /repo checkout -- .
echo "-- done $(basename $(dirname $(dirname $P)))"
