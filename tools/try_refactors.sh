#!/bin/bash
# usage: tools/try_refactors.sh [CNN ...]      (default: every directory under /verif/refactors)
# /verif/refactors/CNN/refactor-N.diff are behaviour-preserving refactorings of /repo written
# by independent sub-agents (each built and passed the package tests). Each one is applied
# in a scratch worktree of /repo (never in /repo itself), the quick checks of ALL properties
# are run against that worktree in parallel, and every alarm is printed: on a correct
# refactoring an alarm is a false alarm of the checker and has to be fixed in the checker.
export GOFLAGS=-mod=mod GOPROXY=off
W=$(mktemp -d /var/tmp/refaccheck.XXXXXX)
git -C /repo worktree add -q --detach "$W" HEAD || exit 2
trap 'git -C /repo worktree remove --force "$W" >/dev/null 2>&1; rm -rf "$W"' EXIT
S=/var/tmp/vscratch; mkdir -p $S/evidence; cp /verif/known_findings.jsonl $S/
R=${REFDIR:-/verif/refactors}
SETS="$@"; [ -z "$SETS" ] && SETS=$(ls $R)
rc=0
for set in $SETS; do
  for d in $R/$set/refactor-*.diff; do
    n=$(basename "$d" .diff)
    git -C "$W" reset -q --hard HEAD; git -C "$W" clean -qfd
    if ! git -C "$W" apply "$d" 2>/dev/null && ! git -C "$W" apply --3way "$d" >/dev/null 2>&1; then echo "== $set $n: patch does not apply (tree moved on)"; continue; fi
    out=$(echo ${PROPS:-$(seq -f "C%02g" 1 20)} | tr " " "\n" | xargs -P 10 -I{} sh -c "/verif/bin/oxiacheck -property {} -tier quick -repo $W -verif $S 2>&1 | grep 'VIOLATED\|UNDECIDED\|^ERROR\|cannot load' | sed 's/^/{}: /'" | cut -c1-330)
    if [ -n "$out" ]; then echo "== $set $n ALARMS"; echo "$out"; rc=1; else echo "== $set $n quiet"; fi
  done
done
exit $rc
