#!/bin/bash
# usage: tools/try_refactors.sh <worktree-with-_out/refactor-N.diff> [props...]
# Applies each behaviour-preserving refactoring in the given scratch worktree (never in
# /repo), runs the quick checks of all (or the given) properties against that worktree
# in parallel and prints every alarm: each one is a false alarm to be triaged.
export GOFLAGS=-mod=mod GOPROXY=off
W="$1"; shift
PROPS="$@"; [ -z "$PROPS" ] && PROPS=$(seq -f 'C%02g' 1 20)
S=/var/tmp/vscratch; mkdir -p $S/evidence; cp /verif/known_findings.jsonl $S/
for d in "$W"/_out/refactor-*.diff; do
  n=$(basename "$d" .diff)
  git -C "$W" checkout -q -- . ; git -C "$W" clean -qfd -e _out
  if ! git -C "$W" apply "$d" 2>/dev/null; then echo "== $(basename $W) $n: patch does not apply"; continue; fi
  out=$(for p in $PROPS; do echo $p; done | xargs -P 10 -I{} sh -c "/verif/bin/oxiacheck -property {} -tier quick -repo $W -verif $S 2>&1 | grep 'VIOLATED\|UNDECIDED\|^ERROR\|cannot load' | sed 's/^/{}: /'" | cut -c1-330)
  if [ -n "$out" ]; then echo "== $(basename $W) $n ALARMS"; echo "$out"; else echo "== $(basename $W) $n quiet"; fi
done
git -C "$W" checkout -q -- . ; git -C "$W" clean -qfd -e _out
