#!/usr/bin/env python3
"""Regenerates MANIFEST.json from tools/claims.json (claimed properties) and
properties.jsonl (everything not claimed is listed under not_applicable with the
reason given in tools/claims.json["not_applicable"])."""
import json, os
HERE = os.path.dirname(os.path.abspath(__file__)); ROOT = os.path.dirname(HERE)
ids = [json.loads(l)["id"] for l in open(os.path.join(ROOT, "properties.jsonl"))]
claims = json.load(open(os.path.join(HERE, "claims.json")))
checks = []
for pid in ids:
    c = claims["claimed"].get(pid)
    if not c: continue
    checks.append({
        "property_id": pid,
        "quick_cmd": f"./check {pid} quick",
        "thorough_cmd": f"./check {pid} thorough",
        "evidence_file": f"/verif/evidence/{pid}.json",
        "replay_cmd_template": f"./check {pid} quick   # re-evaluates the obligations listed in {{path}} on /repo's current tree",
        "engine": "oxiacheck",
        "level_claimed": {"category": "other", "text": c["text"], "design_ref": c.get("design_ref", "DESIGN.md section 3, " + pid)},
        "level_note": c.get("note", claims["default_note"]),
        "technique": c["technique"],
    })
na = [{"property_id": p, "reason": claims["not_applicable"].get(p, "check not built yet (see DESIGN.md section 3 for the planned rules)")} for p in ids if p not in claims["claimed"]]
m = {
    "version": 1,
    "setup_cmd": "cd /verif && GOFLAGS=-mod=mod GOPROXY=off go build -o bin/oxiacheck ./cmd/oxiacheck",
    "hooks": {"guard": "verif", "enable": "none needed: the static checks read /repo's source exactly as the default build sees it (no build-tagged files exist); no hook commits were made",
              "baseline_off_cmd": "cd /repo && GOFLAGS=-mod=mod GOPROXY=off go test -vet=off -count=1 -timeout 25m ./...", "source_commits": [], "add_only": True},
    "engines": [{"name": "oxiacheck", "path": "/verif/cmd/oxiacheck", "serves_properties": [c["property_id"] for c in checks],
                 "kind_free_text": "repository-specific static analyser over go/packages + go/ssa (x/tools v0.29.0): dominance / must-pass-through, lockset, who-may-write, value identity, guard dependence, call-graph reachability, finite decision tables"}],
    "checks": checks,
    "notes": claims["notes"],
    "not_applicable": na,
}
json.dump(m, open(os.path.join(ROOT, "MANIFEST.json"), "w"), indent=1)
print("claimed", len(checks), "not_applicable", len(na))
