#!/bin/bash
# usage: tools/keep_seed.sh <id> <seed-out-dir> <verify-json> <caught-by>
# Stores a confirmed seeded change under /verif/seeded/<id>/ (patch, demo, meta).
set -eu
ID="$1"; SRC="$2"; VER="$3"; CAUGHT="$4"
D=/verif/seeded/$ID
mkdir -p "$D"
cp "$SRC"/patch.diff "$D"/
for f in "$SRC"/*_test.go "$SRC"/demo.md; do [ -f "$f" ] && cp "$f" "$D"/; done
# demo test files are stored with a .txt suffix so that they are not part of the checker's module
for f in "$D"/*_test.go; do [ -f "$f" ] && mv "$f" "$f.txt"; done
python3 - "$SRC/meta.json" "$D/meta.json" "$VER" "$CAUGHT" <<'PY'
import json,sys
m=json.load(open(sys.argv[1]))
m["confirmed_by_me"]=json.loads(sys.argv[3])
m["what_i_ran"]="tools/verify_seed.sh in a scratch worktree under /var/tmp: demo without the patch (must pass), go build with the patch, demo with the patch (must fail), whole suite `go test ./...` with the patch (must pass)"
m["caught_by"]=sys.argv[4]
m["demo_note"]="the demonstration test is stored as <name>_test.go.txt; copy it to the location given in demo.md without the .txt suffix"
json.dump(m,open(sys.argv[2],"w"),indent=1)
PY
echo kept $D
