#!/bin/bash
# usage: tools/check_seeded.sh [seed-dir-name...]
# Applies every kept seeded change (seeded/<id>/patch.diff) in a scratch worktree of /repo
# (never in /repo itself), runs the quick checks of all properties against it and prints
# the rules that fire. A seeded change with no firing rule is reported as MISSED.
export GOFLAGS=-mod=mod GOPROXY=off
W=$(mktemp -d /var/tmp/seedcheck.XXXXXX)
git -C /repo worktree add -q --detach "$W" HEAD || exit 2
trap 'git -C /repo worktree remove --force "$W" >/dev/null 2>&1; rm -rf "$W"' EXIT
S=/var/tmp/vscratch; mkdir -p $S/evidence; cp /verif/known_findings.jsonl $S/
SEEDS="$@"; [ -z "$SEEDS" ] && SEEDS=$(ls /verif/seeded)
for sd in $SEEDS; do
  git -C "$W" reset -q --hard HEAD; git -C "$W" clean -qfd
  if ! git -C "$W" apply "/verif/seeded/$sd/patch.diff" 2>/dev/null && ! git -C "$W" apply --3way "/verif/seeded/$sd/patch.diff" >/dev/null 2>&1; then
    echo "$sd: PATCH-DOES-NOT-APPLY"; continue
  fi
  fired=$(seq -f 'C%02g' 1 20 | xargs -P 10 -I{} sh -c "/verif/bin/oxiacheck -property {} -tier quick -repo $W -verif $S 2>&1 | grep 'VIOLATED\|UNDECIDED\|^ERROR' | awk '{print \"{}:\" \$2}'" | sort -u | tr '\n' ' ')
  if [ -n "$fired" ]; then echo "$sd: caught by $fired"; else echo "$sd: MISSED"; fi
done
