#!/bin/bash
# usage: tools/run_seed_demos.sh [seed-dir-name...]
# Regression use of the kept seeded changes: every demonstration test is run WITHOUT its patch
# in a scratch worktree of /repo's HEAD and has to pass. (A repair of /repo that breaks one of
# them broke behaviour that a property depends on — that is how finding F36 was noticed.)
export GOFLAGS=-mod=mod GOPROXY=off
W=$(mktemp -d /var/tmp/seeddemo.XXXXXX)
git -C /repo worktree add -q --detach "$W" HEAD || exit 2
trap 'git -C /repo worktree remove --force "$W" >/dev/null 2>&1; rm -rf "$W"' EXIT
SEEDS="$@"; [ -z "$SEEDS" ] && SEEDS=$(ls /verif/seeded)
pkgdir() { # package clause -> directory
  case "$1" in
    server) echo server;; kv) echo server/kv;; wal) echo server/wal;; codec) echo server/wal/codec;;
    oxia) echo oxia;; internal) echo oxia/internal;; batch) echo oxia/internal/batch;;
    controllers) echo coordinator/controllers;; coordinator) echo coordinator;; balancer) echo coordinator/balancer;;
    single) echo coordinator/selectors/single;; ensemble) echo coordinator/selectors/ensemble;;
    utils) echo coordinator/utils;; resources) echo coordinator/resources;; metadata) echo coordinator/metadata;;
    model) echo coordinator/model;; compare) echo common/compare;; sharding) echo common/sharding;;
    *) echo "";;
  esac
}
fail=0
for sd in $SEEDS; do
  D=/verif/seeded/$sd
  git -C "$W" reset -q --hard HEAD; git -C "$W" clean -qfd
  tests=""; pkgs=""
  for f in $D/*_test.go.txt; do
    [ -f "$f" ] || continue
    dest=$(jq -r '.demo_dest_dir // empty' $D/meta.json)
    if [ -z "$dest" ] || [ $(ls $D/*_test.go.txt | wc -l) -gt 1 ]; then
      p=$(grep -m1 '^package ' "$f" | awk '{print $2}'); p=${p%_test}
      dest=$(pkgdir "$p")
    fi
    [ -z "$dest" ] && { echo "$sd: cannot place $(basename $f)"; continue; }
    dest=${dest%/}
    cp "$f" "$W/$dest/$(basename ${f%.txt})"
    t=$(grep -o '^func Test[A-Za-z0-9_]*' "$f" | sed 's/^func //' | tr '\n' '|'); tests="$tests$t"
    pkgs="$pkgs ./$dest/"
  done
  [ -z "$pkgs" ] && { echo "$sd: NO-DEMO"; continue; }
  pkgs=$(echo $pkgs | tr ' ' '\n' | sort -u | tr '\n' ' ')
  out=$(cd "$W" && go test -count=1 -timeout 600s -run "^(${tests%|})\$" $pkgs 2>&1 | grep -v '^\[\|INF\|WRN\|DBG' | tail -3 | tr '\n' ' ')
  if echo "$out" | grep -q "FAIL\|panic\|cannot\|no test files"; then echo "$sd: FAILS-WITHOUT-PATCH $out" | cut -c1-300; fail=1; else echo "$sd: passes"; fi
done
exit $fail
