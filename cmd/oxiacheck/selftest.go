package main

import (
	"encoding/json"
	"fmt"
	"os"
	"os/exec"
	"path/filepath"
	"regexp"
	"sort"
	"strings"
	"sync"
)

// Mutant is a seeded fault of the checker's both-ways self-test: source edits that still
// type-check, and the rule(s) expected to report them. Kind "repair"/"refactor" mutants
// must leave the property's verdict clean.
type Mutant struct {
	Name     string   `json:"name"`
	Property string   `json:"property"`
	Kind     string   `json:"kind"` // "fault" (default), "silent" (behaviour-preserving: must stay quiet)
	Expect   []string `json:"expect"`
	Why      string   `json:"why"`
	Edits    []Edit   `json:"edits"`
	file     string
}

type MutantResult struct {
	Name    string   `json:"name"`
	Kind    string   `json:"kind"`
	Expect  []string `json:"expect,omitempty"`
	Status  string   `json:"status"` // caught | missed | skipped | quiet | noisy | error
	Fired   []string `json:"fired,omitempty"`
	Message string   `json:"message,omitempty"`
}

var firedRe = regexp.MustCompile(`^\s+(VIOLATED|UNDECIDED) (\S+) `)

func runSelfTest(self, repo, verif, prop string, par int) []MutantResult {
	dir := filepath.Join(verif, "mutants", prop)
	files, _ := filepath.Glob(filepath.Join(dir, "*.json"))
	sort.Strings(files)
	var ms []Mutant
	for _, f := range files {
		b, err := os.ReadFile(f)
		if err != nil {
			continue
		}
		var m Mutant
		if err := json.Unmarshal(b, &m); err != nil {
			fmt.Printf("SELFTEST: cannot parse %s: %v\n", f, err)
			continue
		}
		m.file = f
		if m.Name == "" {
			m.Name = strings.TrimSuffix(filepath.Base(f), ".json")
		}
		if m.Kind == "" {
			m.Kind = "fault"
		}
		ms = append(ms, m)
	}
	res := make([]MutantResult, len(ms))
	sem := make(chan struct{}, par)
	var wg sync.WaitGroup
	for i := range ms {
		wg.Add(1)
		go func(i int) {
			defer wg.Done()
			sem <- struct{}{}
			defer func() { <-sem }()
			res[i] = runMutant(self, repo, verif, ms[i])
		}(i)
	}
	wg.Wait()
	return res
}

func runMutant(self, repo, verif string, m Mutant) MutantResult {
	r := MutantResult{Name: m.Name, Kind: m.Kind, Expect: m.Expect}
	tmp, err := os.MkdirTemp("/var/tmp", "oxiaverif-selftest-")
	if err != nil {
		r.Status, r.Message = "error", err.Error()
		return r
	}
	defer os.RemoveAll(tmp)
	// the child reads the committed known findings but writes evidence elsewhere
	if b, err := os.ReadFile(filepath.Join(verif, "known_findings.jsonl")); err == nil {
		_ = os.WriteFile(filepath.Join(tmp, "known_findings.jsonl"), b, 0o644)
	}
	cmd := exec.Command(self, "-property", m.Property, "-tier", "quick", "-repo", repo, "-verif", tmp, "-overlay", m.file)
	out, _ := cmd.CombinedOutput()
	text := string(out)
	if strings.Contains(text, "NOT-APPLICABLE") {
		r.Status, r.Message = "skipped", "edit no longer applies to the current tree"
		return r
	}
	if strings.Contains(text, "ERROR:") {
		r.Status = "error"
		for _, l := range strings.Split(text, "\n") {
			if strings.Contains(l, "ERROR:") {
				r.Message = l
				break
			}
		}
		if len(text) > 0 && r.Message == "" {
			r.Message = text[:min(len(text), 300)]
		}
		return r
	}
	fired := map[string]bool{}
	for _, l := range strings.Split(text, "\n") {
		if mm := firedRe.FindStringSubmatch(l); mm != nil {
			fired[mm[2]] = true
		}
	}
	for k := range fired {
		r.Fired = append(r.Fired, k)
	}
	sort.Strings(r.Fired)
	if m.Kind == "limitation" {
		// a behaviour-preserving refactoring that the rules are known not to see through
		// (listed with the reason in mutants/gen.py and DESIGN.md 7.6): recorded, not hidden
		r.Status = "limitation"
		if len(fired) == 0 {
			r.Status = "quiet"
		}
		return r
	}
	if m.Kind == "silent" {
		if len(fired) == 0 {
			r.Status = "quiet"
		} else {
			r.Status = "noisy"
		}
		return r
	}
	ok := len(m.Expect) > 0
	for _, e := range m.Expect {
		if !fired[e] {
			ok = false
		}
	}
	if ok {
		r.Status = "caught"
	} else {
		r.Status = "missed"
	}
	return r
}
