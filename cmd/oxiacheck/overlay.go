package main

import (
	"encoding/json"
	"fmt"
	"os"
	"path/filepath"
	"strings"
)

// Edit is one in-memory source edit of the self-test: replace the unique occurrence of
// Old in File (relative to the repository root) by New.
type Edit struct {
	File string `json:"file"`
	Old  string `json:"old"`
	New  string `json:"new"`
	// All replaces every occurrence (used for behaviour-preserving renames).
	All bool `json:"all,omitempty"`
}

func loadOverlay(path, repo string) (map[string][]byte, error) {
	b, err := os.ReadFile(path)
	if err != nil {
		return nil, err
	}
	var spec struct {
		Edits []Edit `json:"edits"`
	}
	if err := json.Unmarshal(b, &spec); err != nil {
		return nil, err
	}
	out := map[string][]byte{}
	for _, e := range spec.Edits {
		abs := filepath.Join(repo, e.File)
		src, ok := out[abs]
		if !ok {
			src, err = os.ReadFile(abs)
			if err != nil {
				return nil, err
			}
		}
		s := string(src)
		n := strings.Count(s, e.Old)
		if e.All {
			if n == 0 {
				return nil, fmt.Errorf("NOT-APPLICABLE: edit of %s matches %d times", e.File, n)
			}
			out[abs] = []byte(strings.ReplaceAll(s, e.Old, e.New))
			continue
		}
		if n != 1 {
			return nil, fmt.Errorf("NOT-APPLICABLE: edit of %s matches %d times", e.File, n)
		}
		out[abs] = []byte(strings.Replace(s, e.Old, e.New, 1))
	}
	return out, nil
}
