// oxiacheck decides the structural obligations of one property from /repo's source.
package main

import (
	"flag"
	"fmt"
	"os"
	"runtime/debug"
	"strings"
	"time"

	"golang.org/x/tools/go/ssa"

	"oxiaverif/internal/chk"
	"oxiaverif/internal/ir"
	"oxiaverif/internal/props"
)

func main() {
	prop := flag.String("property", "", "property id (C01…C20) or 'all'")
	tier := flag.String("tier", "quick", "quick|thorough")
	repo := flag.String("repo", "/repo", "repository root")
	verif := flag.String("verif", "/verif", "verification root (known findings, evidence)")
	dump := flag.String("dump", "", "debug: dump SSA of functions whose name contains this string")
	whole := flag.Bool("whole", false, "load dependencies from source and refine the call graph with VTA")
	overlay := flag.String("overlay", "", "self-test: JSON file with in-memory source edits")
	selftest := flag.Bool("selftest", false, "also run the seeded-fault self-test of the property (thorough tier)")
	par := flag.Int("par", 8, "parallel self-test processes")
	flag.Parse()

	start := time.Now()
	code := 2
	defer func() {
		if r := recover(); r != nil {
			fmt.Printf("ERROR: analyser panic: %v\n%s\n", r, debug.Stack())
			os.Exit(2)
		}
		os.Exit(code)
	}()

	var ov map[string][]byte
	if *overlay != "" {
		var err error
		ov, err = loadOverlay(*overlay, *repo)
		if err != nil {
			fmt.Println("ERROR: overlay:", err)
			return
		}
	}
	p, err := ir.Load(ir.Options{Dir: *repo, Whole: *whole, Overlay: ov})
	if err != nil {
		fmt.Println("ERROR: cannot load", *repo, ":", err)
		return
	}
	loadS := time.Since(start).Seconds()
	if *dump != "" {
		for _, fn := range p.Funcs {
			if strings.Contains(ir.FuncName(fn), *dump) {
				fn.WriteTo(os.Stdout)
			}
		}
		code = 0
		return
	}
	ids := []string{*prop}
	if *prop == "all" {
		ids = props.IDs()
	}
	worst := 0
	for _, id := range ids {
		f := props.Get(id)
		if f == nil {
			fmt.Println("ERROR: unknown property", id)
			return
		}
		t0 := time.Now()
		c := chk.New(p, id, *tier)
		f(c)
		info := map[string]any{
			"packages":       len(p.Pkgs),
			"repo_functions": len(p.Funcs),
			"callgraph":      callgraphKind(p, *whole),
			"load_s":         loadS,
			"whole_program":  *whole,
		}
		if *selftest {
			self, _ := os.Executable()
			mr := runSelfTest(self, *repo, *verif, id, *par)
			counts := map[string]int{}
			for _, r := range mr {
				counts[r.Status]++
				if r.Status == "missed" || r.Status == "noisy" || r.Status == "error" || r.Status == "skipped" || r.Status == "limitation" {
					fmt.Printf("SELFTEST-%s: %s expect=%v fired=%v %s\n", strings.ToUpper(r.Status), r.Name, r.Expect, r.Fired, r.Message)
				}
			}
			fmt.Printf("selftest %s: %d seeded variants: %v\n", id, len(mr), counts)
			info["selftest"] = map[string]any{"variants": len(mr), "counts": counts, "results": mr,
				"note": "each variant is an in-memory overlay of /repo's current source analysed in a child process; 'caught' = the expected rule reported it, 'quiet' = behaviour-preserving refactor left the check silent, 'skipped' = the edit no longer applies, 'limitation' = a behaviour-preserving refactoring the rules are known not to see through (false alarm, documented in DESIGN.md 7.6)"}
		}
		res := c.Finish(*verif, t0.Add(-time.Duration(loadS*float64(time.Second))), info)
		if res.Exit > worst {
			worst = res.Exit
		}
	}
	code = worst
}

func callgraphKind(p *ir.Prog, whole bool) string {
	if whole {
		return "whole-program SSA, call graph CHA refined by VTA"
	}
	return "per-package SSA of the repository's packages, call graph CHA"
}

var _ = ssa.InstantiateGenerics
