package server

// Demonstration for finding F6 (property C15): copy into /repo/server and run
//   go test ./server -run TestF6Probe
// Fails before the "fix: secondary-index get ..." commit, passes after it.

import (
	"context"
	"testing"

	"github.com/stretchr/testify/assert"
	pb "google.golang.org/protobuf/proto"

	"github.com/oxia-db/oxia/common/constant"
	"github.com/oxia-db/oxia/proto"
	"github.com/oxia-db/oxia/server/kv"
)

func TestF6Probe(t *testing.T) {
	var shard int64 = 1
	kvFactory, _ := kv.NewPebbleKVFactory(testKVOptions)
	walFactory := newTestWalFactory(t)
	lc, _ := NewLeaderController(Config{}, constant.DefaultNamespace, shard, newMockRpcClient(), walFactory, kvFactory)
	_, _ = lc.NewTerm(&proto.NewTermRequest{Shard: shard, Term: 1})
	_, _ = lc.BecomeLeader(context.Background(), &proto.BecomeLeaderRequest{Shard: shard, Term: 1, ReplicationFactor: 1})
	_, err := lc.WriteBlock(context.Background(), &proto.WriteRequest{
		Shard: &shard,
		Puts: []*proto.PutRequest{
			{Key: "/a", Value: []byte("0"), SecondaryIndexes: []*proto.SecondaryIndex{{IndexName: "idx-a", SecondaryKey: "5"}}},
			{Key: "/c", Value: []byte("0"), SecondaryIndexes: []*proto.SecondaryIndex{{IndexName: "idx-c", SecondaryKey: "5"}}},
		},
	})
	assert.NoError(t, err)
	get := func(idx, key string, ct proto.KeyComparisonType) *proto.GetResponse {
		gr, err := secondaryIndexGet(&proto.GetRequest{Key: key, ComparisonType: ct, SecondaryIndexName: pb.String(idx)}, lc.(*leaderController).db)
		assert.NoError(t, err)
		return gr
	}
	// idx-b is empty: every comparison type must report not found
	for _, ct := range []proto.KeyComparisonType{proto.KeyComparisonType_EQUAL, proto.KeyComparisonType_FLOOR,
		proto.KeyComparisonType_CEILING, proto.KeyComparisonType_LOWER, proto.KeyComparisonType_HIGHER} {
		gr := get("idx-b", "5", ct)
		assert.Equal(t, proto.Status_KEY_NOT_FOUND, gr.Status, "empty index, %v returned %v", ct, gr.Key)
	}
	// queries that run off the end of idx-a must not return idx-c's record
	assert.Equal(t, proto.Status_KEY_NOT_FOUND, get("idx-a", "6", proto.KeyComparisonType_CEILING).Status)
	assert.Equal(t, proto.Status_KEY_NOT_FOUND, get("idx-a", "5", proto.KeyComparisonType_HIGHER).Status)
	assert.Equal(t, proto.Status_KEY_NOT_FOUND, get("idx-c", "5", proto.KeyComparisonType_LOWER).Status)
	assert.Equal(t, proto.Status_KEY_NOT_FOUND, get("idx-c", "4", proto.KeyComparisonType_FLOOR).Status)
	// and floor past the end of an index returns its last entry
	gr := get("idx-a", "9", proto.KeyComparisonType_FLOOR)
	assert.Equal(t, proto.Status_OK, gr.Status)
	assert.Equal(t, "/a", gr.GetKey())
	gr = get("idx-c", "9", proto.KeyComparisonType_FLOOR)
	assert.Equal(t, proto.Status_OK, gr.Status)
	assert.Equal(t, "/c", gr.GetKey())
	assert.NoError(t, lc.Close())
}
