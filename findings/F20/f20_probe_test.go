package codec

// Demonstration for finding F20 (property C10): copy into /repo/server/wal/codec and run
//   go test ./server/wal/codec -run TestF20Probe
// Before the "fix: reading a truncated wal index file ..." commit ReadIndex panics
// (slice bounds out of range) on an index file shorter than its 4-byte checksum, e.g.
// after a crash while the index was being written; after it, ErrDataCorrupted is
// returned and the read-only segment rebuilds the index from the txn file.

import (
	"os"
	"path/filepath"
	"testing"

	"github.com/stretchr/testify/assert"
)

func TestF20Probe(t *testing.T) {
	for _, size := range []int{0, 1, 3} {
		p := filepath.Join(t.TempDir(), "short.idxx")
		assert.NoError(t, os.WriteFile(p, make([]byte, size), 0644))
		assert.NotPanics(t, func() {
			_, err := v2.ReadIndex(p)
			assert.ErrorIs(t, err, ErrDataCorrupted)
		}, "index file of %d bytes", size)
	}
}
