package server

// Demonstration for finding F11 (property C08): copy into /repo/server and run
//   go test ./server -run TestF11Probe
// Before the "fix: append to the wal inside the critical section ..." commit most
// concurrent writes fail with "N can not immediately follow M"; after it none does.

import (
	"context"
	"fmt"
	"sync"
	"sync/atomic"
	"testing"

	"github.com/stretchr/testify/assert"

	"github.com/oxia-db/oxia/common/constant"
	"github.com/oxia-db/oxia/proto"
	"github.com/oxia-db/oxia/server/kv"
)

func TestF11Probe(t *testing.T) {
	var shard int64 = 1
	kvFactory, _ := kv.NewPebbleKVFactory(testKVOptions)
	walFactory := newTestWalFactory(t)
	lc, _ := NewLeaderController(Config{}, constant.DefaultNamespace, shard, newMockRpcClient(), walFactory, kvFactory)
	_, _ = lc.NewTerm(&proto.NewTermRequest{Shard: shard, Term: 1})
	_, _ = lc.BecomeLeader(context.Background(), &proto.BecomeLeaderRequest{Shard: shard, Term: 1, ReplicationFactor: 1})

	var failed atomic.Int64
	var wg sync.WaitGroup
	for w := 0; w < 16; w++ {
		wg.Add(1)
		go func(w int) {
			defer wg.Done()
			for i := 0; i < 50; i++ {
				_, err := lc.WriteBlock(context.Background(), &proto.WriteRequest{
					Shard: &shard,
					Puts:  []*proto.PutRequest{{Key: fmt.Sprintf("/k-%d-%d", w, i), Value: []byte("v")}},
				})
				if err != nil {
					failed.Add(1)
				}
			}
		}(w)
	}
	wg.Wait()
	assert.EqualValues(t, 0, failed.Load(), "writes failed out of 800 with a healthy quorum")
	assert.NoError(t, lc.Close())
}
