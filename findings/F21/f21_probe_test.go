package server

// Demonstration for finding F21 (property C15): copy into /repo/server and run
//   go test ./server -run TestF21Probe
// Fails before the "fix: secondary-index get ..." commit, passes after it.

import (
	"context"
	"testing"

	"github.com/stretchr/testify/assert"
	pb "google.golang.org/protobuf/proto"

	"github.com/oxia-db/oxia/common/constant"
	"github.com/oxia-db/oxia/proto"
	"github.com/oxia-db/oxia/server/kv"
)

func TestF21Probe(t *testing.T) {
	var shard int64 = 1
	kvFactory, _ := kv.NewPebbleKVFactory(testKVOptions)
	walFactory := newTestWalFactory(t)
	lc, _ := NewLeaderController(Config{}, constant.DefaultNamespace, shard, newMockRpcClient(), walFactory, kvFactory)
	_, _ = lc.NewTerm(&proto.NewTermRequest{Shard: shard, Term: 1, Options: &proto.NewTermOptions{EnableNotifications: false}})
	_, _ = lc.BecomeLeader(context.Background(), &proto.BecomeLeaderRequest{Shard: shard, Term: 1, ReplicationFactor: 1})
	_, err := lc.WriteBlock(context.Background(), &proto.WriteRequest{
		Shard: &shard,
		Puts: []*proto.PutRequest{
			{Key: "/a", Value: []byte("0"), SecondaryIndexes: []*proto.SecondaryIndex{{IndexName: "idx-a", SecondaryKey: "5"}}},
			{Key: "/c", Value: []byte("0"), SecondaryIndexes: []*proto.SecondaryIndex{{IndexName: "idx-c", SecondaryKey: "5"}}},
		},
	})
	assert.NoError(t, err)
	get := func(idx, key string, ct proto.KeyComparisonType) *proto.GetResponse {
		gr, err := secondaryIndexGet(&proto.GetRequest{Key: key, ComparisonType: ct, SecondaryIndexName: pb.String(idx)}, lc.(*leaderController).db)
		assert.NoError(t, err)
		return gr
	}
	// the index whose entries are the last keys of the db: a walk that runs off the end of the
	// iterator must not return the last entry it looked at
	assert.Equal(t, proto.Status_KEY_NOT_FOUND, get("idx-c", "5", proto.KeyComparisonType_HIGHER).Status)
	assert.Equal(t, proto.Status_KEY_NOT_FOUND, get("idx-c", "9", proto.KeyComparisonType_HIGHER).Status)
	assert.Equal(t, proto.Status_KEY_NOT_FOUND, get("idx-c", "9", proto.KeyComparisonType_CEILING).Status)
	assert.NoError(t, lc.Close())
}

